"""R-resolve -- the code that is analysed is the code that runs.

Every rule of this package looks a function up by its qualified name in the
module that defines it and reasons about that definition.  That is only sound
if nothing replaces the definition behind the analysis' back.  The following
constructs would do that and are therefore violations of *every* property whose
check consults the module (they do not occur in the repository today):

  * a second definition of the same function / method in one scope (the later
    one silently wins);
  * a binding that replaces a function after its definition: `Cls.method = g`,
    `module.func = g`, `setattr(Cls, ...)`, a module-level assignment to the
    name of a function defined in that module, an import that rebinds it;
  * a decorator other than the ones in use today (`staticmethod`,
    `classmethod`, `property`, `x.setter`, `cython.*`): a wrapper such as a
    cache changes what a call returns;
  * attribute-protocol hooks (`__getattr__`, `__getattribute__`,
    `__setattr__`, `__class_getitem__`, metaclasses) on repository classes;
  * a method of a repository class overridden in a subclass where the
    reference copy has no such override (the rules bind calls to the base
    class definition);
  * attribute writes under a computed name (setattr with a non-literal name,
    vars(x) / x.__dict__ updates) and code built or loaded at run time
    (eval, exec, compile, __import__, importlib, types.MethodType).
"""
import ast
import os

from .core import VERIF
from .absint import text

ALLOWED_DECORATORS = ('staticmethod', 'classmethod', 'property')
HOOKS = {'__getattr__', '__getattribute__', '__setattr__', '__delattr__',
         '__class_getitem__', '__init_subclass__', '__set_name__',
         '__instancecheck__', '__subclasscheck__'}


def _decorator_ok(d):
    t = text(d)
    if t in ALLOWED_DECORATORS:
        return True
    if t.startswith('cython.'):
        return True
    if isinstance(d, ast.Attribute) and d.attr in ('setter', 'getter',
                                                   'deleter'):
        return True
    return False


def _reference_overrides():
    """{(class, method)} defined in the reference copy"""
    out = set()
    root = os.path.join(VERIF, 'reference')
    for dp, _, fs in os.walk(root):
        for f in fs:
            if not f.endswith('.py'):
                continue
            try:
                tree = ast.parse(open(os.path.join(dp, f)).read())
            except SyntaxError:
                continue
            for n in ast.walk(tree):
                if isinstance(n, ast.ClassDef):
                    for m in n.body:
                        if isinstance(m, (ast.FunctionDef,
                                          ast.AsyncFunctionDef)):
                            out.add((n.name, m.name))
    return out


def check_resolution(prog, report, only=None):
    """only: the modules the property's rules consulted (a rebinding in a
    module the property does not depend on is not its violation)"""
    classes = {}      # class name -> (module rel, node)
    funcs = {}        # module rel -> set of top-level function names
    for rel, m in prog.modules.items():
        funcs[rel] = set()
        for st in m.tree.body:
            if isinstance(st, ast.ClassDef):
                classes[st.name] = (rel, st)
            elif isinstance(st, (ast.FunctionDef, ast.AsyncFunctionDef)):
                funcs[rel].add(st.name)
    ref_over = _reference_overrides()
    n = 0
    for rel, m in sorted(prog.modules.items()):
        if only is not None and rel not in only:
            continue
        mods_alias = {}   # local alias -> imported repo module
        for st in ast.walk(m.tree):
            if isinstance(st, ast.Import):
                for al in st.names:
                    mods_alias[al.asname or al.name.split('.')[0]] = al.name
            elif isinstance(st, ast.ImportFrom):
                for al in st.names:
                    mods_alias.setdefault(al.asname or al.name, al.name)
        # 1. duplicate definitions in one scope
        scopes = [('', m.tree.body)] + [
            (c.name + '.', c.body) for c in m.tree.body
            if isinstance(c, ast.ClassDef)]
        for prefix, body in scopes:
            seen = {}
            for st in body:
                if isinstance(st, (ast.FunctionDef, ast.AsyncFunctionDef)):
                    n += 1
                    if st.name in seen and not any(
                            isinstance(d, ast.Attribute) and d.attr in (
                                'setter', 'getter', 'deleter')
                            for d in st.decorator_list):
                        report.violation(
                            'R-resolve', '%s%s defined twice' %
                            (prefix, st.name),
                            '%s:%d' % (rel, st.lineno),
                            'a second definition of %s%s in the same scope '
                            'replaces the first (line %d); the rules would '
                            'analyse one and the program run the other' %
                            (prefix, st.name, seen[st.name]),
                            construct='%s: %s%s defined twice' %
                            (rel, prefix, st.name))
                    seen[st.name] = st.lineno
                    for d in st.decorator_list:
                        if not _decorator_ok(d):
                            report.violation(
                                'R-resolve', '%s%s decorator %s' %
                                (prefix, st.name, text(d)[:40]),
                                '%s:%d' % (rel, st.lineno),
                                'the decorator wraps the function: what a '
                                'call returns is no longer what the analysed '
                                'body computes',
                                construct='%s: %s%s decorated with %s' %
                                (rel, prefix, st.name, text(d)[:40]))
                    if st.name in HOOKS and prefix:
                        report.violation(
                            'R-resolve', '%s%s attribute hook' %
                            (prefix, st.name), '%s:%d' % (rel, st.lineno),
                            'attribute-protocol hooks change what attribute '
                            'reads and writes mean for every rule',
                            construct='%s: %s%s hook' % (rel, prefix,
                                                         st.name))
        # 2. rebinding of functions / methods
        for st in ast.walk(m.tree):
            targets = []
            if isinstance(st, ast.Assign):
                targets = st.targets
            elif isinstance(st, (ast.AugAssign, ast.AnnAssign)):
                targets = [st.target]
            for t in targets:
                if isinstance(t, ast.Attribute) and isinstance(
                        t.value, ast.Name):
                    base = t.value.id
                    if base in classes and base != 'self':
                        # Cls.attr = ... outside the class body
                        cnode = classes[base][1]
                        is_method = any(isinstance(
                            b, (ast.FunctionDef, ast.AsyncFunctionDef))
                            and b.name == t.attr for b in cnode.body)
                        if is_method or isinstance(
                                getattr(st, 'value', None),
                                (ast.Lambda, ast.Name, ast.Attribute)):
                            report.violation(
                                'R-resolve', 'rebinding %s.%s' %
                                (base, t.attr), '%s:%d' % (rel, st.lineno),
                                'an attribute of a repository class is '
                                'assigned from outside the class: the '
                                'definition the rules analyse is replaced '
                                'at run time',
                                construct='%s: rebinding %s.%s' %
                                (rel, base, t.attr))
                    elif base in mods_alias and any(
                            t.attr in fs for fs in funcs.values()):
                        report.violation(
                            'R-resolve', 'rebinding %s.%s' % (base, t.attr),
                            '%s:%d' % (rel, st.lineno),
                            'a function of a repository module is replaced '
                            'at run time', construct='%s: rebinding %s.%s' %
                            (rel, base, t.attr))
                elif isinstance(t, ast.Name) and t.id in funcs[rel] and \
                        st in m.tree.body:
                    report.violation(
                        'R-resolve', 'rebinding %s' % t.id,
                        '%s:%d' % (rel, st.lineno),
                        'a module-level assignment replaces the function '
                        'of the same name',
                        construct='%s: rebinding %s' % (rel, t.id))
            # attribute writes whose name is computed: the rules reason
            # about attributes by name
            dyn = None
            if isinstance(st, ast.Call) and isinstance(
                    st.func, ast.Name) and st.func.id == 'setattr' and len(
                        st.args) >= 2 and not isinstance(st.args[1],
                                                         ast.Constant):
                dyn = 'setattr(%s, <computed name>, ...)' % text(
                    st.args[0])[:30]
            elif isinstance(st, ast.Call) and isinstance(
                    st.func, ast.Attribute) and st.func.attr in (
                        'update', 'setdefault', '__setitem__') and (
                            (isinstance(st.func.value, ast.Attribute)
                             and st.func.value.attr == '__dict__')
                            or (isinstance(st.func.value, ast.Call)
                                and text(st.func.value.func) == 'vars')):
                dyn = text(st)[:50]
            elif isinstance(st, ast.Subscript) and isinstance(
                    st.ctx, (ast.Store, ast.Del)) and (
                        (isinstance(st.value, ast.Attribute)
                         and st.value.attr == '__dict__')
                        or (isinstance(st.value, ast.Call)
                            and text(st.value.func) == 'vars')):
                dyn = text(st)[:50]
            if dyn is not None:
                report.violation(
                    'R-resolve', 'dynamic attribute write %s' % dyn,
                    '%s:%d' % (rel, st.lineno),
                    'an attribute whose name is computed at run time is '
                    'written: which state changes is invisible to every '
                    'rule that reasons about attributes by name',
                    construct='%s: dynamic attribute write' % rel)
            # code that is not in the syntax tree
            if isinstance(st, ast.Call) and (
                    (isinstance(st.func, ast.Name) and st.func.id in (
                        'eval', 'exec', 'compile', '__import__'))
                    or text(st.func) in ('importlib.import_module',
                                         'importlib.reload', 'types.MethodType',
                                         'types.FunctionType')):
                report.violation(
                    'R-resolve', 'dynamic code %s' % text(st.func),
                    '%s:%d' % (rel, st.lineno),
                    'code that is built or loaded at run time is not in '
                    'the syntax tree the rules read',
                    construct='%s: dynamic code via %s' % (rel,
                                                           text(st.func)))
            if isinstance(st, ast.Call) and isinstance(
                    st.func, ast.Name) and st.func.id == 'setattr' and \
                    st.args and isinstance(st.args[0], ast.Name) and (
                        st.args[0].id in classes
                        or st.args[0].id in mods_alias):
                report.violation(
                    'R-resolve', 'setattr on %s' % st.args[0].id,
                    '%s:%d' % (rel, st.lineno),
                    'setattr on a repository class / module replaces a '
                    'definition at run time',
                    construct='%s: setattr(%s, ...)' % (rel, st.args[0].id))
        # an import that rebinds a locally defined function
        for st in m.tree.body:
            if isinstance(st, ast.ImportFrom):
                for al in st.names:
                    nm = al.asname or al.name
                    if nm in funcs[rel]:
                        pos_def = min(
                            s.lineno for s in m.tree.body
                            if isinstance(s, (ast.FunctionDef,
                                              ast.AsyncFunctionDef))
                            and s.name == nm)
                        if st.lineno > pos_def:
                            report.violation(
                                'R-resolve', 'import rebinding %s' % nm,
                                '%s:%d' % (rel, st.lineno),
                                'an import after the definition replaces '
                                'the function of the same name',
                                construct='%s: import rebinding %s' %
                                (rel, nm))
        # 3. metaclasses and new overrides
        for c in m.tree.body:
            if not isinstance(c, ast.ClassDef):
                continue
            if any(k.arg == 'metaclass' for k in c.keywords):
                report.violation(
                    'R-resolve', 'metaclass on %s' % c.name,
                    '%s:%d' % (rel, c.lineno),
                    'a metaclass may change attribute lookup',
                    construct='%s: metaclass on %s' % (rel, c.name))
            bases = []
            todo = [b.id for b in c.bases if isinstance(b, ast.Name)]
            while todo:
                b = todo.pop()
                if b in classes and b not in bases:
                    bases.append(b)
                    todo += [x.id for x in classes[b][1].bases
                             if isinstance(x, ast.Name)]
            for b_ in c.body:
                if not isinstance(b_, (ast.FunctionDef,
                                       ast.AsyncFunctionDef)):
                    continue
                if b_.name.startswith('__') and b_.name.endswith('__'):
                    continue
                inherited = [b for b in bases if any(
                    isinstance(x, (ast.FunctionDef, ast.AsyncFunctionDef))
                    and x.name == b_.name for x in classes[b][1].body)]
                if inherited and (c.name, b_.name) not in ref_over:
                    report.violation(
                        'R-resolve', 'new override %s.%s' %
                        (c.name, b_.name), '%s:%d' % (rel, b_.lineno),
                        '%s.%s overrides %s.%s, which the rules bind calls '
                        'to; the reference copy has no such override' %
                        (c.name, b_.name, inherited[0], b_.name),
                        construct='%s: new override %s.%s' %
                        (rel, c.name, b_.name))
    report.ok('R-resolve', 'definitions are unique and not rebound',
              'all modules', '%d function definitions in %d modules: no '
              'duplicate definition, no rebinding of a function or method, '
              'no wrapping decorator, no attribute hook, no new override' %
              (n, len(prog.modules) if only is None else len(only)))
