"""C05 -- every tabulated quadrature rule is exact for its advertised class.

Finite space, decided completely (DESIGN.md E1)."""
import ast
from fractions import Fraction

from .. import tables
from ..core import AnalysisError

LEVEL = 'proof'
META = {
    'explanation':
    'Every branch of the seven if/elif rule tables is read from the source '
    'text; each literal is taken from its characters into an exact rational '
    '(and again through float() into the exact value of the double) and '
    'every moment condition of the advertised function class is evaluated '
    'in mpmath interval arithmetic; plus returned-ness, lengths, open '
    'interval, one-sign weights, exported key lists, constructor degree '
    'maps and literal requests in the non-test sources.',
    'checker_cmd': 'python3-vt -m stbem_static C05 --tier <tier>',
    'trusted_base': [
        'CPython ast', 'mpmath.iv interval arithmetic',
        'closed-form moments of x^k, x^k log x, x^k log(1-x), x^k sqrt x, '
        'x^(k-1/2) on (0,1)'
    ],
    'exhaustive': True,
}

LIT_BOUND = 1e-30
DBL_BOUND = 1e-13
QUAD_FILE = 'src/quadrature.py'

# scheme constructor -> rule function it must call
CONSTRUCTORS = {
    'gauss_sqrtinv_quadrature_scheme': 'gauss_sqrtinv_quadrature_rule',
    'gauss_x_quadrature_scheme': 'gauss_x_quadrature_rule',
    'gauss_log_quadrature_scheme': 'gauss_log_quadrature_rule',
    'log_quadrature_scheme': 'log_quadrature_rule',
    'log_log_quadrature_scheme': 'log_log_quadrature_rule',
    'sqrt_quadrature_scheme': 'sqrt_quadrature_rule',
    'sqrtinv_quadrature_scheme': 'sqrtinv_quadrature_rule',
}


def check_base_tables(prog, report, skip=()):
    """The exactness of the tabulated literals only (E1-literal, E1-double),
    for checks of properties that take the base rules as a premise."""
    ext = tables.extract_rules(prog)
    for fname, (fi, rules, else_ok) in ext.items():
        if fname in skip:
            continue
        family, _ = tables.FAMILIES[fname]
        for r in rules:
            where = '%s:%d (%s)' % (fi.file, r.lineno, fname)
            if r.problem and r.merged:
                report.violation('E1-literal', r.name, where, r.problem,
                                 construct=r.name)
                continue
            if r.problem:
                raise AnalysisError('%s: %s' % (where, r.problem))
            same_len, _, _, _ = tables.shape_facts(r)
            if not same_len or not r.returned:
                report.violation('E1-literal', r.name, where,
                                 'malformed table entry', construct=r.name)
                continue
            hi, label, nm, lo = tables.residuals(r, family, 80, False)
            if hi < LIT_BOUND:
                report.ok('E1-literal', r.name, where,
                          '%d moments, max rel residual <= %.2e' % (nm, hi))
            elif lo < LIT_BOUND:
                raise AnalysisError(
                    '%s: interval too wide to decide 1e-30 bound' % where)
            else:
                report.violation(
                    'E1-literal', r.name, where,
                    'literals as written: rel residual %.3e >= 1e-30 on '
                    '%s (%d moments checked)' % (lo, label, nm),
                    construct=r.name, measure=hi)


def run(prog, report, tier):
    digits = 80 if tier == 'quick' else 200
    ext = tables.extract_rules(prog)
    mod = prog.module(tables.RULES_FILE)
    n_rules = 0
    verified = {}  # func -> {key: (n_nodes, ok)}
    for fname, (fi, rules, else_ok) in ext.items():
        family, export = tables.FAMILIES[fname]
        verified[fname] = {}
        seen_keys = set()
        report.check(
            else_ok, 'E1-else-aborts', fname, fi.where(),
            'a request for a key that is not tabulated must abort '
            '(assert False / raise), not return nothing')
        for r in rules:
            n_rules += 1
            where = '%s:%d (%s)' % (fi.file, r.lineno, fname)
            if r.key in seen_keys:
                report.violation('E1-duplicate-key', r.name, where,
                                 'key tested twice; second branch is dead')
            seen_keys.add(r.key)
            if r.problem and r.merged:
                report.violation('E1-lengths', r.name, where, r.problem,
                                 construct=r.name)
                continue
            if r.problem:
                raise AnalysisError('%s: %s' % (where, r.problem))
            report.check(
                r.returned, 'E1-returned', r.name, where,
                'the (nodes, weights) pair of this branch must be returned; '
                'a bare tuple expression makes the function return None',
                construct='%s: tuple expression without return' % r.name)
            same_len, inside, onesign, n = tables.shape_facts(r)
            report.check(same_len, 'E1-lengths', r.name, where,
                         '%d nodes vs %d weights' %
                         (len(r.nodes_txt), len(r.weights_txt)))
            report.check(inside, 'E1-open-interval', r.name, where,
                         'all nodes strictly inside (0,1)')
            report.check(onesign, 'E1-one-sign', r.name, where,
                         'all weights of one sign')
            if not same_len:
                verified[fname][r.key] = (n, False)
                continue
            hi, label, nm, lo = tables.residuals(r, family, digits, False)
            okl = hi < LIT_BOUND
            if okl:
                report.ok('E1-literal', r.name, where,
                          '%d moments, max rel residual <= %.2e (worst %s)' %
                          (nm, hi, label))
            else:
                if lo < LIT_BOUND:
                    raise AnalysisError(
                        '%s: interval too wide to decide 1e-30 bound' % where)
                report.violation(
                    'E1-literal', r.name, where,
                    'literals as written: rel residual %.3e >= 1e-30 on '
                    '%s (%d moments checked)' % (lo, label, nm),
                    construct=r.name, measure=hi)
            hid, labeld, nmd, lod = tables.residuals(r, family, digits, True)
            okd = hid < DBL_BOUND
            report.check(okd, 'E1-double', r.name, where,
                         'values rounded to double: max rel residual %.2e '
                         '(bound 1e-13, worst %s)' % (hid, labeld))
            report.extra.setdefault('moments_checked', 0)
            report.extra['moments_checked'] += nm + nmd
            verified[fname][r.key] = (n, okd and r.returned)
        # exported key list
        if export is not None:
            if export not in mod.consts:
                raise AnalysisError('exported list %s not found' % export)
            try:
                keys = ast.literal_eval(mod.consts[export])
            except Exception:
                raise AnalysisError('exported list %s is not a literal' %
                                    export)
            for k in keys:
                report.check(
                    k in seen_keys, 'E1-exported-key',
                    '%s%s' % (export, k),
                    '%s (%s)' % (fi.file, export),
                    'every pair named in the exported list must be a key of '
                    'the chain of %s' % fname)
    report.extra['rules_checked'] = n_rules
    report.floor('E1-literal', 95)
    report.floor('E1-returned', 95)
    report.floor('E1-exported-key', 60)
    _constructors(prog, report, ext, verified)
    from ..quadalg import check_scheme_ctor
    check_scheme_ctor(prog, report)
    _must_return(prog, report)
    _literal_requests(prog, report, verified)
    if tier == 'thorough':
        _regenerate(report, ext)
    report.not_decided.append(
        'floating-point summation order inside np.dot is not modelled: the '
        '1e-13 bound is checked for exact sums of the double-rounded '
        'nodes/weights')


# --------------------------------------------------------------------------
def _int_eval(node, env):
    """Constant folding of integer index arithmetic."""
    if isinstance(node, ast.Constant) and isinstance(node.value, int):
        return node.value
    if isinstance(node, ast.Name) and node.id in env:
        return env[node.id]
    if isinstance(node, ast.BinOp):
        l, r = _int_eval(node.left, env), _int_eval(node.right, env)
        if isinstance(node.op, ast.Add):
            return l + r
        if isinstance(node.op, ast.Sub):
            return l - r
        if isinstance(node.op, ast.Mult):
            return l * r
        if isinstance(node.op, ast.FloorDiv):
            return l // r
        if isinstance(node.op, ast.Mod):
            return l % r
    if isinstance(node, ast.UnaryOp) and isinstance(node.op, ast.USub):
        return -_int_eval(node.operand, env)
    if isinstance(node, ast.Call) and isinstance(
            node.func, ast.Name) and node.func.id in ('max', 'min', 'abs',
                                                      'int') and node.args:
        vals = [_int_eval(a, env) for a in node.args]
        return {'max': max, 'min': min, 'abs': lambda *a: abs(a[0]),
                'int': lambda *a: int(a[0])}[node.func.id](*vals)
    raise AnalysisError('cannot fold `%s`' % ast.unparse(node))


def _constructors(prog, report, ext, verified):
    """quadrature.py: each constructor maps an admissible requested degree to
    a key whose verified exactness covers that degree."""
    for cname, rname in CONSTRUCTORS.items():
        fi = prog.func(QUAD_FILE, cname)
        params = fi.params
        family = tables.FAMILIES[rname][0]
        # find the call of the rule function and the key expressions
        call = None
        assigns = []
        parity = None
        for st in fi.node.body:
            if isinstance(st, ast.Assert):
                t = st.test
                # assert (N_poly % 2 != 0)
                if isinstance(t, ast.Compare) and isinstance(
                        t.left, ast.BinOp) and isinstance(t.left.op, ast.Mod):
                    parity = t
            elif isinstance(st, ast.Assign):
                v = st.value
                if isinstance(v, ast.Call) and isinstance(
                        v.func, ast.Name) and v.func.id == rname:
                    call = v
                elif len(st.targets) == 1 and isinstance(
                        st.targets[0], ast.Name):
                    assigns.append((st.targets[0].id, v))
        if call is None:
            raise AnalysisError('%s: call of %s not found' %
                                (fi.where(), rname))
        keys = verified[rname]
        if family.startswith('gauss'):
            # requested polynomial degree N_poly -> key
            maxkey = max(keys)
            checked = 0
            for n_poly in range(1, 2 * maxkey + 3):
                env = {params[0]: n_poly}
                if parity is not None:
                    lhs = _int_eval(parity.left, env)
                    rhs = _int_eval(parity.comparators[0], env)
                    okp = (lhs != rhs) if isinstance(
                        parity.ops[0], ast.NotEq) else (lhs == rhs)
                    if not okp:
                        continue
                for name, v in assigns:
                    env[name] = _int_eval(v, env)
                key = _int_eval(call.args[0], env)
                if key not in keys:
                    continue  # request aborts in the table (else: assert)
                n_nodes, ok = keys[key]
                deg = tables.advertised_degree(family, key, n_nodes)
                checked += 1
                report.check(
                    ok and deg >= n_poly, 'E1-constructor-map',
                    '%s(%d)->%s[%d]' % (cname, n_poly, rname, key),
                    fi.where(),
                    'requested degree %d is served by a verified %d-node '
                    'rule exact to degree %d' % (n_poly, n_nodes, deg))
            if checked == 0:
                raise AnalysisError('%s: no admissible degree maps to a key'
                                    % fi.where())
        else:
            # pass-through of (N_poly, N_poly_x): arguments in order
            argn = [a.id if isinstance(a, ast.Name) else None
                    for a in call.args]
            report.check(
                argn == params, 'E1-constructor-map',
                '%s->%s' % (cname, rname), fi.where(),
                'the two degree parameters are handed to the table in '
                'order (got %s)' % argn)
        # result is wrapped unchanged: QuadScheme1D(nodes, weights)
        ret = [st for st in fi.node.body if isinstance(st, ast.Return)]
        good = False
        if len(ret) == 1 and isinstance(ret[0].value, ast.Call):
            c = ret[0].value
            tgt = None
            for st in fi.node.body:
                if isinstance(st, ast.Assign) and st.value is call:
                    t = st.targets[0]
                    if isinstance(t, ast.Tuple):
                        tgt = [e.id for e in t.elts
                               if isinstance(e, ast.Name)]
            got = [a.id if isinstance(a, ast.Name) else ast.unparse(a)
                   for a in c.args]
            good = (ast.unparse(c.func) == 'QuadScheme1D' and tgt is not None
                    and got == tgt and not c.keywords)
        report.check(good, 'E1-constructor-wrap', cname, fi.where(),
                     'constructor returns QuadScheme1D(nodes, weights) with '
                     'the table output in (nodes, weights) order')
    report.floor('E1-constructor-map', 30)


def _must_return(prog, report):
    """Every function of the two anchored files returns on every
    non-raising path (or never returns a value at all)."""
    from ..flow import falls_through, has_value_return
    n = 0
    for rel in (tables.RULES_FILE, QUAD_FILE):
        mod = prog.module(rel)
        for q, fi in mod.funcs.items():
            if not isinstance(fi.node, ast.FunctionDef):
                continue
            if not has_value_return(fi.node):
                continue
            n += 1
            report.check(
                not falls_through(fi.node.body), 'E1-must-return', q,
                fi.where(),
                'function returns a value on some path and falls off the '
                'end (returns None) on another')
    report.floor('E1-must-return', 20)


def _literal_requests(prog, report, verified):
    """Every request with literal degrees in the non-test sources (also via
    constant parameter defaults) hits an existing key."""
    two_arg = {c: r for c, r in CONSTRUCTORS.items()
               if not tables.FAMILIES[r][0].startswith('gauss')}
    n = 0
    for fi in prog.all_funcs():
        if fi.file == QUAD_FILE or isinstance(fi.node, ast.Lambda):
            continue
        defaults = _param_defaults(fi)
        body = fi.node.body
        for st in body:
            for node in ast.walk(st):
                if not (isinstance(node, ast.Call) and isinstance(
                        node.func, ast.Name) and node.func.id in two_arg):
                    continue
                vals = []
                for a in node.args:
                    if isinstance(a, ast.Constant):
                        vals.append(a.value)
                    elif isinstance(a, ast.Name) and a.id in defaults:
                        vals.append(defaults[a.id])
                    else:
                        vals.append(None)
                if None in vals or len(vals) != 2:
                    continue
                rname = two_arg[node.func.id]
                prog.consulted.add(fi.file)
                n += 1
                key = tuple(vals)
                ent = verified[rname].get(key)
                report.check(
                    ent is not None and ent[1], 'E1-literal-request',
                    '%s%s in %s' % (node.func.id, key, fi.qualname),
                    fi.where(node),
                    'literal (default) request must hit a verified key')
    report.floor('E1-literal-request', 2)


def _param_defaults(fi):
    a = fi.node.args
    out = {}
    pos = a.posonlyargs + a.args
    for p, d in zip(pos[len(pos) - len(a.defaults):], a.defaults):
        if isinstance(d, ast.Constant) and isinstance(d.value, int):
            out[p.arg] = d.value
    return out


def _regenerate(report, ext):
    """Thorough: regenerate the three classical Gauss families from their
    exact moments and compare node by node / weight by weight."""
    from mpmath import mp
    fams = {
        'gauss_sqrtinv_quadrature_rule':
        (lambda k: Fraction(2, 2 * k + 1), 1),
        'gauss_x_quadrature_rule': (lambda k: Fraction(1, k + 2), 1),
        'gauss_log_quadrature_rule': (lambda k: Fraction(1, (k + 1)**2), -1),
    }
    for fname, (mom, sgn) in fams.items():
        fi, rules, _ = ext[fname]
        for r in rules:
            n = len(r.nodes_txt)
            xs, ws = tables.gauss_from_moments(mom, n, digits=120)
            mp.dps = 120
            order = sorted(range(n), key=lambda i: Fraction(r.nodes_txt[i]))
            worst = 0
            for j, i in enumerate(order):
                fx = Fraction(r.nodes_txt[i])
                fw = Fraction(r.weights_txt[i])
                dx = abs(mp.mpf(fx.numerator) / fx.denominator - xs[j])
                dw = abs(mp.mpf(fw.numerator) / fw.denominator -
                         sgn * ws[j]) / abs(ws[j])
                worst = max(worst, float(dx), float(dw))
            # a literal is printed with >= 29 significant digits; node and
            # weight agreement is implied by the moment check, this is an
            # independent derivation of the same fact
            bound = 1e-28
            where = '%s:%d (%s)' % (fi.file, r.lineno, fname)
            detail = ('max deviation from the rule regenerated from exact '
                      'moments (modified Chebyshev + symmetric eigenproblem '
                      'at 120 digits): %.2e (bound %.0e)' % (worst, bound))
            if worst < bound:
                report.ok('E1-regenerated', r.name, where, detail)
            else:
                report.violation('E1-regenerated', r.name, where, detail,
                                 construct=r.name, measure=worst)
