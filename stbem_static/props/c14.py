"""C14 -- Slobodeckij seminorm quadratures (DESIGN.md E1/E5)."""
from .. import normsrules, quadalg, effects

LEVEL = 'other'
META = {
    'explanation':
    'Every order the property names (1..23 for H^1/4, 1..21 for H^1/2) is '
    'served by a returned, verified table rule of sufficient degree '
    '(E1-rule, E1-available); the H^1/4 rule satisfies 2|s-t|^(-3/2) '
    '|det DT| = built-in Gauss weight * explicit factor with scaling '
    'h^(1/2), the same-piece H^1/2 rule has |det DT| = the built-in weight '
    'u and computes the distance from the mapped points, the two-piece '
    'rule consists of two maps with Jacobian u collapsing at the corner '
    'where the pieces meet and tiling the unit square '
    '(R-singular-measure, R-jac, R-pushforward); the evaluation structure '
    'is quadratic in f through (f(s)-f(t))^2 only, a enters only through '
    'the affine map and b only through h = b - a, flat and curve-aware '
    'variants differ only in the distance term; tensor layout and the '
    'integrate() maps are those certified under C15 (R-layout, R-affine).',
    'checker_cmd': 'python3-vt -m stbem_static C14 --tier <tier>',
    'trusted_base': ['CPython ast', 'mpmath.iv', 'sympy',
                     'numpy semantics of repeat/tile/kron/hstack'],
}


def run(prog, report, tier):
    normsrules.check_availability(prog, report)
    normsrules.check_singular_measure(prog, report)
    quadalg.check_layout(prog, report)
    quadalg.check_affine(prog, report)
    normsrules.check_order_defaults(prog, report)
    effects.check_memo(prog, report, files={'src/norms.py', 'src/quadrature.py'})
    report.assumptions.append(
        'weights of one sign and nodes in (0,1) (E1) give non-negativity; '
        'vanishing on constants and quadratic scaling follow from the '
        '(f(s)-f(t))^2 structure')
    report.not_decided += [
        'twelve-digit agreement in floating point; the corner reference '
        'value (numerical)',
        'exactness degree (N-1)/2 follows from R-degree-type counting with '
        'E1 and is argued on paper (DESIGN.md section 4 C14)',
    ]
