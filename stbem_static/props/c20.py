"""C20 -- h-h/2 and hierarchical estimators equal their definitions."""
from .. import hier, signs

LEVEL = 'other'
META = {
    'explanation':
    'The four virtual children tile the parent in a fixed order '
    '(R-children); the fine list is their element-major flattening, so '
    'np.repeat(Phi, 4) is the piecewise-constant extension; fine matrix, '
    'fine load and fine solve range over that list; the estimate is '
    'sqrt(d^T A_fine d) (R-index, R-hier).  For the hierarchical estimator '
    'mat = Mat(fine test, coarse trial), VPhi = mat @ Phi, the three sign '
    'patterns equal sigma_t^e_t sigma_x^e_x computed from the extracted '
    'child order, eta_k = |<data - V Phi, psi_k>|^2 / (c^T S c) with S in '
    'child order, outputs e_t + e_c/2 and e_x + e_c/2; all sign '
    'conventions are proportional to V + M0 - g (R-signs); Prolongate '
    'copies the value of the nearest ancestor.',
    'checker_cmd': 'python3-vt -m stbem_static C20 --tier <tier>',
    'trusted_base': ['CPython ast', 'numpy semantics of repeat and @'],
}


def run(prog, report, tier):
    from .. import effects as _ef
    _ef.check_global_memos(prog, report, {'src/mesh.py', 'src/hierarchical_error_estimator.py', 'src/h_h2_error_estimator.py'})
    hier.check_virtual_children(prog, report)
    hier.check_hh2(prog, report)
    hier.check_hier(prog, report)
    hier.check_prolongate(prog, report)
    signs.check_signs(prog, report, which=('hh2', 'hier'))
    report.floor('R-hier', 6)
    report.floor('R-index', 6)
    report.floor('R-signs', 2)
    report.not_decided += [
        'numerical equality with a really bisected mesh (C11 decides that '
        'the virtual quarters are the real quarters geometrically)',
        'non-negativity relies on scaling_estim > 0, i.e. ellipticity '
        '(C13, not applicable)',
    ]
