"""C04 -- causality: Volterra structure, never negative (DESIGN.md E3)."""
from .. import causal, indexing, kernels, meshrules, panels, effects
from ..cas import run_tasks

LEVEL = 'other'
META = {
    'explanation':
    'Path-sensitive walk of every causality site (table B.1): each zero '
    'exit must be implied acausal (R-exit-sound), a kernel value may be '
    'returned only where the path facts entail T > S (R-exit-complete), '
    'every time difference in a denominator / root / positive parameter is '
    'entailed to have a strict sign (R-posdiff), the four-term '
    'inclusion-exclusion of the doubly time-integrated kernel has the '
    'required (end point, sign, guard) set with one certified antiderivative '
    '(R-fourterm, K1/K2 by computer algebra), and on all three assembly '
    'paths mat[i, j] = bilform(trial_j, test_i) with rows = test (R-index). '
    'Entailment is decided in a linear-inequality fact domain '
    '(Fourier-Motzkin over exact rationals); nothing is executed.  '
    'Filters on the trial list are held to the same soundness rule as '
    'skips; the closed-form dispatcher passes the time end points on '
    'unchanged (R-translate); element intervals come from the corner '
    'vertices (R-geometry); the matrix cache key depends on the lists '
    'actually passed (R-cachekey).',
    'checker_cmd': 'python3-vt -m stbem_static C04 --tier <tier>',
    'trusted_base': [
        'CPython ast', 'linear fact domain (Fourier-Motzkin, exact '
        'rationals)', 'sympy differentiation/cancellation',
        'role table B.1 (parameter names of today\'s API)'
    ],
}


def run(prog, report, tier):
    causal.run_sites(prog, report)
    causal.run_prefilters(prog, report)
    indexing.check_bilform_matrix(prog, report)
    meshrules.check_element_geometry(prog, report)
    panels.check_exact_splitter(prog, report)
    effects.check_cache(prog, report)
    run_tasks(report, [(kernels.cert_K1, (prog.repo, )),
                       (kernels.cert_K2_fourterm, (prog.repo, )),
                       (kernels.cert_fourterm_exact, (prog.repo, ))])
    for f in (kernels.SL, kernels.SLX):
        prog.consulted.add(f)
    report.floor('R-exit-sound', 14)
    report.floor('R-exit-complete', 16)
    report.floor('R-posdiff', 80)
    report.floor('R-fourterm', 14)
    report.assumptions += [
        'element time intervals satisfy t0 < t1 (asserted in '
        'Element.__init__)',
        'roles (test/trial, observation time) are bound by the parameter '
        'names of bilform/evaluate/evaluate_exact/potential',
    ]
    report.not_decided += [
        'the rounding bound -1e-15*sqrt(diag_i*diag_j) and strict '
        'positivity above underflow (numerical)',
        'sign of the result: structural argument only -- the integrand F '
        'terms are certified (K2), quadrature weights are of one sign (C05 '
        'E1-one-sign) and Duffy multipliers are non-negative (C15 R-jac)',
    ]
