"""C08 -- initial-potential load vector (DESIGN.md E2/E5/E8)."""
from .. import ipotrules, quadtree, quadalg, causal, effects
from .. import problems_cert as pc
from ..cas import run_tasks
from . import c03

LEVEL = 'other'
META = {
    'explanation':
    'Every scalar context on the way from linform to the matched domain '
    'mesh receives rank-0 values for tuples, lists and 2x1 arrays '
    '(R-scalar: the load can be computed at all); the E1 time kernel is '
    'the time integral of the heat kernel with the a == 0 case as its '
    'limit, and the inline copy in linform equals it up to the factored '
    '(4 pi)^-1 (K6, K7); each branch multiplies by cell area x segment '
    'length x (4 pi)^-1 exactly once, distances are computed from the '
    'mapped points, every leaf cell contributes once, exactly one cell is '
    'identical, the integrand is linear in u0 (R-prefactor); the two 3-D '
    'Duffy rules used have Jacobian = weight multiplier, tile the cube and '
    'lose two degrees (R-jac, R-pushforward, R-degree); the pointwise '
    'integrand is G_t * u0; the shipped closed-form potentials satisfy the '
    'heat equation with initial trace u0 (K8); time differences in the E1 '
    'arguments have an entailed sign (R-posdiff); the t = 0 case split '
    'is exact; point comparisons of the domain-mesh search use '
    'math.isclose with small tolerances (R-tolerance); the load-vector '
    'cache name carries the problem.',
    'checker_cmd': 'python3-vt -m stbem_static C08 --tier <tier>',
    'trusted_base': ['CPython ast', 'sympy', 'NumPy >= 2 scalar rule'],
}


def run(prog, report, tier):
    from .. import quadtree as _qt
    _qt.check_diam(prog, report)
    quadtree.check_scalar(prog, report)
    quadtree.check_bdr_search(prog, report)
    quadtree.check_tolerances(prog, report)
    effects.check_cache(prog, report)
    effects.check_pools(prog, report, only={effects.IP})
    report.floors.pop('R-ordered', None)
    report.floors.pop('R-handover', None)
    effects.check_memo(prog, report, files={effects.IP})
    ipotrules.check_prefactor(prog, report)
    deg3 = 4 if tier == 'quick' else 7
    quadalg.check_duffy(prog, report, 'DuffySchemeIdentical3D', 'scheme3d',
                        3, [({'symmetric_xy': False}, False)], deg3,
                        {False: 6, True: 3}, None)
    quadalg.check_duffy(prog, report, 'DuffySchemeTouch3D', 'scheme3d', 3,
                        [({}, False)], deg3, {False: 3}, None)
    quadalg.check_layout(prog, report)
    causal.run_sites(prog, report, which=('posdiff', ), files={causal.IP})
    fi, pairs = c03.problem_pairs(prog, report)
    tasks = [(ipotrules.cert_K6, (prog.repo, )),
             (ipotrules.cert_evaluate, (prog.repo, ))]
    for f, d in pairs:
        tasks.append((pc.cert_K8_pde, (prog.repo, f)))
        tasks.append((pc.cert_K8_trace, (prog.repo, f, d)))
    run_tasks(report, tasks)
    report.floor('R-scalar', 10)
    report.floor('K6', 7)
    report.floor('K7', 2)
    report.floor('K8', 8)
    report.assumptions.append('element time intervals satisfy 0 <= a < b')
    report.not_decided += [
        'the 1e-5 accuracy of the 3-D Duffy rules on the smooth remainder; '
        'additivity under splitting as a numerical statement',
        'accuracy of the fixed Gauss rule of evaluate() for small t',
    ]
