"""C19 -- grading post-processing (DESIGN.md E6: R-stale, R-window)."""
from .. import stale, meshrules

LEVEL = 'other'
META = {
    'explanation':
    'Handle-provenance analysis of refine_grading: each refinement loop '
    'must iterate a collection whose members are provably still leaves '
    '(fresh level-sorted snapshot, or pre-pass snapshot re-resolved through '
    '.children after the pass in the other axis); the two marking '
    'conditions are the exact complements of the window h_t/K < h_x^sigma '
    '< K h_t (monomial normal form) and flow to the refinement of the '
    'matching axis; the sweep repeats until nothing is marked; every '
    'refinement goes through the public bisection entry points with their '
    'default (closure-preserving) behaviour; a memoised classification '
    'quantity is keyed on everything it depends on.',
    'checker_cmd': 'python3-vt -m stbem_static C19 --tier <tier>',
    'trusted_base': ['CPython ast', 'paper argument A.2 (closure only '
                     'bisects strictly lower levels; 1-irregularity)',
                     'sympy monomial normalisation'],
}


def run(prog, report, tier):
    meshrules.check_exact_mesh(prog, report)
    # every bisection restores 1-irregularity through the closure
    meshrules.check_closure(prog, report)
    meshrules.check_sweep_unbounded(prog, report)
    stale.check_drivers(prog, report, only={'Mesh.refine_grading'})
    meshrules.check_window(prog, report)
    meshrules.check_entry(prog, report)
    report.floor('R-stale', 2)
    report.floor('R-window', 4)
    report.floor('R-entry', 2)
    report.assumptions.append(
        'mesh invariants J1-J7 (decided as premises under C02/C10) hold on '
        'entry')
    report.not_decided += [
        'termination of the sweep for all histories',
        'that all mesh invariants still hold afterwards is C02/C10',
    ]
