"""C06 -- Doerfler marking (DESIGN.md E6: R-mark, R-stale)."""
from .. import stale, meshrules

LEVEL = 'other'
META = {
    'explanation':
    'Both marking functions are matched against the minimal-prefix loop '
    'schema: descending order of the accumulated value, mark -> accumulate '
    '-> test -> break, threshold normalised to cumsum >= theta^2 * total '
    '(non-strict) with the total over the whole indicator array, element '
    'and contribution bound to the same index, axis tags 0=time/1=space '
    'from column to refinement loop; and the refinement loops iterate '
    'collections whose members are provably leaves (S1 level-sorted fresh '
    'snapshot, S2 returned children sorted by the other axis, S3 pre-pass '
    'snapshot re-resolved through .children), without skipping.',
    'checker_cmd': 'python3-vt -m stbem_static C06 --tier <tier>',
    'trusted_base': ['CPython ast', 'sympy (threshold normal form)',
                     'paper argument A.2 for S1-S3'],
}


def run(prog, report, tier):
    meshrules.check_exact_mesh(prog, report)
    # every bisection restores 1-irregularity through the closure
    meshrules.check_closure(prog, report)
    meshrules.check_marking(prog, report)
    stale.check_drivers(prog, report,
                        only={'Mesh.dorfler_refine_isotropic',
                              'Mesh.dorfler_refine_anisotropic'})
    report.floor('R-mark', 16)
    report.floor('R-stale', 4)
    report.assumptions.append('mesh invariants J1-J7 hold on entry (premises '
                              'decided under C02/C10)')
    report.not_decided += [
        'that the resulting mesh is the smallest 1-irregular refinement and '
        'independent of the order of ties (history semantics of the '
        'closure)',
        'behaviour of np.argsort on NaN indicators',
    ]
