"""C03 -- Galerkin orthogonality of the estimator's residual: mutual
consistency of matrix, loads, pointwise evaluation, problem data and sign
conventions (DESIGN.md E2, E3, E7)."""
import ast

from .. import causal, kernels, panels, signs, indexing, effects
from .. import problems_cert as pc
from ..absint import text
from ..cas import run_tasks
from ..core import AnalysisError

LEVEL = 'other'
META = {
    'explanation':
    'Decides the "consequently mutually consistent" clause: the four sites '
    'that combine single-layer term, initial potential and data (driver '
    'system, h-h/2 fine system, hierarchical functional, pointwise '
    'residual) are all proportional to V + M0 - g (R-signs); matrix, load, '
    'solution and estimators of one iteration range over one element list '
    'and mat[i,j] = bilform(trial_j, test_i) (R-index); the pointwise '
    'evaluation is the time integral of the kernel whose double time '
    'integral is the matrix entry (K1-K3, K5); every shipped closed-form '
    'M0u0 satisfies the heat equation and has initial trace u0 on its '
    'domain and 0 outside, g-linform is the element integral of g, and '
    'problem_helper pairs each problem with the domain of that name (K8); '
    'the residual skips only acausal trial elements and uses the collinear '
    'closed form only on a polygonal curve and the same piece (E3, '
    'R-straight); values stored into result[i] have rank 0 for every '
    'shipped datum (R-scalar); both splitters tile exactly '
    '(R-partition); cache keys depend on lists, curve and problem.',
    'checker_cmd': 'python3-vt -m stbem_static C03 --tier <tier>',
    'trusted_base': ['CPython ast', 'sympy (incl. complex erf identities)',
                     'linear fact domain',
                     'the erf -> sign rewriting for the initial trace'],
}


def problem_pairs(prog, report):
    """problem_helper: (function, domain) pairs from the if-chains."""
    fi = prog.func(pc.PR, 'problem_helper')
    pairs = []
    for n in ast.walk(fi.node):
        if isinstance(n, ast.If) and isinstance(n.test, ast.Compare) and \
                text(n.test.left) == 'domain' and isinstance(
                    n.test.comparators[0], ast.Constant):
            dom = n.test.comparators[0].value
            for s in n.body:
                if isinstance(s, ast.Expr) and isinstance(
                        s.value, ast.Call) and text(
                            s.value.func) == 'result.update':
                    pairs.append((text(s.value.args[0].func), dom))
    if len(pairs) < 4:
        raise AnalysisError('%s: problem table not recognised' % fi.where())
    return fi, pairs


def run(prog, report, tier):
    from .. import signs as _sg
    _sg.check_stale_loop_names(prog, report, [('src/error_estimator.py', 'ErrorEstimator.residual')])
    signs.check_signs(prog, report)
    signs.check_driver_index(prog, report)
    signs.check_residual_ranks(prog, report)
    indexing.check_bilform_matrix(prog, report)
    causal.run_prefilters(prog, report)
    causal.run_sites(prog, report, which=('sound', 'complete'),
                     files={kernels.SL})
    panels.check_straight(prog, report)
    effects.check_cache(prog, report)
    panels.check_integrate(prog, report, rules=('partition', 'precond'))
    panels.check_exact_splitter(prog, report)
    panels.check_binding(prog, report)
    fi, pairs = problem_pairs(prog, report)
    # the domain named in problem_helper is the curve class of that name in
    # the driver
    ex = prog.func('example.py', '<main>')
    doms = {}
    for n in ast.walk(ex.node):
        if isinstance(n, ast.If) and isinstance(n.test, ast.Compare) and \
                text(n.test.left) == 'args.domain':
            d = n.test.comparators[0].value
            for s in n.body:
                if isinstance(s, ast.Assign) and text(
                        s.targets[0]) == 'mesh':
                    doms.setdefault(d, []).append(
                        text(s.value).replace(' ', ''))
                if isinstance(s, ast.Assign) and text(
                        s.targets[0]) == 'initial_mesh':
                    doms[d + ':im'] = text(s.value)
    for f, d in pairs:
        ok = bool(doms.get(d)) and all(
            v.startswith('MeshParametrized(%s()' % d)
            for v in doms[d]) and doms.get(
                d + ':im') == d + 'BoundaryRefined'
        report.check(ok, 'K8', 'driver domain %s for %s' % (d, f),
                     ex.where(),
                     'the driver builds the boundary mesh on the curve '
                     'class %s and the domain mesh %sBoundaryRefined for '
                     'the problem data defined on that domain' % (d, d),
                     construct='example: domain binding for %s' % f)
    tasks = [(kernels.cert_K1, (prog.repo, )),
             (kernels.cert_K2_fourterm, (prog.repo, )),
             (kernels.cert_K3, (prog.repo, )),
             (pc.cert_K8_linform, (prog.repo, )),
             (pc.cert_K9, (prog.repo, ))]
    for f, d in pairs:
        tasks.append((pc.cert_K8_pde, (prog.repo, f)))
        tasks.append((pc.cert_K8_trace, (prog.repo, f, d)))
    run_tasks(report, tasks)
    for f in (pc.PR, pc.P, 'example.py'):
        prog.consulted.add(f)
    report.floor('R-signs', 5)
    report.floor('K8', 14)
    report.not_decided += [
        'the magnitude |int_E r| <= 5e-5 int_E |r| (quadrature accuracy of '
        'evaluate and linform, conditioning of the solve)',
        'InitialOperator.linform itself is decided under C08',
    ]
