"""C02 -- leaves tile the cylinder, minimally and 1-irregularly.
Premises of the inductive invariant J1-J7 (DESIGN.md A.1)."""
from .. import stale, meshrules

LEVEL = 'other'
META = {
    'explanation':
    'Decides the premises of the paper induction J1-J7 on today\'s source: '
    'ownership frame (only seven functions write mesh state), symmetric '
    'twin stores, cross-link of half-edges, flag inheritance, symbolic '
    'geometry of the two child constructions (edges chain, children tile '
    'the parent, every edge object used once, level +1 in the refined axis '
    'only), leaf/index bookkeeping, the shape of the conformity closure '
    '(all edges, strictly lower, same axis, before the first mutation), '
    'vertex reuse, the initial tensor wiring, and stale-handle analysis of '
    'all refinement drivers; bulk-marking loop schema (R-mark), element '
    'geometry (R-geometry) and the counts/listings of the gmsh dump '
    '(R-gmsh).',
    'checker_cmd': 'python3-vt -m stbem_static C02 --tier <tier>',
    'trusted_base': ['CPython ast', 'paper induction A.1/A.2 of DESIGN.md'],
}


def run(prog, report, tier):
    meshrules.check_exact_mesh(prog, report)
    meshrules.check_ownership(prog, report)
    meshrules.check_pairing(prog, report)
    meshrules.check_cross(prog, report)
    meshrules.check_inherit(prog, report)
    meshrules.check_children(prog, report)
    meshrules.check_element_geometry(prog, report)
    meshrules.check_leafbook(prog, report)
    meshrules.check_closure(prog, report)
    meshrules.check_vreuse(prog, report)
    meshrules.check_initial_wiring(prog, report)
    stale.check_drivers(prog, report)
    meshrules.check_marking(prog, report)
    meshrules.check_gmsh(prog, report)
    stale.all_refine_loops_known(prog, report)
    report.floor('R-stale', 13)
    report.assumptions.append(
        'user-supplied initial grids are strictly increasing (asserted by '
        'Element.__init__ at run time)')
    report.not_decided += [
        'that the closure yields exactly the smallest 1-irregular '
        'refinement for every history (follows from J4-J6 by the paper '
        'argument, not by the checker)',
        'the tiling statement itself for all histories: the checker '
        'decides the inductive step obligations, the induction is on paper',
    ]
