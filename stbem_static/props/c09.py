"""C09 -- Sobolev and weighted-L2 indicators equal their definition."""
from .. import estimrules, effects, normsrules

LEVEL = 'other'
META = {
    'explanation':
    'weighted_l2 returns (h_t^-1/2, h_x^-1) times h_t h_x rho in this '
    'order with rho the unit-square quadrature of r^2 at the affinely '
    'mapped tensor points (R-weights, monomial algebra); for each kind of '
    'neighbour across a time edge (right, left, right/left through the '
    'seam, the element itself) every reachable branch of the left/right '
    'selection orders the pair along the curve, and the interval handed to '
    'a one-piece seminorm is lo < hi of length h_left + h_right on every '
    'feasible (adjacency, same/different piece) path; time patch = '
    'intersection resp. union as defined (R-patch, linear fact domain with '
    'the adjacency axioms that C10/C18 supply); producer skip and consumer '
    'credit of the symmetry shortcut are complementary strict comparisons '
    'on the global indices, column 0 = time, 1 = space (R-accumulate); '
    'serial and pool paths call the same method with the same flag through '
    'an order-preserving pool created after the globals are set '
    '(R-samecall, R-ordered, R-handover); the on-disk cache of the '
    'indicators is keyed on curve and element list through a lossless '
    'element repr (R-cachekey, R-cacheio); the four estimator orders go '
    'to the rules they are named for (R-orders) and the seminorm '
    'routines have the structure certified under C14.',
    'checker_cmd': 'python3-vt -m stbem_static C09 --tier <tier>',
    'trusted_base': ['CPython ast', 'sympy', 'linear fact domain',
                     'adjacency axioms: a neighbour across a time edge is '
                     'adjacent in space directly or through the seam, and '
                     'two distinct leaves of one time slice never cover the '
                     'whole closed curve (C10, C18)'],
}


def run(prog, report, tier):
    estimrules.check_weighted_l2(prog, report)
    estimrules.check_patch(prog, report)
    estimrules.check_accumulation(prog, report)
    estimrules.check_orders(prog, report)
    normsrules.check_order_defaults(prog, report)
    effects.check_memo(prog, report, files={'src/norms.py', effects.EE})
    normsrules.check_singular_measure(prog, report)
    effects.check_pools(prog, report, only={effects.EE})
    effects.check_samecall(prog, report)
    # the two indicator arrays are cached on disk under a digest of the
    # curve and the element list
    effects.check_cache(prog, report, estimator=True)
    report.floors.pop('R-ordered', None)
    report.floors.pop('R-handover', None)
    report.floor('R-ordered', 6)
    report.floor('R-handover', 9)
    report.not_decided += [
        'numerical agreement with an independent double integral; '
        'invariance under rigid motions (numerical)',
        'the Slobodeckij quadratures themselves are decided under C14',
    ]
