"""C15 -- derived quadrature schemes preserve measure and polynomial
exactness (DESIGN.md E5)."""
from .. import quadalg, effects

LEVEL = 'proof'
META = {
    'explanation':
    'The point maps and weight multipliers of every derived-scheme '
    'constructor are lifted from the source into polynomials in the base '
    'coordinates: each integrate() maps coordinate k with the k-th pair of '
    'bounds and multiplies by each side length once (R-affine); whatever '
    'is stored as a cached mirror of a scheme is that scheme with exactly '
    'one coordinate replaced by 1-p and the same weights (R-mirror); the '
    'tensor layout of points and weights uses one bijection (R-layout); '
    'for each Duffy map |det DT| equals the weight multiplier (R-jac), the '
    'sum of push-forwards of J du has the moments of Lebesgue measure for '
    'all monomials up to the tier\'s degree, compared exactly '
    '(R-pushforward), and composition raises the per-variable degree by '
    'at most dims-1 (R-degree); constructors never update the shared base '
    'weights in place (R-nomutate).  With C05 (base rules exact) this is '
    'the polynomial-exactness theorem of DESIGN.md A.3.',
    'checker_cmd': 'python3-vt -m stbem_static C15 --tier <tier>',
    'trusted_base': ['CPython ast', 'sympy polynomial arithmetic and '
                     'integration over the unit cube',
                     'numpy semantics of repeat/tile/kron/hstack (index '
                     'functions stated in R-layout)',
                     'paper argument A.3'],
}


def run(prog, report, tier):
    deg2, deg3 = (6, 4) if tier == 'quick' else (12, 7)
    # premise: the tabulated base rules are exact for their classes (the
    # property is stated for "every tabulated base rule"); gauss_log is
    # left to C05, where its two known findings are listed
    from .c05 import check_base_tables
    check_base_tables(prog, report, skip=('gauss_log_quadrature_rule', ))
    quadalg.check_affine(prog, report)
    quadalg.check_mirrors(prog, report)
    quadalg.check_layout(prog, report)
    effects.check_memo(prog, report, files={'src/quadrature.py'})
    quadalg.check_duffy(prog, report, 'DuffyScheme2D', 'scheme2d', 2,
                        [({'symmetric': False}, False),
                         ({'symmetric': True}, True)], deg2,
                        {False: 2, True: 1}, None)
    quadalg.check_duffy(prog, report, 'DuffySchemeIdentical3D', 'scheme3d',
                        3, [({'symmetric_xy': False}, False),
                            ({'symmetric_xy': True}, True)], deg3,
                        {False: 6, True: 3}, None)
    quadalg.check_duffy(prog, report, 'DuffySchemeTouch3D', 'scheme3d', 3,
                        [({}, False)], deg3, {False: 3}, None)
    report.floor('R-jac', 20)
    report.floor('R-pushforward', 5)
    report.floor('R-degree', 5)
    report.not_decided += [
        'monotone convergence on log-singular model integrands (numerical)',
        'floating-point evaluation of the maps',
    ]
