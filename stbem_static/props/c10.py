"""C10 -- reported neighbours are the geometric neighbours.
Premises of the half-edge invariants J4-J6 (DESIGN.md A.1)."""
from .. import meshrules, curverules

LEVEL = 'other'
META = {
    'explanation':
    'Decides the premises of the half-edge invariants: every twin store is '
    'symmetric (R-pair), half i of a bisected edge is linked to half 1-i of '
    'its twin (R-cross), boundary/glue flags are inherited by half-edges '
    'and fresh interior edges are parentless twins (R-inherit), the lookup '
    'ladder of neighbour_elements gives each of its four answers under '
    'exactly the right conditions (R-ladder), the initial tensor mesh wires '
    'interior twins, boundary flags and the seam per slab (R-wiring), and '
    'no other function writes the half-edge state (R-own).',
    'checker_cmd': 'python3-vt -m stbem_static C10 --tier <tier>',
    'trusted_base': ['CPython ast', 'paper argument A.1 (J4-J6 imply the '
                     'geometric statement)'],
}


def run(prog, report, tier):
    from .. import curverules as _cr
    _cr.check_closed_flag(prog, report)
    meshrules.check_exact_mesh(prog, report)
    meshrules.check_pairing(prog, report)
    meshrules.check_cross(prog, report)
    meshrules.check_inherit(prog, report)
    meshrules.check_ladder(prog, report)
    meshrules.check_initial_wiring(prog, report)
    meshrules.check_ownership(prog, report)
    meshrules.check_vreuse(prog, report)
    meshrules.check_closure(prog, report)
    curverules.check_polygon_ctor(prog, report)
    report.not_decided.append(
        'the history-quantified statement itself (exactly the leaves '
        'sharing positive length): it follows from J4-J6 by the paper '
        'argument, the checker decides the premises')
