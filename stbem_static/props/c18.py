"""C18 -- curves are arc-length, closed, piecewise consistent; elements sit
on one piece; at least three elements around a closed curve."""
from .. import curverules, meshrules, hier
from .. import problems_cert as pc
from ..cas import run_tasks

LEVEL = 'other'
META = {
    'explanation':
    'circle has unit speed and period 2 pi, line() is affine with unit '
    'direction and returns the side length, the shipped polygons are '
    'closed axis-parallel literal vertex lists (K9, computer algebra on '
    'the lifted maps); PiecewisePolygon gives piece i the offset '
    'pw_start[i] and accumulates the side lengths, eval selects piece i on '
    '[pw_start[i], pw_start[i+1]] (R-pieces); MeshParametrized uses the '
    'break points as default grid, glues iff the curve is closed, assigns '
    'each root the piece whose half-open range contains its start, '
    'children and virtual children inherit the piece (R-inherit, '
    'R-children, R-own for gamma_space); the closed-curve guard depends '
    'only on the per-slab count, fires exactly below three intervals and '
    'bisects every element twice (R-slabcount).',
    'checker_cmd': 'python3-vt -m stbem_static C18 --tier <tier>',
    'trusted_base': ['CPython ast', 'sympy'],
}


def run(prog, report, tier):
    from .. import curverules as _cr
    from .. import effects as _ef
    _cr.check_closed_flag(prog, report)
    _ef.check_global_memos(prog, report, {'src/mesh.py', 'src/parametrization.py'})
    curverules.check_polygon_ctor(prog, report)
    curverules.check_eval(prog, report)
    curverules.check_root_pieces(prog, report)
    curverules.check_slabcount(prog, report)
    meshrules.check_inherit(prog, report)
    meshrules.check_ownership(prog, report)
    hier.check_virtual_children(prog, report)
    run_tasks(report, [(pc.cert_K9, (prog.repo, ))])
    report.floor('R-pieces', 7)
    report.floor('K9', 7)
    report.assumptions.append(
        'user-supplied space grids contain the break points of the curve '
        '(precondition of the property)')
    report.not_decided += [
        'behaviour for arbitrary user polygons (construction asserts are '
        'run-time checks)',
        'that two distinct elements touch in at most one end point follows '
        'from >= 3 elements per slab by the geometric argument, not by the '
        'checker',
    ]
