"""C07 -- pointwise evaluation on the boundary (DESIGN.md E2/E3/E4)."""
from .. import causal, kernels, evalrules, panels, quadalg
from ..cas import run_tasks

LEVEL = 'other'
META = {
    'explanation':
    'The inline time formulas of evaluate (in-element closure and '
    'vectorised tail, both time cases) equal the time integral of the heat '
    'kernel built from the certified antiderivative g (K1, K3); the closed '
    'forms of evaluate_exact / spacetime_evaluated_1 / gint satisfy their '
    'defining differential identities with the right boundary values and '
    'distances (K5); causality exits are sound and complete, time '
    'differences have an entailed strict sign, evaluate_exact cannot fall '
    'off its if/elif chain (R-exit-*, R-posdiff); the in-element split '
    'uses the mirrored rule on the part with the singularity at its right '
    'end, the outside rule is the one graded towards the nearer end point '
    'with seam-aware distances, mirrored/plain tables share the affine map '
    'and weights (R-grading-end, R-sym); the residual routes to the '
    'collinear closed form only on a polygonal curve and the same piece '
    '(R-straight); evaluate_vector hands time and parameter to evaluate '
    'unchanged, with gamma of the same parameter, entry j for leaf j '
    '(R-passthrough).',
    'checker_cmd': 'python3-vt -m stbem_static C07 --tier <tier>',
    'trusted_base': ['CPython ast', 'sympy', 'linear fact domain'],
}


def run(prog, report, tier):
    causal.run_sites(prog, report, files={kernels.SL, kernels.SLX})
    evalrules.check_grading_end(prog, report)
    evalrules.check_evaluate_vector(prog, report)
    panels.check_sym(prog, report)
    quadalg.check_mirrors(prog, report)
    panels.check_straight(prog, report, which=('residual', ))
    run_tasks(report, [(kernels.cert_K1, (prog.repo, )),
                       (kernels.cert_K3, (prog.repo, )),
                       (kernels.cert_K5, (prog.repo, tier))])
    report.floor('K3', 5)
    report.floor('K5', 18)
    report.not_decided += [
        'the 1e-8 / 5e-4 / 2e-3 accuracy classes of the fixed log rule '
        '(numerical)',
        'the in-element test x_a(1+1e-10) <= x_hat <= x_b(1-1e-10) '
        '(tolerances)',
    ]
