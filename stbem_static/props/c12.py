"""C12 -- symmetries of the kernel and of the curve (DESIGN.md E3/E4)."""
from .. import quadalg, panels, kernels, causal
from ..cas import run_tasks

LEVEL = 'other'
META = {
    'explanation':
    'Exchange: bilform binds x[k] to the curve of the element owning the '
    'k-th interval in both orderings (R-binding) and the time kernel is '
    'even in the spatial argument (R-even), the closed-form path swaps by '
    'argument permutation -- so exchanging the space intervals evaluates '
    'the same points.  Time shift: every time-integrated kernel depends on '
    'its time arguments only through comparisons and differences of two '
    'time values (R-fourterm "function of the difference", '
    'R-difference-only on the guards).  Seam: the seam-touching and '
    'seam-nearest branches grade towards the glued point 0~L exactly as '
    'the interior branches grade towards b=c (R-apex), with R-sym deriving '
    'the apex from the constructor arguments.',
    'checker_cmd': 'python3-vt -m stbem_static C12 --tier <tier>',
    'trusted_base': ['CPython ast', 'sympy', 'linear fact domain'],
}


def run(prog, report, tier):
    if tier == 'thorough':
        panels.order_type_table(prog, report)
    panels.check_sym(prog, report)
    quadalg.check_mirrors(prog, report)
    panels.check_binding(prog, report)
    panels.check_even(prog, report)
    panels.check_integrate(prog, report, rules=('apex', 'precond'))
    kernels.check_difference_only(prog, report)
    panels.check_exact_splitter(prog, report)
    run_tasks(report, [(kernels.cert_K2_fourterm, (prog.repo, )),
                       (kernels.cert_fourterm_exact, (prog.repo, ))])
    report.not_decided.append(
        'invariance under motions of the curve to 1e-7 (numerical: rotated '
        'pairs use the same branch structure but different floating-point '
        'nodes)')
