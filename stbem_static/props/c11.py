"""C11 -- Galerkin entries are additive under splitting (exact additivity of
the decomposition; DESIGN.md E4/E6)."""
from .. import panels, hier, kernels, causal, curverules
from ..cas import run_tasks

LEVEL = 'other'
META = {
    'explanation':
    'Decides the exact-arithmetic part of additivity: on every path of the '
    'recursive splitters (quadrature path and closed-form path) the '
    'sub-rectangles handed on tile the parent exactly and every recursive '
    'call satisfies the callee preconditions (R-partition, R-precond), so '
    'the splitter itself is additive; the four virtual quarters used by '
    'the h-h/2 and hierarchical estimators tile their parent in time and '
    'space, in the fixed order lower/left, lower/right, upper/left, '
    'upper/right, sit on the parent\'s piece and have the parent\'s '
    'arc-length sizes (R-children); leaves are graded towards the contact '
    'point and the four-term time kernel is complete (R-apex, R-fourterm: '
    'the pieces are integrated as accurately as the parent); internal '
    'assertions cannot fire on laminar intervals (R-assert).',
    'checker_cmd': 'python3-vt -m stbem_static C11 --tier <tier>',
    'trusted_base': ['CPython ast', 'linear fact domain (Fourier-Motzkin)'],
}


def run(prog, report, tier):
    panels.check_sym(prog, report)
    panels.check_integrate(prog, report)
    panels.check_exact_splitter(prog, report)
    panels.check_asserts(prog, report)
    hier.check_virtual_children(prog, report)
    causal.run_prefilters(prog, report)
    curverules.check_slabcount(prog, report)
    run_tasks(report, [(kernels.cert_K2_fourterm, (prog.repo, )),
                       (kernels.cert_fourterm_exact, (prog.repo, ))])
    report.not_decided.append(
        'agreement of parent and child quadratures to 1e-7 (different '
        'rules per branch; numerical)')
