"""C01 -- Galerkin entries equal the 4-fold heat-kernel integral.
Structure of the computation (DESIGN.md E2, E3, E4)."""
from .. import quadalg, meshrules, effects, causal, kernels, panels
from ..cas import run_tasks
from .. import problems_cert as pc

LEVEL = 'other'
META = {
    'explanation':
    'Decides that the computation is the integral it claims to be: the '
    'time-integrated kernel is the exact double time integral of the heat '
    'kernel (K1, K2 by computer algebra; four-term inclusion-exclusion with '
    'guards, R-fourterm; positive time differences, R-posdiff); the '
    'recursive panel splitter tiles the parameter rectangle exactly on '
    'every path (R-partition), every recursive call satisfies the asserted '
    'preconditions and shrinks (R-precond), every leaf rule is graded '
    'towards the point of contact / nearest approach incl. the seam '
    '(R-apex, derived from the constructor arguments, R-sym); bilform feeds '
    'each coordinate to the curve of the element that owns its interval '
    'and passes time roles correctly (R-binding, R-even); the closed-form '
    'path: fint_1..4 satisfy the differential identities that define them '
    'against the same antiderivative F (K4), inclusion-exclusion and '
    'translation of panels (R-fourterm, R-translate, R-partition), and the '
    'switch to it entails a straight piece (R-straight).  Also: the '
    'internal assertions of both splitters are entailed for laminar '
    'mesh intervals (R-assert), element intervals come from the corner '
    'vertices (R-geometry), the 2-D scheme plumbing the splitter relies on '
    '(affine maps, mirrors incl. cached slots, tensor layout, Duffy '
    'Jacobian/tiling) is certified as under C15, curves are unit speed '
    '(K9); thorough tier: the branch ladder is deterministic on each of '
    '44 interval configuration classes (R-order-types).',
    'checker_cmd': 'python3-vt -m stbem_static C01 --tier <tier>',
    'trusted_base': [
        'CPython ast', 'sympy (differentiation, cancellation, limits)',
        'linear fact domain (Fourier-Motzkin)',
        'role binding by parameter names of bilform/__integrate'
    ],
}


def run(prog, report, tier):
    if tier == 'thorough':
        panels.order_type_table(prog, report)
    panels.check_sym(prog, report)
    quadalg.check_mirrors(prog, report)
    panels.check_integrate(prog, report)
    panels.check_exact_splitter(prog, report)
    panels.check_asserts(prog, report)
    panels.check_binding(prog, report)
    panels.check_even(prog, report)
    effects.check_memo(prog, report, files={effects.SL, 'src/quadrature.py'})
    meshrules.check_element_geometry(prog, report)
    quadalg.check_affine(prog, report)
    quadalg.check_layout(prog, report)
    quadalg.check_duffy(prog, report, 'DuffyScheme2D', 'scheme2d', 2,
                        [({'symmetric': False}, False)], 6,
                        {False: 2, True: 1}, None)
    panels.check_straight(prog, report, which=('bilform', ))
    causal.run_sites(prog, report, which=('posdiff', ),
                     files={kernels.SL, kernels.SLX})
    tasks = [(kernels.cert_K1, (prog.repo, )),
             (kernels.cert_K2_fourterm, (prog.repo, )),
             (kernels.cert_fourterm_exact, (prog.repo, )),
             (pc.cert_K9, (prog.repo, ))]
    for k in ('fint_1', 'fint_2', 'fint_3', 'fint_4'):
        tasks.append((kernels.cert_K4, (prog.repo, k, tier)))
    run_tasks(report, tasks)
    report.floor('K4', 9)
    report.floor('R-translate', 3)
    report.assumptions += [
        'elements satisfy a<b (space) and t0<t1 (time), asserted in '
        'Element.__init__',
        'the log rule (12,12) the operator requests is exact for its class '
        '(C05)',
    ]
    report.not_decided += [
        'the 1e-7*sqrt(D_test*D_trial) accuracy of the log/Duffy rules on '
        'the smooth remainder, its dependence on aspect ratio and curve '
        '(numerical)',
        'numerical stability of the closed forms (cancellation)',
    ]
