"""C17 -- assembly paths, worker schedules and the disk cache (E7, E8)."""
from .. import effects, indexing, causal

LEVEL = 'other'
META = {
    'explanation':
    'All three assembly paths of bilform_matrix store '
    'bilform(trial_j, test_i) at [i, j] (R-index) and the serial/pool paths '
    'of linform_vector and the estimators call the same method with the '
    'same arguments (R-samecall); every name a worker reads through '
    '`global` is written through globals() before the pool is created, and '
    'the pool is created inside the call (R-handover: forked workers copy '
    'module state at fork); results consumed positionally come from '
    'map/imap over range(n) with chunk size >= 1 (R-ordered); the cache '
    'digest depends on the curve and on every element list, the element '
    'reprs feeding it print both intervals losslessly and curve reprs are '
    'distinct (R-cachekey); every np.load of the two cached methods sits in '
    'a try whose handler falls through to recomputation, np.save is best '
    'effort, the inline path never touches the cache (R-cacheio); the '
    'load-vector file name carries the problem identifier; reductions '
    'over a set use fsum (R-determinism); storage whose store is skipped '
    'by a causality pre-filter is created by np.zeros (R-zero-storage).',
    'checker_cmd': 'python3-vt -m stbem_static C17 --tier <tier>',
    'trusted_base': ['CPython ast', 'fork semantics of multiprocessing '
                     '(workers see the module globals as of pool creation)',
                     'float repr round-trips'],
}


def run(prog, report, tier):
    # an entry must not depend on what was integrated before: the
    # shared quadrature arrays are never written after construction
    from .. import quadalg
    quadalg.check_immutable_rules(prog, report)
    indexing.check_bilform_matrix(prog, report)
    effects.check_pools(prog, report)
    effects.check_samecall(prog, report)
    effects.check_cache(prog, report)
    effects.check_reductions(prog, report)
    effects.check_memo(prog, report, files={effects.SL, effects.IP})
    causal.run_prefilters(prog, report)
    report.assumptions += [
        'the fork start method is used (example.py sets it; default on '
        'Linux)',
        'bilform/linform are pure functions of their arguments (the lazily '
        'cached mirrored schemes are pure)',
    ]
    report.not_decided += [
        'bitwise equality as a floating-point fact; md5 collisions',
        'a corrupt file that still loads as an array of the right shape',
    ]
