"""C16 -- domain quadtree: tiling, 2:1 balance, boundary-segment targeting."""
from .. import quadtree

LEVEL = 'other'
META = {
    'explanation':
    'Rank analysis of every scalar context (isclose/float/int) in '
    'initial_mesh.py and initial_potential.py for all admitted input shapes '
    '(tuples, lists, 2x1 arrays) -- R-scalar; symbolic geometry of the '
    'four quadtree children (orientation asserted by the cell constructor, '
    'tiling, interior vertex) and of the literal root meshes; midpoint '
    'sharing through the reversed edge key, fresh vertex bookkeeping, '
    'registration of edges and parent edges (R-vreuse, R-register); shape '
    'of the balance closure through parent edges with level exactly one '
    'less (R-closure); leaf bookkeeping; normalisation of the target '
    'segment and of each cell edge, constant-axis equality, two-sided '
    'containment chain, pairwise coincidence test, descent, unique vertex '
    'lookup (R-contain); point comparisons are tolerance based with '
    'math.isclose and tolerances far below the smallest admitted segment '
    '(R-tolerance).',
    'checker_cmd': 'python3-vt -m stbem_static C16 --tier <tier>',
    'trusted_base': ['CPython ast', 'NumPy >= 2 scalar-conversion rule '
                     '(only 0-dimensional arrays convert to Python '
                     'scalars)'],
}


def run(prog, report, tier):
    from .. import quadtree as _qt
    from .. import effects as _ef
    _qt.check_diam(prog, report)
    _ef.check_memo(prog, report, files={'src/initial_mesh.py'})
    _ef.check_global_memos(prog, report, {'src/initial_mesh.py'})
    quadtree.check_scalar(prog, report, files=(quadtree.IM, ))
    quadtree.check_quad_children(prog, report)
    quadtree.check_quad_bisect(prog, report)
    quadtree.check_quad_closure(prog, report)
    quadtree.check_bdr_search(prog, report)
    quadtree.check_quad_init(prog, report)
    quadtree.check_tolerances(prog, report)
    report.floor('R-scalar', 8)
    report.floor('R-register', 4)
    report.not_decided += [
        'termination and uniqueness of the returned leaf for all dyadic '
        'segments (depends on the numeric tolerances eps / isclose)',
        'the tiling/balance statement for all histories: the checker '
        'decides the inductive step obligations',
    ]
