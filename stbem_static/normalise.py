"""Normalisation aids (not rules).

Rules are written against the shapes the code has on the reference copy under
/verif/reference.  A behaviour-preserving refactoring must not make a rule
report a violation, so before the rules run, today's syntax tree is moved
towards the reference by rewrites that preserve behaviour on their own:

  N0  annotations and docstrings are dropped (both have no run-time effect
      in this code base: nothing reads __doc__ / __annotations__);
  N1  a function that vanished from a scope while a new, structurally similar
      one appeared in the same scope is a *rename*: definition and all
      references in the module are renamed back;
  N2  a *new* helper (a function the reference does not have and which is
      not a rename) is inlined at its call sites when that is possible
      without changing behaviour (expression helpers by substitution,
      statement helpers by splicing the body, early returns turned into
      if/else), and then removed.

Nothing here decides a property; every rewrite is recorded in the evidence
(`normalised`) so that a reader can see on which tree the rules ran.
"""
import ast
import copy
import difflib


# --------------------------------------------------------------------------
# N0
# --------------------------------------------------------------------------
class _Strip(ast.NodeTransformer):
    def _body(self, node):
        b = node.body
        if b and isinstance(b[0], ast.Expr) and isinstance(
                b[0].value, ast.Constant) and isinstance(
                    b[0].value.value, str) and len(b) > 1:
            node.body = b[1:]

    def visit_FunctionDef(self, node):
        self.generic_visit(node)
        self._body(node)
        node.returns = None
        a = node.args
        for x in a.posonlyargs + a.args + a.kwonlyargs:
            x.annotation = None
        if a.vararg:
            a.vararg.annotation = None
        if a.kwarg:
            a.kwarg.annotation = None
        return node

    visit_AsyncFunctionDef = visit_FunctionDef

    def visit_ClassDef(self, node):
        self.generic_visit(node)
        self._body(node)
        return node

    def visit_AnnAssign(self, node):
        self.generic_visit(node)
        if node.value is None:
            return ast.copy_location(ast.Pass(), node)
        return ast.copy_location(
            ast.Assign(targets=[node.target], value=node.value), node)


def strip(tree):
    _Strip().visit(tree)
    return tree


# --------------------------------------------------------------------------
# scopes
# --------------------------------------------------------------------------
def scopes(tree):
    """{scope name ('' = module, 'Cls'): (statement list, {fname: node})}"""
    out = {'': (tree.body, {})}
    for st in tree.body:
        if isinstance(st, (ast.FunctionDef, ast.AsyncFunctionDef)):
            out[''][1][st.name] = st
        elif isinstance(st, ast.ClassDef):
            d = {}
            for m in st.body:
                if isinstance(m, (ast.FunctionDef, ast.AsyncFunctionDef)):
                    d[m.name] = m
            out[st.name] = (st.body, d)
    return out


def shape_tokens(fn):
    """Identifier-free token stream of a function (node kinds, operators,
    constants, attribute names)."""
    toks = []
    for n in ast.walk(fn):
        if n is fn:
            continue
        t = type(n).__name__
        if isinstance(n, ast.Constant):
            toks.append('C:%r' % (n.value, ))
        elif isinstance(n, ast.Attribute):
            toks.append('A:' + n.attr)
        elif isinstance(n, (ast.Load, ast.Store, ast.Del, ast.arguments)):
            continue
        elif isinstance(n, (ast.Name, ast.arg)):
            toks.append('N')
        else:
            toks.append(t)
    return toks


def similarity(a, b):
    return difflib.SequenceMatcher(None, shape_tokens(a), shape_tokens(b),
                                   autojunk=False).ratio()


# --------------------------------------------------------------------------
# N1 renamed functions
# --------------------------------------------------------------------------
def find_renames(ref_tree, cur_tree, threshold=0.8):
    """{scope: {new name: old name}}"""
    rs, cs = scopes(ref_tree), scopes(cur_tree)
    out = {}
    for sc, (_, rf) in rs.items():
        if sc not in cs:
            continue
        cf = cs[sc][1]
        missing = [n for n in rf if n not in cf]
        new = [n for n in cf if n not in rf]
        if not missing or not new:
            continue
        scores = []
        for m in missing:
            for n in new:
                scores.append((similarity(rf[m], cf[n]), m, n))
        scores.sort(reverse=True)
        used_m, used_n = set(), set()
        for s, m, n in scores:
            if s < threshold or m in used_m or n in used_n:
                continue
            # unambiguous: no other free candidate nearly as good
            rivals = [s2 for s2, m2, n2 in scores
                      if (m2 == m) != (n2 == n) and m2 not in used_m
                      and n2 not in used_n and s2 > s - 0.05]
            if rivals:
                continue
            used_m.add(m)
            used_n.add(n)
            out.setdefault(sc, {})[n] = m
    return out


class _RenameFuncs(ast.NodeTransformer):
    """new -> old for definitions in `scope` and for every reference in the
    module: attribute names (obj.new, also the mangled _Cls__new), plain
    names (module functions), and string keys of globals()['new']."""
    def __init__(self, scope, mapping, tree):
        self.scope = scope
        self.m = dict(mapping)
        if scope:
            for new, old in mapping.items():
                if new.startswith('__') and not new.endswith('__'):
                    self.m['_%s%s' % (scope.lstrip('_'), new)] = \
                        '_%s%s' % (scope.lstrip('_'), old)

    def visit_Attribute(self, n):
        self.generic_visit(n)
        if n.attr in self.m:
            n.attr = self.m[n.attr]
        return n

    def visit_Name(self, n):
        if not self.scope and n.id in self.m:
            n.id = self.m[n.id]
        return n


def apply_renames(tree, renames):
    for sc, mp in renames.items():
        body, funcs = scopes(tree)[sc]
        for new, old in mp.items():
            funcs[new].name = old
        _RenameFuncs(sc, mp, tree).visit(tree)


# --------------------------------------------------------------------------
# N1b renamed module globals (the hand-over variables of the pool workers)
# --------------------------------------------------------------------------
def _global_decls(tree):
    """{function name: [names in its global statements, in order]}"""
    out = {}
    for fn in ast.walk(tree):
        if isinstance(fn, (ast.FunctionDef, ast.AsyncFunctionDef)):
            names = []
            for n in ast.walk(fn):
                if isinstance(n, ast.Global):
                    names.extend(n.names)
            if names:
                out[fn.name] = names
    return out


def rename_globals(ref_tree, cur_tree):
    """A consistent renaming of module globals is behaviour preserving as
    long as it is applied to every occurrence and clashes with nothing;
    the pairing is read off the global statements of same-named functions
    (position by position)."""
    rd, cd = _global_decls(ref_tree), _global_decls(cur_tree)
    mapping = {}
    for fname, rn in rd.items():
        cn = cd.get(fname)
        if cn is None or len(cn) != len(rn):
            continue
        for r, c in zip(rn, cn):
            if r != c:
                if mapping.setdefault(c, r) != r:
                    return {}
    if not mapping or len(set(mapping.values())) != len(mapping):
        return {}
    allnames = {n.id for n in ast.walk(cur_tree) if isinstance(n, ast.Name)}
    allstr = {n.value for n in ast.walk(cur_tree)
              if isinstance(n, ast.Constant) and isinstance(n.value, str)}
    for c, r in mapping.items():
        if r in allnames or r in allstr:
            return {}   # the old name is still in use for something
    for n in ast.walk(cur_tree):
        if isinstance(n, ast.Name) and n.id in mapping:
            n.id = mapping[n.id]
        elif isinstance(n, ast.Global):
            n.names = [mapping.get(x, x) for x in n.names]
        elif isinstance(n, ast.Subscript) and isinstance(
                n.value, ast.Call) and isinstance(
                    n.value.func, ast.Name) and \
                n.value.func.id == 'globals' and isinstance(
                    n.slice, ast.Constant) and n.slice.value in mapping:
            n.slice = ast.Constant(value=mapping[n.slice.value])
    return mapping


# --------------------------------------------------------------------------
# N2 inlining of new helpers
# --------------------------------------------------------------------------
class NotInlinable(Exception):
    pass


def _terminates(stmts):
    """Does the statement list end in return/raise on every path?"""
    if not stmts:
        return False
    last = stmts[-1]
    if isinstance(last, (ast.Return, ast.Raise)):
        return True
    if isinstance(last, ast.If):
        return _terminates(last.body) and _terminates(last.orelse)
    return False


def _has_return(stmts):
    def walk(n):
        if isinstance(n, ast.Return):
            return True
        if isinstance(n, (ast.FunctionDef, ast.AsyncFunctionDef,
                          ast.Lambda)):
            return False
        return any(walk(c) for c in ast.iter_child_nodes(n))
    return any(walk(st) for st in stmts)


def tail_form(stmts, emit):
    """Rewrite a body so that no `return` is left: `return e` becomes
    emit(e) (a list of statements) and the statements after an `if` whose
    body returns move into its else branch.  Returns inside loops / try are
    not supported."""
    out = []
    for i, st in enumerate(stmts):
        if isinstance(st, ast.Return):
            out.extend(emit(st.value))
            return out
        if isinstance(st, ast.If) and (_has_return(st.body)
                                       or _has_return(st.orelse)):
            rest = stmts[i + 1:]
            body = tail_form(st.body + ([] if _terminates(st.body)
                                        else copy.deepcopy(rest)), emit)
            orelse = tail_form(st.orelse + ([] if _terminates(st.orelse)
                                            else copy.deepcopy(rest)), emit)
            new = ast.If(test=st.test, body=body or [ast.Pass()],
                         orelse=orelse)
            out.append(ast.copy_location(new, st))
            return out
        if isinstance(st, (ast.For, ast.While)) and not st.orelse and \
                _has_return(st.body):
            # search loop: `return e` leaves the loop with the value, the
            # statements after the loop run only when it was exhausted
            new = copy.copy(st)
            new.body = _loop_returns(st.body, emit)
            new.orelse = tail_form(stmts[i + 1:], emit)
            out.append(new)
            return out
        if _has_return([st]):
            raise NotInlinable('return inside a loop/try/with')
        out.append(st)
    out.extend(emit(None))
    return out


def _loop_returns(stmts, emit):
    """body of a search loop: `return e` -> emit(e); break.  Only plain
    statements and ifs may enclose the returns, and the loop must not
    break on its own (its else clause takes the code after the loop)."""
    out = []
    for st in stmts:
        if isinstance(st, ast.Return):
            em = emit(st.value)
            out.extend(em)
            if not (em and isinstance(em[-1], ast.Return)):
                out.append(ast.Break())
            return out
        if isinstance(st, ast.Break):
            raise NotInlinable('loop with its own break')
        if isinstance(st, ast.If):
            new = ast.If(test=st.test,
                         body=_loop_returns(st.body, emit) or [ast.Pass()],
                         orelse=_loop_returns(st.orelse, emit))
            out.append(ast.copy_location(new, st))
            continue
        if _has_return([st]) or any(isinstance(n, ast.Break)
                                    for n in ast.walk(st)
                                    ) and not isinstance(
                                        st, (ast.For, ast.While)):
            raise NotInlinable('return inside a nested loop/try/with')
        if isinstance(st, (ast.Try, ast.With)) and any(
                isinstance(n, ast.Break) for n in ast.walk(st)):
            raise NotInlinable('break inside try/with')
        out.append(st)
    return out


def _names_bound(fn):
    out = set()
    for n in ast.walk(fn):
        if isinstance(n, ast.Name) and isinstance(n.ctx, (ast.Store,
                                                          ast.Del)):
            out.add(n.id)
        elif isinstance(n, ast.arg):
            out.add(n.arg)
    return out


def _names_all(node):
    return {n.id for n in ast.walk(node) if isinstance(n, ast.Name)} | \
        {n.arg for n in ast.walk(node) if isinstance(n, ast.arg)}


class _Subst(ast.NodeTransformer):
    def __init__(self, env):
        self.env = env
        self.shadow = []

    def visit_Name(self, n):
        if any(n.id in s for s in self.shadow):
            return n
        if n.id in self.env and isinstance(n.ctx, ast.Load):
            return copy.deepcopy(self.env[n.id])
        if n.id in self.env and isinstance(self.env[n.id], ast.Name):
            n.id = self.env[n.id].id
        return n

    def _scoped(self, n, names):
        self.shadow.append(names)
        self.generic_visit(n)
        self.shadow.pop()
        return n

    def visit_FunctionDef(self, n):
        a = n.args
        names = {x.arg for x in a.posonlyargs + a.args + a.kwonlyargs}
        if a.vararg:
            names.add(a.vararg.arg)
        if a.kwarg:
            names.add(a.kwarg.arg)
        if n.name in self.env and isinstance(self.env[n.name], ast.Name):
            n.name = self.env[n.name].id
        return self._scoped(n, names)

    def visit_Lambda(self, n):
        a = n.args
        return self._scoped(n, {x.arg for x in a.posonlyargs + a.args +
                                a.kwonlyargs})

    def _comp(self, n):
        names = set()
        for g in n.generators:
            names |= {m.id for m in ast.walk(g.target)
                      if isinstance(m, ast.Name)}
        return self._scoped(n, names)

    visit_ListComp = visit_SetComp = visit_GeneratorExp = visit_DictComp = \
        _comp

    def visit_Call(self, n):
        self.generic_visit(n)
        # f(*space) with space := (h, k)  ->  f(h, k)
        args = []
        for a in n.args:
            if isinstance(a, ast.Starred) and isinstance(a.value,
                                                         (ast.Tuple,
                                                          ast.List)):
                args.extend(a.value.elts)
            else:
                args.append(a)
        n.args = args
        return n

    def visit_Subscript(self, n):
        self.generic_visit(n)
        # (h, k)[0] -> h
        if isinstance(n.value, (ast.Tuple, ast.List)) and isinstance(
                n.slice, ast.Constant) and isinstance(n.slice.value, int) \
                and -len(n.value.elts) <= n.slice.value < len(n.value.elts):
            return n.value.elts[n.slice.value]
        return n


def _simple_arg(e):
    return isinstance(e, (ast.Name, ast.Constant)) or (
        isinstance(e, ast.Attribute) and _simple_arg(e.value)) or (
            isinstance(e, ast.UnaryOp) and _simple_arg(e.operand)) or (
                isinstance(e, (ast.Tuple, ast.List)) and all(
                    _simple_arg(x) for x in e.elts)) or (
                        isinstance(e, ast.Subscript) and _simple_arg(
                            e.value) and _simple_arg(e.slice)) or (
                                isinstance(e, ast.BinOp) and _simple_arg(
                                    e.left) and _simple_arg(e.right))


class Helper:
    def __init__(self, scope, node):
        self.scope = scope
        self.node = node
        self.name = node.name
        self.is_method = bool(scope) and not any(
            isinstance(d, ast.Name) and d.id == 'staticmethod'
            for d in node.decorator_list)
        self.static = bool(scope) and not self.is_method
        for d in node.decorator_list:
            if not (isinstance(d, ast.Name) and d.id == 'staticmethod'):
                raise NotInlinable('decorated')
        a = node.args
        if a.kwonlyargs or a.kwarg or a.posonlyargs:
            raise NotInlinable('signature')
        for n in ast.walk(node):
            if isinstance(n, (ast.Yield, ast.YieldFrom, ast.Await,
                              ast.Global, ast.Nonlocal)):
                raise NotInlinable('generator/global')
            if n is not node and isinstance(n, ast.AsyncFunctionDef):
                raise NotInlinable('nested async def')
            if isinstance(n, ast.Call) and self._is_self_call(n):
                raise NotInlinable('recursive')
        self.params = [x.arg for x in a.args]
        self.defaults = dict(zip(self.params[len(self.params) -
                                             len(a.defaults):], a.defaults))
        self.vararg = a.vararg.arg if a.vararg else None
        self.assigned = set()

        def own(n):
            for c in ast.iter_child_nodes(n):
                if isinstance(c, (ast.FunctionDef, ast.Lambda)):
                    if isinstance(c, ast.FunctionDef):
                        self.assigned.add(c.name)
                    continue
                if isinstance(c, ast.Name) and isinstance(
                        c.ctx, (ast.Store, ast.Del)):
                    self.assigned.add(c.id)
                own(c)
        own(node)

    def _is_self_call(self, call):
        return self.matches(call)

    def matches(self, call):
        f = call.func
        if self.scope:
            return isinstance(f, ast.Attribute) and f.attr in (
                self.name, '_%s%s' % (self.scope.lstrip('_'), self.name))
        return isinstance(f, ast.Name) and f.id == self.name

    def bind(self, call, caller_names, single_use=None):
        """-> (env for substitution, prologue statements, local renames);
        single_use: {param: number of occurrences} of an expression helper
        -- an argument used exactly once may be substituted as it is"""
        args = list(call.args)
        if any(isinstance(a, ast.Starred) for a in args):
            raise NotInlinable('starred call')
        params = list(self.params)
        env, pro = {}, []
        if self.is_method:
            recv = call.func.value
            if not (isinstance(recv, ast.Name) and recv.id in ('self',
                                                               'cls')):
                if not _simple_arg(recv):
                    raise NotInlinable('receiver')
            env[params[0]] = recv
            params = params[1:]
        kw = {k.arg: k.value for k in call.keywords}
        if None in kw:
            raise NotInlinable('**kwargs')
        actual = {}
        for i, p in enumerate(params):
            if i < len(args):
                actual[p] = args[i]
            elif p in kw:
                actual[p] = kw.pop(p)
            elif p in self.defaults:
                actual[p] = self.defaults[p]
            else:
                raise NotInlinable('missing argument')
        if kw:
            raise NotInlinable('unknown keyword')
        extra = args[len(params):]
        if extra and not self.vararg:
            raise NotInlinable('too many arguments')
        if self.vararg:
            actual[self.vararg] = ast.Tuple(elts=extra, ctx=ast.Load())
        ren = {}
        for loc in sorted(self.assigned - set(actual) - set(env)):
            new = loc
            k = 0
            while new in caller_names:
                k += 1
                new = '%s_%s%s' % (loc, self.name.strip('_'),
                                   k if k > 1 else '')
            if new != loc:
                ren[loc] = ast.Name(id=new, ctx=ast.Load())
            caller_names.add(new)
        for p, a in actual.items():
            if single_use is not None and p not in self.assigned and \
                    single_use.get(p, 0) <= 1:
                env[p] = a
                continue
            if p in self.assigned or not _simple_arg(a):
                # evaluated once, at the call, like the real argument
                new = p
                k = 0
                while new in caller_names:
                    k += 1
                    new = '%s_%s%s' % (p, self.name.strip('_'),
                                       k if k > 1 else '')
                caller_names.add(new)
                pro.append(ast.Assign(
                    targets=[ast.Name(id=new, ctx=ast.Store())], value=a))
                if new != p:
                    ren[p] = ast.Name(id=new, ctx=ast.Load())
            else:
                env[p] = a
        env.update(ren)
        return env, pro

    def as_expression(self):
        """lambda equivalent for helpers that are one expression"""
        from .absint import simple_function_as_lambda
        a = self.node.args
        if a.defaults or a.vararg:
            # simple_function_as_lambda refuses; handle via body check
            pass
        env = {}
        ret = None
        for st in self.node.body:
            if isinstance(st, ast.Expr) and isinstance(st.value,
                                                       ast.Constant):
                continue
            if isinstance(st, ast.Assign) and len(st.targets) == 1 and \
                    isinstance(st.targets[0], ast.Name) and ret is None:
                v = _Subst(env).visit(copy.deepcopy(st.value))
                env[st.targets[0].id] = v
                continue
            if isinstance(st, ast.Return) and st.value is not None and \
                    ret is None:
                ret = _Subst(env).visit(copy.deepcopy(st.value))
                continue
            return None
        return ret


def _fix(node, ref):
    for n in ast.walk(node):
        if not hasattr(n, 'lineno') or True:
            n.lineno = getattr(ref, 'lineno', 1)
            n.col_offset = getattr(ref, 'col_offset', 0)
            n.end_lineno = getattr(ref, 'end_lineno', n.lineno)
            n.end_col_offset = getattr(ref, 'end_col_offset', 0)
    return node


class _Inliner:
    def __init__(self, helper):
        self.h = helper
        self.count = 0

    def run(self, fn):
        names = _names_all(fn)
        fn.body = self.block(fn.body, names)

    def block(self, stmts, names):
        out = []
        for st in stmts:
            out.extend(self.stmt(st, names))
        return out

    def stmt(self, st, names):
        h = self.h
        call = None
        kind = None
        if isinstance(st, ast.Expr) and isinstance(st.value, ast.Call) and \
                h.matches(st.value):
            call, kind = st.value, 'expr'
        elif isinstance(st, ast.Assign) and isinstance(
                st.value, ast.Call) and h.matches(st.value):
            call, kind = st.value, 'assign'
        elif isinstance(st, ast.Return) and isinstance(
                st.value, ast.Call) and h.matches(st.value):
            call, kind = st.value, 'return'
        if call is not None and h.as_expression() is None and not any(
                isinstance(n, ast.Call) and h.matches(n)
                for a in list(call.args) + [k.value for k in call.keywords]
                for n in ast.walk(a)):
            return self.splice(st, call, kind, names)
        # one call below the top of a simple statement: evaluate it first
        if h.as_expression() is None and isinstance(
                st, (ast.Expr, ast.Assign, ast.AugAssign, ast.Return)) and \
                st.value is not None:
            sites = [n for n in ast.walk(st.value)
                     if isinstance(n, ast.Call) and h.matches(n)]
            if len(sites) == 1 and not any(
                    isinstance(n, (ast.Lambda, ast.ListComp, ast.SetComp,
                                   ast.DictComp, ast.GeneratorExp,
                                   ast.IfExp, ast.BoolOp))
                    and any(m is sites[0] for m in ast.walk(n))
                    for n in ast.walk(st.value)):
                tmp = '_ret_%s' % h.name.strip('_')
                k = 0
                while tmp in names:
                    k += 1
                    tmp = '_ret_%s%d' % (h.name.strip('_'), k)
                names.add(tmp)
                first = ast.copy_location(ast.Assign(
                    targets=[ast.Name(id=tmp, ctx=ast.Store())],
                    value=sites[0]), st)

                class R(ast.NodeTransformer):
                    def visit_Call(self, n):
                        if n is sites[0]:
                            return ast.Name(id=tmp, ctx=ast.Load())
                        self.generic_visit(n)
                        return n
                st.value = R().visit(st.value)
                return self.splice(first, first.value, 'assign',
                                   names) + [st]
        # nested blocks
        for f in ('body', 'orelse', 'finalbody'):
            v = getattr(st, f, None)
            if isinstance(v, list) and v and isinstance(v[0], ast.stmt):
                setattr(st, f, self.block(v, names))
        if isinstance(st, ast.Try):
            for hd in st.handlers:
                hd.body = self.block(hd.body, names)
        # expression positions
        return [self.expr_sites(st, names)]

    def splice(self, st, call, kind, names):
        h = self.h
        env, pro = h.bind(call, names)
        body = copy.deepcopy(h.node.body)

        def emit(value):
            if kind == 'expr':
                if value is None or _simple_arg(value):
                    return []
                return [ast.Expr(value=value)]
            v = value if value is not None else ast.Constant(value=None)
            if kind == 'assign':
                return [ast.Assign(targets=copy.deepcopy(st.targets),
                                   value=v)]
            return [ast.Return(value=v)]

        body = tail_form(body, emit)
        mod = ast.Module(body=body, type_ignores=[])
        _Subst(env).visit(mod)
        self.count += 1
        res = pro + mod.body
        for r in res:
            _fix(r, st)
        return res

    def expr_sites(self, st, names):
        h = self.h
        expr = h.as_expression()
        sites = [n for n in ast.walk(st)
                 if isinstance(n, ast.Call) and h.matches(n)]
        if not sites:
            return st
        if expr is None:
            raise NotInlinable('statement helper called inside an '
                               'expression')
        outer = self

        class T(ast.NodeTransformer):
            def visit_Call(self, n):
                self.generic_visit(n)
                if h.matches(n):
                    uses = {}
                    for m_ in ast.walk(expr):
                        if isinstance(m_, ast.Name):
                            uses[m_.id] = uses.get(m_.id, 0) + 1
                    env, pro = h.bind(n, set(names), single_use=uses)
                    if pro:
                        raise NotInlinable('non-simple argument to an '
                                           'expression helper')
                    outer.count += 1
                    return _fix(_Subst(env).visit(copy.deepcopy(expr)), n)
                return n

        return T().visit(st)


def inline_new_helpers(ref_tree, cur_tree, renames):
    """Returns {scope.name: number of call sites inlined}; helpers that
    cannot be inlined are left alone."""
    rs, cs = scopes(ref_tree), scopes(cur_tree)
    done = {}
    changed = True
    rounds = 0
    while changed and rounds < 4:
        changed = False
        rounds += 1
        cs = scopes(cur_tree)
        for sc, (body, cf) in cs.items():
            rf = rs.get(sc, (None, {}))[1]
            if sc and sc not in rs:
                continue  # a new class is not a helper
            for name, node in list(cf.items()):
                if name in rf or (name.startswith('__')
                                  and name.endswith('__')):
                    continue
                trial = copy.deepcopy(cur_tree)
                try:
                    n = _inline_one(trial, sc, name)
                except NotInlinable:
                    continue
                if n == 0:
                    continue
                # commit
                cur_tree.body = trial.body
                done['%s.%s' % (sc, name) if sc else name] = n
                changed = True
                break
            if changed:
                break
    return done


def _inline_one(tree, sc, name):
    body, funcs = scopes(tree)[sc]
    node = funcs[name]
    h = Helper(sc, node)
    inl = _Inliner(h)
    # module functions can be called from anywhere in the module; methods
    # from their class (and through instances from elsewhere)
    for st in ast.walk(tree):
        if isinstance(st, (ast.FunctionDef, ast.AsyncFunctionDef)) and \
                st is not node:
            inl.run(st)
    for st in tree.body:
        if isinstance(st, ast.If):
            st.body = inl.block(st.body, _names_all(st))
    # any reference left (passed as a value, called in an unsupported
    # position) keeps the helper alive
    left = 0
    for n in ast.walk(tree):
        if n is node:
            continue
        if isinstance(n, ast.Attribute) and sc and n.attr in (
                name, '_%s%s' % (sc.lstrip('_'), name)):
            left += 1
        if isinstance(n, ast.Name) and not sc and n.id == name:
            left += 1
        if isinstance(n, ast.Constant) and n.value == name:
            left += 1
    if left:
        raise NotInlinable('helper still referenced')
    body.remove(node)
    return inl.count


# --------------------------------------------------------------------------
# loops over a literal tuple, written where the reference repeats a statement
# --------------------------------------------------------------------------
_PURE = (ast.Name, ast.Constant, ast.Compare, ast.BinOp, ast.UnaryOp,
         ast.BoolOp, ast.Load, ast.operator, ast.unaryop, ast.cmpop,
         ast.boolop)


def _pure_names(e):
    """names of an expression built from names, constants and operators
    only (None otherwise): safe to evaluate again, at another place"""
    if not all(isinstance(n, _PURE) for n in ast.walk(e)):
        return None
    return {n.id for n in ast.walk(e) if isinstance(n, ast.Name)}


def _unroll_one(fn, loop):
    if loop.orelse or not isinstance(loop.iter, (ast.Tuple, ast.List)) or \
            not 1 <= len(loop.iter.elts) <= 8:
        return None
    tg = loop.target
    if isinstance(tg, ast.Name):
        names = [tg.id]
    elif isinstance(tg, ast.Tuple) and all(
            isinstance(e, ast.Name) for e in tg.elts):
        names = [e.id for e in tg.elts]
    else:
        return None
    for st in loop.body:
        for n in ast.walk(st):
            if isinstance(n, (ast.Break, ast.Continue, ast.FunctionDef,
                              ast.Lambda, ast.Return, ast.Yield)):
                return None
    stored = {n.id for st in loop.body for n in ast.walk(st)
              if isinstance(n, ast.Name) and isinstance(
                  n.ctx, (ast.Store, ast.Del))}
    if stored & set(names):
        return None
    rows = []
    for el in loop.iter.elts:
        if isinstance(tg, ast.Name):
            vals = [el]
        elif isinstance(el, (ast.Tuple, ast.List)) and len(el.elts) == len(
                names):
            vals = list(el.elts)
        else:
            return None
        for v in vals:
            used = _pure_names(v)
            if used is None or used & (stored | set(names)):
                return None
        rows.append(dict(zip(names, vals)))
    # the loop variables are dead after the loop: every other read of them
    # sits in a loop that binds them again
    inside = {id(n) for st in loop.body for n in ast.walk(st)}

    def rebinding_loops(node, bound, out):
        for c in ast.iter_child_nodes(node):
            b = bound
            if isinstance(c, (ast.For, ast.comprehension)):
                b = bound | {n.id for n in ast.walk(c.target)
                             if isinstance(n, ast.Name)}
            if isinstance(c, ast.Name) and isinstance(c.ctx, ast.Load) \
                    and c.id in names and id(c) not in inside and \
                    c.id not in bound:
                out.append(c)
            rebinding_loops(c, b, out)
    leaks = []
    rebinding_loops(fn, frozenset(), leaks)
    if leaks:
        return None
    out = []
    for env in rows:
        for st in loop.body:
            new = copy.deepcopy(st)
            mod = ast.Module(body=[new], type_ignores=[])
            _Subst({k: v for k, v in env.items()}).visit(mod)
            out.extend(_fix(x, loop) for x in mod.body)
    return out


def unroll_literal_loops(ref_tree, cur_tree):
    """In functions that differ from the reference, a `for` over a literal
    tuple of pure expressions that the reference function does not have is
    replaced by its iterations.  Returns {qualname: loops unrolled}."""
    rs, cs = scopes(ref_tree), scopes(cur_tree)
    done = {}
    for sc, (body, cf) in cs.items():
        rf = rs.get(sc, (None, {}))[1]
        for name, fn in cf.items():
            ref = rf.get(name)
            if ref is None or ast.dump(ref) == ast.dump(fn):
                continue
            have = {ast.dump(n) for n in ast.walk(ref)
                    if isinstance(n, ast.For)}
            changed = True
            count = 0
            while changed and count < 12:
                changed = False
                for parent in ast.walk(fn):
                    for f in ('body', 'orelse', 'finalbody'):
                        blk = getattr(parent, f, None)
                        if not (isinstance(blk, list) and blk and isinstance(
                                blk[0], ast.stmt)):
                            continue
                        for k, st in enumerate(blk):
                            if isinstance(st, ast.For) and ast.dump(
                                    st) not in have:
                                rep = _unroll_one(fn, st)
                                if rep is not None:
                                    blk[k:k + 1] = rep or [ast.Pass()]
                                    changed = True
                                    count += 1
                                    break
                        if changed:
                            break
                    if changed:
                        break
            if count:
                done['%s.%s' % (sc, name) if sc else name] = count
    return done


# --------------------------------------------------------------------------
def normalise(ref_tree, cur_tree):
    """In place on cur_tree (and strips ref_tree).  Returns a record."""
    rec = {}
    strip(ref_tree)
    strip(cur_tree)
    ren = find_renames(ref_tree, cur_tree)
    if ren:
        apply_renames(cur_tree, ren)
        rec['renamed_functions'] = {
            ('%s.%s' % (sc, n) if sc else n): o
            for sc, mp in ren.items() for n, o in mp.items()}
    gl = rename_globals(ref_tree, cur_tree)
    if gl:
        rec['renamed_globals'] = gl
    inl = inline_new_helpers(ref_tree, cur_tree, ren)
    if inl:
        rec['inlined_helpers'] = inl
    unr = unroll_literal_loops(ref_tree, cur_tree)
    if unr:
        rec['unrolled_literal_loops'] = unr
    ast.fix_missing_locations(cur_tree)
    return rec
