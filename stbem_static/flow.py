"""Structured control flow helpers (the repository uses if/elif/else, for,
while, return, continue, break, assert, raise, with, try around cache I/O)."""
import ast


def is_abort(st):
    """raise, or assert False / assert (False)."""
    if isinstance(st, ast.Raise):
        return True
    if isinstance(st, ast.Assert):
        t = st.test
        return isinstance(t, ast.Constant) and not t.value
    return False


def falls_through(body):
    """Can control reach the end of this statement list (fall off)?  Loops
    are assumed to be able to finish; `while True` without break cannot."""
    for st in body:
        if isinstance(st, ast.Return) or is_abort(st):
            return False
        if isinstance(st, (ast.Continue, ast.Break)):
            return False
        if isinstance(st, ast.If):
            if not falls_through(st.body) and st.orelse and \
                    not falls_through(st.orelse):
                return False
        elif isinstance(st, ast.While):
            t = st.test
            if isinstance(t, ast.Constant) and t.value and not any(
                    isinstance(n, ast.Break) for n in ast.walk(st)):
                return False
        elif isinstance(st, ast.With):
            if not falls_through(st.body):
                return False
        elif isinstance(st, ast.Try):
            if not falls_through(st.body) and all(
                    not falls_through(h.body) for h in st.handlers):
                return False
    return True


def always_exits(body):
    """Every path through body leaves the enclosing block (return, raise,
    continue, break)."""
    return not falls_through(body)


def own_nodes(fnode):
    """ast.walk restricted to the function's own code (no nested defs,
    lambdas kept)."""
    stack = list(fnode.body)
    while stack:
        n = stack.pop()
        yield n
        for c in ast.iter_child_nodes(n):
            if isinstance(c, (ast.FunctionDef, ast.AsyncFunctionDef,
                              ast.ClassDef)):
                continue
            stack.append(c)


def has_value_return(fnode):
    for n in own_nodes(fnode):
        if isinstance(n, ast.Return) and n.value is not None and not (
                isinstance(n.value, ast.Constant) and n.value.value is None):
            return True
    return False
