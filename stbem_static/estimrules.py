"""C09 -- Sobolev and weighted-L2 indicators: exponent algebra, patch
selection (R-patch), symmetric accumulation."""
import ast

import sympy as sp

from .absint import (Walker, State, text, to_lin, Lin, cond_dnf, fact_key,
                     entails, feasible)
from .core import AnalysisError
from .lift import Lifter, same_any

EE = 'src/error_estimator.py'
P = 'src/parametrization.py'


def check_weighted_l2(prog, report):
    fi = prog.func(EE, 'ErrorEstimator.weighted_l2')
    fn = fi.node
    a = {text(n.targets[0]): n.value for n in ast.walk(fn)
         if isinstance(n, ast.Assign) and len(n.targets) == 1}
    ret = [n for n in ast.walk(fn) if isinstance(n, ast.Return)]
    if len(ret) != 1 or not isinstance(ret[0].value, ast.Tuple) or len(
            ret[0].value.elts) != 2:
        raise AnalysisError('%s: a pair is expected' % fi.where())
    ht, hx, rho = sp.symbols('h_t h_x rho', positive=True)
    e = fi.params[1]
    names = {e + '.h_t': ht, e + '.h_x': hx, 'res_l2': rho}
    L = Lifter(fi.module, name_hook=lambda t_: names.get(t_))
    c0, c1 = (L.lift(x) for x in ret[0].value.elts)
    l2 = ht * hx * rho  # int_elem r^2
    ok0 = sp.simplify(c0 / l2 - ht**sp.Rational(-1, 2)) == 0
    ok1 = sp.simplify(c1 / l2 - 1 / hx) == 0
    report.check(ok0, 'R-weights', 'weighted_l2 time component',
                 fi.where(ret[0]),
                 'first component = h_t^(-1/2) * (h_t h_x rho), rho the '
                 'unit-square quadrature of r^2; found %s' % c0,
                 construct='weighted_l2: time weight')
    report.check(ok1, 'R-weights', 'weighted_l2 space component',
                 fi.where(ret[0]),
                 'second component = h_x^(-1) * (h_t h_x rho); found %s' %
                 c1, construct='weighted_l2: space weight')
    # rho: squared residual at the mapped tensor points, dotted with weights
    r = a.get('res_l2')
    okr = r is not None and text(r).replace(' ', '') in (
        'np.dot(res_sqr,self.gauss_2d.weights)',
        'np.dot(self.gauss_2d.weights,res_sqr)')
    rs = a.get('res_sqr')
    oks = False
    if rs is not None:
        from .absint import inlined
        Rs = sp.Symbol('R', real=True)

        def hook(L_, node):
            if text(node.func) == 'residual' and [
                    text(x) for x in node.args] == [
                        't', 'x_hat', e + '.gamma_space']:
                return Rs
            return None
        try:
            val = Lifter(fi.module, call_hook=hook).lift(
                inlined(rs, fn, keep=('t', 'x_hat')))
            oks = sp.expand(val - Rs**2) == 0
        except AnalysisError:
            oks = False
    tt = a.get('t')
    xx = a.get('x_hat')
    okp = tt is not None and xx is not None and text(tt).replace(
        ' ', '') == 'np.array(t_a+%s.h_t*self.gauss_2d.points[0])' % e and \
        text(xx).replace(' ', '') == \
        'np.array(x_a+%s.h_x*self.gauss_2d.points[1])' % e and text(
            a.get('t_a')) == e + '.time_interval[0]' and text(
                a.get('x_a')) == e + '.space_interval[0]'
    report.check(okr and oks and okp, 'R-weights', 'weighted_l2 quadrature',
                 fi.where(),
                 'rho = sum_i w_i r(t_i, x_i)^2 with t = t_a + h_t p0, x = '
                 'x_a + h_x p1 on the element\'s own piece (dot=%s square=%s '
                 'points=%s)' % (okr, oks, okp),
                 construct='weighted_l2: quadrature of r^2')
    report.floor('R-weights', 3)


# --------------------------------------------------------------------------
# R-patch
# --------------------------------------------------------------------------
class BranchWalker(Walker):
    """Collects, per leaf of the if/elif chain that assigns elem_left /
    elem_right, the path state and the two assigned values."""
    split_paths = True

    def __init__(self, names):
        super().__init__()
        self.names = names
        self.hits = []

    def on_stmt(self, st, state):
        if isinstance(st, ast.Expr) and isinstance(
                st.value, ast.Call) and text(
                    st.value.func).endswith('.append'):
            vals = {n: text(state.sub(ast.Name(id=n, ctx=ast.Load())))
                    for n in self.names}
            self.hits.append((state.copy(), vals, st))


def single_piece_closed_curve(prog):
    """Is there a shipped closed curve with exactly one piece?"""
    m = prog.module(P)
    out = []
    for cname, ci in m.classes.items():
        init = ci.methods.get('__init__')
        if init is None or 'PiecewiseParametrization' not in ci.bases:
            continue
        for n in ast.walk(init.node):
            if isinstance(n, ast.Assign) and text(
                    n.targets[0]) == 'pw_gamma' and isinstance(
                        n.value, ast.List) and len(n.value.elts) == 1:
                closed = True
                for c in ast.walk(init.node):
                    if isinstance(c, ast.Call) and text(
                            c.func) == 'super().__init__':
                        for kw in c.keywords:
                            if kw.arg == 'closed' and isinstance(
                                    kw.value, ast.Constant) and \
                                    kw.value.value is False:
                                closed = False
                if closed:
                    out.append(cname)
    return out


def check_patch(prog, report):
    fi = prog.func(EE, 'ErrorEstimator.sobolev_space')
    e = fi.params[1]
    # the neighbour loop
    loop = None
    for n in ast.walk(fi.node):
        if isinstance(n, ast.For) and any(
                isinstance(m, ast.Call) and '__integrate_h_1_2' in text(
                    m.func) for m in ast.walk(n)):
            loop = n
    if loop is None:
        raise AnalysisError('%s: neighbour loop not found' % fi.where())
    nb = text(loop.target)
    Se, Ee = e + '.vertices[0].x', e + '.vertices[2].x'
    Sn, En = nb + '.vertices[0].x', nb + '.vertices[2].x'
    Lx = 'self.gamma_len'
    common = ['0 <= %s' % Se, '%s < %s' % (Se, Ee), '%s <= %s' % (Ee, Lx),
              '0 <= %s' % Sn, '%s < %s' % (Sn, En), '%s <= %s' % (En, Lx),
              '0 < %s' % Lx]
    # two distinct elements of one time slice never cover the whole curve
    # (C18: at least three elements around a closed curve)
    cover = '(%s - %s) + (%s - %s) < %s' % (Ee, Se, En, Sn, Lx)
    single = '%s - %s < %s' % (Ee, Se, Lx)
    axioms = {
        'neighbour to the right': ['%s == %s' % (Ee, Sn), cover],
        'neighbour to the left': ['%s == %s' % (En, Se), cover],
        'neighbour to the right through the seam':
        ['%s == %s' % (Ee, Lx), '%s == 0' % Sn, cover],
        'neighbour to the left through the seam':
        ['%s == %s' % (En, Lx), '%s == 0' % Se, cover],
        'the element itself':
        ['%s == %s' % (Se, Sn), '%s == %s' % (Ee, En), single,
         '%s is %s' % (nb, e)],
    }
    # statements of the loop body after the symmetry skip / time patch
    chain = [s for s in loop.body if isinstance(s, ast.If) and any(
        isinstance(m, ast.Assign) and text(m.targets[0]) == 'elem_left'
        for m in ast.walk(s))]
    if len(chain) != 1:
        raise AnalysisError('%s: left/right selection chain not found' %
                            fi.where(loop))
    n_paths = 0
    for name, facts in axioms.items():
        st0 = State()
        for f in common + facts:
            st0.assume(ast.parse(f, mode='eval').body)
        if not st0.reachable():
            raise AnalysisError('axiom set %s is contradictory' % name)
        w = Sel()
        w.walk_block([chain[0]], st0)
        if not w.ends:
            report.violation('R-patch', 'sobolev_space: ' + name,
                             fi.where(chain[0]),
                             'no branch of the selection is reachable for '
                             'this adjacency', construct='sobolev_space: '
                             'selection unreachable for ' + name)
            continue
        for state in w.ends:
            n_paths += 1
            left = text(state.sub(ast.Name(id='elem_left', ctx=ast.Load())))
            right = text(state.sub(ast.Name(id='elem_right',
                                            ctx=ast.Load())))
            if name == 'the element itself':
                ok = left == e and right == 'None'
                why = 'self pair: left = elem, right = None'
            else:
                if right == 'None' or left not in (e, nb) or right not in (
                        e, nb) or left == right:
                    ok, why = False, 'left=%s right=%s' % (left, right)
                else:
                    El = ast.parse(left + '.vertices[2].x',
                                   mode='eval').body
                    Sr = ast.parse(right + '.vertices[0].x',
                                   mode='eval').body
                    Ln = ast.parse(Lx, mode='eval').body
                    Z = ast.parse('0', mode='eval').body
                    direct = state.entails_cmp(El, '==', Sr)
                    seam = state.entails_cmp(El, '==', Ln) and \
                        state.entails_cmp(Sr, '==', Z)
                    ok = direct or seam
                    why = 'left=%s right=%s: left ends where right begins ' \
                        '(direct=%s, through the seam=%s)' % (left, right,
                                                               direct, seam)
            report.check(
                ok, 'R-patch', 'sobolev_space: %s' % name,
                fi.where(chain[0]),
                '(elem_left, elem_right) must be ordered along the curve: '
                + why, construct='sobolev_space: left/right for ' + name)
    # time patch = intersection, in sobolev_space; union/intersection in
    # sobolev_time
    _minmax(report, fi, loop, {
        't_a': ('max', 'time_interval[0]'),
        't_b': ('min', 'time_interval[1]')
    }, e, nb, 'sobolev_space time patch is the intersection')
    fi2 = prog.func(EE, 'ErrorEstimator.sobolev_time')
    loop2 = None
    for n in ast.walk(fi2.node):
        if isinstance(n, ast.For) and any(
                isinstance(m, ast.Call) and '__integrate_h_1_4' in text(
                    m.func) for m in ast.walk(n)):
            loop2 = n
    if loop2 is None:
        raise AnalysisError('%s: neighbour loop not found' % fi2.where())
    e2, nb2 = fi2.params[1], text(loop2.target)
    _minmax(report, fi2, loop2, {
        'x_a': ('max', 'space_interval[0]'),
        'x_b': ('min', 'space_interval[1]'),
        't_a': ('min', 'time_interval[0]'),
        't_b': ('max', 'time_interval[1]')
    }, e2, nb2, 'sobolev_time: intersection in space, union in time')
    # neighbour sets: space indicator uses neighbours across time edges
    # (edges_axis(0)), time indicator across space edges (edges_axis(1))
    for f, ax, nm in ((fi, 0, 'sobolev_space'), (fi2, 1, 'sobolev_time')):
        ok = any(isinstance(n, ast.For) and text(n.iter).replace(
            ' ', '') == '%s.edges_axis(%d)' % (f.params[1], ax) and any(
                'neighbour_elements()' in text(m) for m in ast.walk(n))
            for n in ast.walk(f.node))
        first = [n for n in f.node.body if isinstance(n, ast.Assign)]
        ok = ok and first and text(first[0].value).replace(
            ' ', '') == '[%s]' % f.params[1]
        report.check(ok, 'R-patch', nm + ' neighbour set', f.where(),
                     'the element itself plus its neighbours across the '
                     'edges a bisection in axis %d would cut' % ax,
                     construct=nm + ': neighbour set')
    # inner: the three seminorm variants
    _check_inner(prog, report)
    report.floor('R-patch', 12)


class Sel(Walker):
    def __init__(self):
        super().__init__()
        self.ends = []

    def walk_block(self, stmts, state):
        out = super().walk_block(stmts, state)
        return out

    def walk_stmt(self, st, state):
        if isinstance(st, ast.If):
            s_then = state.copy().assume(st.test)
            s_else = state.copy().assume(st.test, neg=True)
            if s_then.reachable():
                o = Walker.walk_block(self, st.body, s_then)
                if o is not None and not any(
                        isinstance(x, ast.If) for x in st.body):
                    self.ends.append(o)
            if s_else.reachable():
                if len(st.orelse) == 1 and isinstance(st.orelse[0], ast.If):
                    self.walk_stmt(st.orelse[0], s_else)
                else:
                    o = Walker.walk_block(self, st.orelse, s_else)
                    if o is not None:
                        self.ends.append(o)
            return None
        return super().walk_stmt(st, state)


def _minmax(report, fi, loop, want, e, nb, what):
    a = {text(n.targets[0]): n.value for n in ast.walk(loop)
         if isinstance(n, ast.Assign) and len(n.targets) == 1}
    for var, (fn, attr) in want.items():
        v = a.get(var)
        ok = isinstance(v, ast.Call) and text(v.func) == fn and sorted(
            text(x) for x in v.args) == sorted(
                ['%s.%s' % (e, attr), '%s.%s' % (nb, attr)])
        report.check(ok, 'R-patch', '%s %s' % (fi.qualname.split('.')[-1],
                                               var), fi.where(loop),
                     '%s: %s = %s of the two %s; found `%s`' %
                     (what, var, fn, attr, text(v) if v is not None else
                      None), construct='%s: %s' %
                     (fi.qualname.split('.')[-1], var))


def _check_inner(prog, report):
    fi = prog.func(EE, 'ErrorEstimator.__integrate_h_1_2')
    one_piece = single_piece_closed_curve(prog)
    Ll = 'elem_left.space_interval'
    Lr = 'elem_right.space_interval'
    Lx = 'self.gamma_len'
    base = ['0 <= %s[0]' % Ll, '%s[0] < %s[1]' % (Ll, Ll),
            '%s[1] <= %s' % (Ll, Lx), '0 <= %s[0]' % Lr,
            '%s[0] < %s[1]' % (Lr, Lr), '%s[1] <= %s' % (Lr, Lx),
            '(%s[1] - %s[0]) + (%s[1] - %s[0]) < %s' % (Ll, Ll, Lr, Lr, Lx)]
    kinds = {
        'direct': ['%s[1] == %s[0]' % (Ll, Lr)],
        'seam': ['%s[1] == %s' % (Ll, Lx), '%s[0] == 0' % Lr],
    }

    class W(Walker):
        split_paths = True

        def __init__(s):
            super().__init__()
            s.calls = []

        def on_stmt(s, st, state):
            if isinstance(st, ast.Assign) and isinstance(
                    st.value, ast.Call) and 'seminorm_h_1_2' in text(
                        st.value.func):
                s.calls.append((st.value, state.copy(), st))

    loops = [n for n in fi.node.body if isinstance(n, ast.For)]
    if len(loops) != 1:
        raise AnalysisError('%s: time loop not found' % fi.where())
    for kind, facts in kinds.items():
        st0 = State()
        for f in base + facts:
            st0.assume(ast.parse(f, mode='eval').body)
        # right is not None on these kinds
        st0.assume(ast.parse('elem_right is None', mode='eval').body,
                   neg=True)
        w = W()
        w.walk_block(loops[0].body, st0)
        seen = set()
        for call, state, st in w.calls:
            fn = text(call.func).split('.')[-1]
            same = state.entails_bool(
                'elem_left.gamma_space is elem_right.gamma_space')
            diff = state.entails_bool(
                'elem_left.gamma_space is elem_right.gamma_space', False)
            tag = '%s adjacency, %s' % (kind, 'same piece' if same else
                                        'different pieces' if diff else '?')
            if tag in seen:
                continue
            seen.add(tag)
            if fn == 'seminorm_h_1_2':
                lo, hi = state.lin(call.args[1]), state.lin(call.args[2])
                if len(call.args) >= 3 and isinstance(call.args[1],
                                                      ast.Starred):
                    continue
                hl = to_lin(ast.parse('%s[1] - %s[0]' % (Ll, Ll),
                                      mode='eval').body)
                hr = to_lin(ast.parse('%s[1] - %s[0]' % (Lr, Lr),
                                      mode='eval').body)
                pos = state.entails(('lin', lo - hi, '<'))
                length = state.entails(('lin', hi - lo - hl - hr, '=='))
                if kind == 'seam' and same and not one_piece:
                    # infeasible: no shipped closed curve has one piece
                    continue
                report.check(
                    pos and length, 'R-patch',
                    '__integrate_h_1_2: ' + tag, fi.where(st),
                    'the one-piece seminorm is taken over (left.start, '
                    'right.end): this must be an interval lo < hi of length '
                    'h_left + h_right (the union of the two elements); '
                    'lo<hi: %s, length: %s%s' %
                    (pos, length,
                     '' if kind == 'direct' else
                     ' -- feasible because %s is a closed curve with a '
                     'single piece' % one_piece),
                    construct='__integrate_h_1_2: %s: interval '
                    '(left.start, right.end)' % tag)
            elif fn == 'seminorm_h_1_2_pw':
                args = [text(x) for x in call.args]
                ok = args[1:] == ['*' + Ll, 'elem_left.gamma_space',
                                  '*' + Lr, 'elem_right.gamma_space']
                report.check(
                    ok, 'R-patch', '__integrate_h_1_2: ' + tag,
                    fi.where(st),
                    'two-piece seminorm over (left interval, left piece, '
                    'right interval, right piece) in this order',
                    construct='__integrate_h_1_2: two-piece arguments')
    # self pair
    st0 = State()
    st0.assume(ast.parse('elem_right is None', mode='eval').body)
    w = W()
    w.walk_block(loops[0].body, st0)
    ok = len({id(c[2]) for c in w.calls}) == 1 and [
        text(x) for x in w.calls[0][0].args[1:]] == [
            '*' + Ll, 'elem_left.gamma_space']
    report.check(ok, 'R-patch', '__integrate_h_1_2: self pair', fi.where(),
                 'seminorm over the element\'s own interval and piece',
                 construct='__integrate_h_1_2: self pair')
    # outer Gauss factor h_t once, affine time points
    an = {text(n.targets[0]): n.value
          for n in ast.walk(fi.node) if isinstance(n, ast.Assign)
          and len(n.targets) == 1}
    ok = same_any(an.get('h_t'), 't_b - t_a') and same_any(
        an.get('points'), 't_a + h_t * self.gauss.points') and same_any(
            an.get('approx'), 'h_t * np.dot(val, self.gauss.weights)')
    report.check(ok, 'R-patch', '__integrate_h_1_2: time quadrature',
                 fi.where(),
                 'outer Gauss rule mapped to [t_a, t_b] with the factor h_t '
                 'once', construct='__integrate_h_1_2: outer quadrature')
    fi4 = prog.func(EE, 'ErrorEstimator.__integrate_h_1_4')
    a = {text(n.targets[0]): text(n.value).replace(' ', '')
         for n in ast.walk(fi4.node) if isinstance(n, ast.Assign)
         and len(n.targets) == 1}
    an = {text(n.targets[0]): n.value
          for n in ast.walk(fi4.node) if isinstance(n, ast.Assign)
          and len(n.targets) == 1}
    ok = same_any(an.get('h_x'), 'x_b - x_a') and same_any(
        an.get('points'), 'x_a + h_x * self.gauss.points') and same_any(
            an.get('approx'),
            'h_x * np.dot(val, self.gauss.weights)') and any(
                              'self.slobodeckij.seminorm_h_1_4(slo,t_a,t_b)'
                              == v for v in a.values())
    report.check(ok, 'R-patch', '__integrate_h_1_4: space quadrature',
                 fi4.where(),
                 'outer Gauss rule mapped to [x_a, x_b] with the factor h_x '
                 'once; H^1/4 seminorm over [t_a, t_b]',
                 construct='__integrate_h_1_4: outer quadrature')


# --------------------------------------------------------------------------
# symmetric accumulation
# --------------------------------------------------------------------------
def check_accumulation(prog, report):
    # producers
    for q in ('ErrorEstimator.sobolev_space', 'ErrorEstimator.sobolev_time'):
        fi = prog.func(EE, q)
        e = fi.params[1]
        skip = None
        for n in ast.walk(fi.node):
            if isinstance(n, ast.If) and any(
                    isinstance(m, ast.Continue) for m in n.body):
                skip = n
        ok = False
        if skip is not None:
            loop = [n for n in ast.walk(fi.node) if isinstance(n, ast.For)
                    and skip in n.body]
            nb = text(loop[0].target) if loop else '?'
            want = cond_dnf(ast.parse(
                'nbrs_symmetry and %s.glob_idx > %s.glob_idx' % (e, nb),
                mode='eval').body, {})
            got = cond_dnf(skip.test, {})
            norm = lambda d: sorted(sorted(map(str, map(fact_key, c)))
                                    for c in d)
            ok = norm(want) == norm(got)
            # recorded pairs: (neighbour glob_idx, value)
            app = [m for m in ast.walk(loop[0]) if isinstance(m, ast.Call)
                   and text(m.func) == 'ips.append']
            ok = ok and len(app) == 1 and isinstance(
                app[0].args[0], ast.Tuple) and text(
                    app[0].args[0].elts[0]) == nb + '.glob_idx'
        ret = [n for n in ast.walk(fi.node) if isinstance(n, ast.Return)]
        from .absint import inlined
        okr = len(ret) == 1 and text(inlined(ret[0].value, fi.node)).replace(
            ' ', '') in (
            '(math.fsum([valforelem,valinips]),ips)',
            '(sum([valforelem,valinips]),ips)',
            '(math.fsum(valforelem,valinips),ips)')
        report.check(ok and okr, 'R-accumulate', q.split('.')[-1] +
                     ' producer', fi.where(),
                     'with the symmetry shortcut a pair is skipped exactly '
                     'when own index > neighbour index (strict), each '
                     'computed pair is recorded under the neighbour\'s '
                     'index, and the total of all computed pairs is '
                     'returned', construct=q.split('.')[-1] +
                     ': symmetry producer')
    # consumer (semantic): every store into the result array is classified
    # by its substituted index / value / guard
    fi = prog.func(EE, 'ErrorEstimator.estimate_sobolev')

    class CW(Walker):
        unroll_literal_loops = True

        def __init__(s_):
            super().__init__()
            s_.stores = []
            s_.loops = []

        def walk_stmt(s_, st, state):
            if isinstance(st, ast.For):
                s_.loops.append((st, state.sub(st.iter), state.copy()))
                out = super().walk_stmt(st, state)
                s_.loops.pop()
                return out
            return super().walk_stmt(st, state)

        def on_stmt(s_, st, state):
            if isinstance(st, ast.AugAssign) and isinstance(
                    st.target, ast.Subscript) and isinstance(
                        st.op, ast.Add) and isinstance(
                            st.target.slice, ast.Tuple) and len(
                                st.target.slice.elts) == 2:
                arr = text(st.target.value)
                idx, col = (state.sub(e) for e in st.target.slice.elts)
                s_.stores.append((arr, idx, col, state.sub(st.value),
                                  state.copy(), st, list(s_.loops)))

    w = CW()
    w.walk_function(fi.node)
    res = None
    for n in ast.walk(fi.node):
        if isinstance(n, ast.Return) and n.value is not None and \
                isinstance(n.value, ast.Name):
            res = n.value.id
    # the array that is returned after the accumulation
    stores = [x for x in w.stores if x[0] == res]
    if not stores:
        raise AnalysisError('%s: accumulation stores not found' % fi.where())
    g2l = any(isinstance(n, ast.Assign) and text(n.targets[0]) ==
              'glob_2_loc' and text(n.value).replace(' ', '') ==
              '{elem.glob_idx:ifori,eleminenumerate(elems)}'
              for n in ast.walk(fi.node))
    seen = set()
    bad = []
    import re as _re
    for arr, idx, col, val, state, st, loops in stores:
        if not (isinstance(col, ast.Constant) and col.value in (0, 1)):
            bad.append('column `%s` is not a literal 0/1' % text(col))
            continue
        src = ('sobolev_time', 'sobolev_space')[col.value]
        def canon(tx):
            tx = tx.replace(' ', '')
            tx = tx.replace('{elem.glob_idx:ifori,eleminenumerate(elems)}',
                            'glob_2_loc')
            return _re.sub(r'(sobolev_time|sobolev_space)#\d+', r'\1', tx)
        it = canon(text(idx))
        vt = canon(text(val))
        m_own = _re.fullmatch(r'%s\[(.+)\]\[0\]' % src, vt)
        if m_own and it == m_own.group(1):
            # own total at the element's own position
            seen.add((col.value, 'own'))
            continue
        m_n = _re.fullmatch(r'glob_2_loc\[(.+)\]', it)
        if m_n:
            nb = m_n.group(1)
            # (nb, val) must come from iterating src[i][1]
            prov = None
            for lst, lit, lstate in loops[::-1]:
                names = [text(e) for e in lst.target.elts] if isinstance(
                    lst.target, ast.Tuple) else []
                if len(names) == 2:
                    a_, b_ = (text(state.sub(ast.Name(id=x, ctx=ast.Load())))
                              for x in names)
                    if canon(a_) == nb and canon(b_) == vt:
                        prov = canon(text(lit))
                        break
            m_p = _re.fullmatch(r'%s\[(.+)\]\[1\]' % src, prov or '')
            if not m_p:
                bad.append('neighbour credit in column %d does not come '
                           'from %s[i][1] (from %s)' % (col.value, src, prov))
                continue
            own = m_p.group(1)
            # guard: own global index < neighbour global index
            cands = ['elems[%s].glob_idx' % own]
            for lst, lit, lstate in loops:
                t_ = lst.target
                if isinstance(t_, ast.Tuple) and len(t_.elts) == 2 and \
                        canon(text(state.sub(ast.Name(
                            id=text(t_.elts[0]), ctx=ast.Load())))) == own \
                        and canon(text(lit)) in (
                            'zip(range(N),elems)', 'enumerate(elems)',
                            'zip(range(len(elems)),elems)'):
                    cands.append(text(state.sub(ast.Name(
                        id=text(t_.elts[1]), ctx=ast.Load()))) + '.glob_idx')
            okg = False
            base_keys = set()
            if loops:
                for bc in loops[0][2].cases:
                    base_keys |= {fact_key(f) for f in bc}
            nb_lin = to_lin(ast.parse(nb.replace('#', '__'),
                                      mode='eval').body)
            nb_lin = Lin({k.replace('__', '#'): v
                          for k, v in nb_lin.c.items()}, nb_lin.k)
            for c_ in cands:
                ol = to_lin(ast.parse(c_.replace('#', '__'),
                                      mode='eval').body)
                ol = Lin({k.replace('__', '#'): v for k, v in ol.c.items()},
                         ol.k)
                target = ('lin', ol - nb_lin, '<')
                good = True
                for case in state.cases:
                    rest = [f for f in case if fact_key(f) not in base_keys]
                    if not rest or not entails(rest, target) or not all(
                            entails([target], f) for f in rest):
                        good = False
                if good:
                    okg = True
            if not okg:
                bad.append('neighbour credit in column %d is guarded by %s, '
                           'not by "own global index < neighbour global '
                           'index"' % (col.value, state.facts_text()[:120]))
                continue
            seen.add((col.value, 'nbr'))
            continue
        bad.append('unclassified store `%s`' % text(st)[:60])
    ok = not bad and g2l and seen == {(0, 'own'), (0, 'nbr'), (1, 'own'),
                                      (1, 'nbr')}
    report.check(
        ok, 'R-accumulate', 'estimate_sobolev consumer', fi.where(),
        'element i is credited its own total; the neighbour of a computed '
        'pair is credited (at glob_2_loc[neighbour]) iff own global index < '
        'neighbour global index -- the complement of the producers\' skip, '
        'on the same key; column 0 = time, 1 = space (found %s%s)' %
        (sorted(seen), '; ' + '; '.join(bad) if bad else ''),
        construct='estimate_sobolev: symmetric accumulation')
    report.floor('R-accumulate', 3)


def check_orders(prog, report):
    """ErrorEstimator.__init__: which of the four quadrature orders goes
    where."""
    fi = prog.func(EE, 'ErrorEstimator.__init__')
    fn = fi.node
    unpack = None
    for n in fn.body:
        if isinstance(n, ast.Assign) and isinstance(
                n.targets[0], ast.Tuple) and text(n.value) == 'N_poly':
            unpack = [text(e) for e in n.targets[0].elts]
    if unpack is None or len(unpack) != 4:
        raise AnalysisError('%s: unpacking of the four orders not found' %
                            fi.where())
    l2, outer, tm, sx = unpack
    a = {text(n.targets[0]): n.value for n in fn.body
         if isinstance(n, ast.Assign) and len(n.targets) == 1}
    g2 = a.get('self.gauss_2d')
    ok1 = g2 is not None and text(g2).replace(' ', '') == \
        'ProductScheme2D(gauss_quadrature_scheme(%s))' % l2
    g1 = a.get('self.gauss')
    ok2 = g1 is not None and text(g1).replace(' ', '') == \
        'gauss_quadrature_scheme(%s)' % outer
    sl = a.get('self.slobodeckij')
    ok3 = False
    if isinstance(sl, ast.Call) and text(sl.func) == 'Slobodeckij':
        ci = prog.cls('src/norms.py', 'Slobodeckij')
        params = ci.methods['__init__'].params[1:]
        bound = {}
        for p_, v in zip(params, sl.args):
            bound[p_] = text(v)
        for kw in sl.keywords:
            bound[kw.arg] = text(kw.value)
        ok3 = bound.get('N_poly_1_4') == tm and bound.get(
            'N_poly_1_2') == sx
    report.check(ok1 and ok2 and ok3, 'R-orders', 'quadrature orders',
                 fi.where(),
                 'of the four orders (weighted L2, outer, time, space) the '
                 'first feeds the L2 tensor rule, the second the outer '
                 'Gauss rule, the third the H^1/4 (time) rule and the '
                 'fourth the H^1/2 (space) rule (l2=%s outer=%s '
                 'slobodeckij=%s)' % (ok1, ok2, ok3),
                 construct='ErrorEstimator.__init__: order binding')
    # seminorm users: H^1/4 in __integrate_h_1_4 (time), H^1/2 in space
    f4 = prog.func(EE, 'ErrorEstimator.__integrate_h_1_4')
    f2 = prog.func(EE, 'ErrorEstimator.__integrate_h_1_2')
    u4 = {n.func.attr for n in ast.walk(f4.node) if isinstance(n, ast.Call)
          and isinstance(n.func, ast.Attribute)
          and n.func.attr.startswith('seminorm')}
    u2 = {n.func.attr for n in ast.walk(f2.node) if isinstance(n, ast.Call)
          and isinstance(n.func, ast.Attribute)
          and n.func.attr.startswith('seminorm')}
    report.check(u4 == {'seminorm_h_1_4'} and u2 == {
        'seminorm_h_1_2', 'seminorm_h_1_2_pw'}, 'R-orders',
        'seminorm per direction', fi.where(),
        'the time indicator integrates the H^1/4 seminorm, the space '
        'indicator the H^1/2 seminorms (found %s / %s)' % (sorted(u4),
                                                          sorted(u2)),
        construct='ErrorEstimator: seminorm per direction')
