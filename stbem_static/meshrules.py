"""E6 -- mesh discipline rules (R-window, R-mark, R-slabcount, and the
structural premises R-own ... R-vreuse)."""
import ast

import sympy as sp

from .absint import text
from .core import AnalysisError
from .lift import Lifter
from .stale import refine_call, AXNAME

M = 'src/mesh.py'


# --------------------------------------------------------------------------
# R-window (C19)
# --------------------------------------------------------------------------
def _ratio(test, syms):
    """`P >= Q` (or mirrored) with positive monomials -> (P/Q, strict)"""
    if not (isinstance(test, ast.Compare) and len(test.ops) == 1):
        return None
    op = test.ops[0]
    L = Lifter(None, syms)
    l, r = L.lift(test.left), L.lift(test.comparators[0])
    if isinstance(op, (ast.GtE, ast.Gt)):
        return sp.simplify(l / r), isinstance(op, ast.Gt)
    if isinstance(op, (ast.LtE, ast.Lt)):
        return sp.simplify(r / l), isinstance(op, ast.Lt)
    return None


def check_window(prog, report):
    fi = prog.func(M, 'Mesh.refine_grading')
    params = fi.params
    if 'sigma' not in params or 'K' not in params:
        raise AnalysisError('%s: parameters sigma/K renamed' % fi.where())
    ht, hx, K, sg = sp.symbols('h_t h_x K sigma', positive=True)
    # find the classification chain inside the while loop
    loops = [n for n in ast.walk(fi.node) if isinstance(n, ast.While)]
    if len(loops) != 1:
        raise AnalysisError('%s: sweep loop not found' % fi.where())
    wl = loops[0]
    chain = None
    cvar = None
    for n in ast.walk(wl):
        if isinstance(n, ast.For) and isinstance(n.target, ast.Name):
            for s in n.body:
                if isinstance(s, ast.If) and isinstance(
                        s.test, ast.Compare) and any(
                            isinstance(m, ast.Call) and isinstance(
                                m.func, ast.Attribute)
                            and m.func.attr == 'append'
                            for m in ast.walk(s)):
                    chain, cvar, cloop = s, n.target.id, n
    if chain is None:
        raise AnalysisError('%s: classification chain not found' %
                            fi.where())
    syms = {cvar + '.h_t': ht, cvar + '.h_x': hx, 'K': K, 'sigma': sg}
    # walk the if/elif chain
    branches = []
    node = chain
    while isinstance(node, ast.If):
        apps = [m for s in node.body for m in ast.walk(s)
                if isinstance(m, ast.Call) and isinstance(
                    m.func, ast.Attribute) and m.func.attr == 'append']
        branches.append((node.test, apps, node))
        node = node.orelse[0] if len(node.orelse) == 1 and isinstance(
            node.orelse[0], ast.If) else None
    marks = {}
    expected = {
        'time': ht / (K * hx**sg),  # h_t / K >= h_x^sigma
        'space': hx**sg / (K * ht),  # h_x^sigma >= K h_t
    }
    for test, apps, node in branches:
        if len(apps) != 1 or text(apps[0].args[0]) != cvar:
            raise AnalysisError('%s: unrecognised marking branch' %
                                fi.where(node))
        lst = text(apps[0].func.value)
        r = _ratio(test, syms)
        if r is None:
            raise AnalysisError('%s: unrecognised marking condition `%s`' %
                                (fi.where(node), text(test)))
        ratio, strict = r
        kind = None
        for k, e in expected.items():
            if sp.simplify(ratio / e) == 1:
                kind = k
        where = fi.where(node)
        report.check(
            kind is not None and not strict, 'R-window',
            'refine_grading mark `%s`' % text(test)[:50], where,
            'a marking condition must be the non-strict complement of one '
            'side of the window h_t/K < h_x^sigma < K h_t; normal form '
            '%s >= 1 (strict=%s) matches %s' % (ratio, strict, kind),
            construct='refine_grading: marking condition')
        if kind is not None:
            marks[lst] = kind
    report.check(
        sorted(marks.values()) == ['space', 'time'], 'R-window',
        'refine_grading both sides marked', fi.where(chain),
        'the classification marks exactly the two complements of the '
        'window (found %s)' % sorted(marks.values()),
        construct='refine_grading: two-sided classification')
    # the chain is evaluated for every leaf of a fresh snapshot
    it = cloop.iter
    snap_ok = False
    for n in ast.walk(wl):
        if isinstance(n, ast.Assign) and isinstance(
                n.targets[0], ast.Name) and n.targets[0].id == text(it):
            v = n.value
            snap_ok = text(v) in ('list(self.leaf_elements)',
                                  'self.leaf_elements')
    skip = any(isinstance(m, (ast.Continue, ast.Break))
               for s in cloop.body for m in ast.walk(s))
    report.check(snap_ok and not skip, 'R-window',
                 'refine_grading classifies every leaf', fi.where(cloop),
                 'the classification loop runs over a fresh snapshot of all '
                 'leaves without skipping',
                 construct='refine_grading: classification loop')
    # flow: list marked by kind -> loop refining that axis
    flows = {}
    for n in ast.walk(wl):
        if isinstance(n, ast.For) and isinstance(n.target, ast.Name):
            for s in n.body:
                for m in ast.walk(s):
                    rc = refine_call(m)
                    if rc is not None:
                        flows[text(n.iter)] = AXNAME[rc[0]]
    # follow one re-resolution hop: X built from `marked` alias of a list
    alias = _aliases(wl)
    okflow = True
    detail = []
    for lst, kind in marks.items():
        users = [axn for it_, axn in flows.items()
                 if lst in alias.get(it_, {it_})]
        detail.append('%s(%s)->%s' % (lst, kind, users))
        if users != [kind]:
            okflow = False
    report.check(okflow and len(marks) == 2, 'R-window',
                 'refine_grading axis agreement', fi.where(wl),
                 'the list marked "h_t too large" is refined in time, '
                 '"h_x^sigma too large" in space: ' + ', '.join(detail),
                 construct='refine_grading: axis agreement')
    # loop condition: repeat while anything is marked
    cond = text(wl.test).replace(' ', '')
    names = sorted(marks)
    okc = isinstance(wl.test, ast.BoolOp) and isinstance(
        wl.test.op, ast.Or) and sorted(
            text(v) for v in wl.test.values) == names
    report.check(okc, 'R-window', 'refine_grading loop condition',
                 fi.where(wl),
                 'the sweep repeats while either list is non-empty, so on '
                 'exit every leaf of the last classification is in the '
                 'window (found `%s`)' % text(wl.test),
                 construct='refine_grading: loop condition')


def _aliases(scope):
    """name -> set of names it was (transitively) built from by plain alias
    or by the re-resolution idiom, in statement order."""
    built = {}
    for n in ast.walk(scope):
        if isinstance(n, ast.Assign) and isinstance(
                n.targets[0], ast.Name) and isinstance(n.value, ast.Name):
            built.setdefault(n.targets[0].id, set()).add(n.value.id)
        if isinstance(n, ast.For) and isinstance(n.target, ast.Name):
            for m in ast.walk(n):
                if isinstance(m, ast.Call) and isinstance(
                        m.func, ast.Attribute) and m.func.attr in (
                            'append', 'extend') and isinstance(
                                m.func.value, ast.Name):
                    a = m.args[0]
                    if text(a) in (n.target.id,
                                   n.target.id + '.children'):
                        built.setdefault(m.func.value.id,
                                         set()).add(text(n.iter))
    # transitive closure, keeping self
    out = {}
    for k in built:
        seen, todo = {k}, [k]
        while todo:
            x = todo.pop()
            for y in built.get(x, ()):
                if y not in seen:
                    seen.add(y)
                    todo.append(y)
        out[k] = seen
    return out


# --------------------------------------------------------------------------
# R-mark (C06)
# --------------------------------------------------------------------------
def _descending_index(expr):
    """Recognise a descending argsort; returns the text of the sorted array
    or None."""
    e = expr
    if isinstance(e, ast.Call) and text(e.func) == 'list' and len(
            e.args) == 1:
        e = e.args[0]
    if isinstance(e, ast.Call) and text(e.func) in ('reversed', 'np.flip',
                                                    'np.flipud') and len(
                                                        e.args) == 1:
        a = e.args[0]
        if isinstance(a, ast.Call) and text(a.func) == 'np.argsort' and \
                len(a.args) == 1 and not a.keywords:
            return text(a.args[0])
    if isinstance(e, ast.Subscript) and isinstance(
            e.value, ast.Call) and text(e.value.func) == 'np.argsort' and \
            text(e.slice) == '::-1':
        return text(e.value.args[0])
    if isinstance(e, ast.Call) and text(e.func) == 'np.argsort' and len(
            e.args) == 1 and isinstance(e.args[0], ast.UnaryOp) and \
            isinstance(e.args[0].op, ast.USub):
        return text(e.args[0].operand)
    return None


def _assignments(fnode, name):
    return [n for n in ast.walk(fnode)
            if isinstance(n, ast.Assign) and len(n.targets) == 1
            and isinstance(n.targets[0], ast.Name)
            and n.targets[0].id == name]


def check_marking(prog, report):
    for q, aniso in (('Mesh.dorfler_refine_isotropic', False),
                     ('Mesh.dorfler_refine_anisotropic', True)):
        fi = prog.func(M, q)
        fn = fi.node
        params = fi.params
        if len(params) != 3:
            raise AnalysisError('%s: signature changed' % fi.where())
        ind, theta = params[1], params[2]
        short = q.split('.')[-1]
        # the marking loop: the for loop containing `break`
        mloops = [n for n in fn.body if isinstance(n, ast.For) and any(
            isinstance(m, ast.Break) for m in ast.walk(n))]
        if len(mloops) != 1:
            raise AnalysisError('%s: marking loop (for ... break) not found'
                                % fi.where())
        ml = mloops[0]
        pos_mark = pos_acc = pos_test = None
        acc = accval = mark = brk = None
        for i, s in enumerate(ml.body):
            if isinstance(s, ast.Expr) and isinstance(
                    s.value, ast.Call) and isinstance(
                        s.value.func, ast.Attribute) and \
                    s.value.func.attr == 'append':
                pos_mark, mark = i, s.value
            elif isinstance(s, ast.AugAssign) and isinstance(
                    s.op, ast.Add) and isinstance(s.target, ast.Name):
                pos_acc, acc, accval = i, s.target.id, s.value
            elif isinstance(s, ast.If) and any(
                    isinstance(m, ast.Break) for m in ast.walk(s)):
                pos_test, brk = i, s
            else:
                raise AnalysisError('%s: unrecognised statement in the '
                                    'marking loop' % fi.where(s))
        if None in (pos_mark, pos_acc, pos_test):
            raise AnalysisError('%s: marking loop lacks mark/accumulate/'
                                'test' % fi.where(ml))
        report.check(
            pos_mark < pos_test and pos_acc < pos_test, 'R-mark',
            short + ' loop order', fi.where(ml),
            'in the loop body the element is marked and its contribution '
            'accumulated before the bulk test (mark -> accumulate -> test '
            '-> break), so the element that reaches the threshold is '
            'included and nothing after it',
            construct=short + ': mark/accumulate/test order')
        body_ok = len(brk.body) == 1 and isinstance(
            brk.body[0], ast.Break) and not brk.orelse
        # threshold normal form  acc >= theta^2 * total
        C, TOT, TH = sp.symbols('C TOT TH', positive=True)
        totname = None
        t = brk.test
        ok_thr, strict, detail = False, None, ''
        if isinstance(t, ast.Compare) and len(t.ops) == 1:
            names = {n.id for n in ast.walk(t) if isinstance(n, ast.Name)}
            others = names - {acc, theta}
            if len(others) == 1:
                totname = others.pop()
                L = Lifter(None, {acc: C, totname: TOT, theta: TH})
                l, r = L.lift(t.left), L.lift(t.comparators[0])
                op = t.ops[0]
                if isinstance(op, (ast.GtE, ast.Gt)):
                    d, strict = l - r, isinstance(op, ast.Gt)
                elif isinstance(op, (ast.LtE, ast.Lt)):
                    d, strict = r - l, isinstance(op, ast.Lt)
                else:
                    d = None
                if d is not None:
                    # allow a positive common factor / square roots:
                    # d >= 0  <=>  C - TH^2 TOT >= 0
                    cand = [d, None]
                    ok_thr = sp.simplify(d - (C - TH**2 * TOT)) == 0
                    if not ok_thr:
                        # sqrt form: sqrt(C) >= TH*sqrt(TOT)
                        ok_thr = sp.simplify(
                            d - (sp.sqrt(C) - TH * sp.sqrt(TOT))) == 0
                    detail = 'normal form %s >= 0' % sp.simplify(d)
        report.check(
            ok_thr and strict is False and body_ok, 'R-mark',
            short + ' threshold', fi.where(brk),
            'the loop stops as soon as cumsum >= theta^2 * total '
            '(non-strict); found `%s` (%s, strict=%s)' %
            (text(t), detail, strict),
            construct=short + ': bulk threshold')
        # total = np.sum(<indicator parameter>) over the whole array
        tot_ok = False
        if totname:
            asg = _assignments(fn, totname)
            tot_ok = len(asg) == 1 and text(asg[0].value) in (
                'np.sum(%s)' % ind, '%s.sum()' % ind, 'sum(%s)' % ind)
        report.check(tot_ok, 'R-mark', short + ' total', fi.where(),
                     'the total is the sum of the whole indicator array '
                     '`%s` (both columns for the anisotropic marking)' % ind,
                     construct=short + ': total')
        # accumulator starts at zero
        asg = _assignments(fn, acc)
        init_ok = len(asg) == 1 and isinstance(
            asg[0].value, ast.Constant) and asg[0].value.value == 0 and \
            asg[0].lineno < ml.lineno
        report.check(init_ok, 'R-mark', short + ' accumulator init',
                     fi.where(), 'cumsum starts at 0',
                     construct=short + ': accumulator init')
        if not aniso:
            _mark_iso(report, fi, fn, ml, mark, accval, ind, short)
        else:
            _mark_aniso(report, fi, fn, ml, mark, accval, ind, short)


def _mark_iso(report, fi, fn, ml, mark, accval, ind, short):
    iv = ml.target.id if isinstance(ml.target, ast.Name) else None
    # order
    desc = None
    if isinstance(ml.iter, ast.Name):
        asg = _assignments(fn, ml.iter.id)
        if len(asg) == 1:
            desc = _descending_index(asg[0].value)
    else:
        desc = _descending_index(ml.iter)
    report.check(desc == ind, 'R-mark', short + ' descending order',
                 fi.where(ml),
                 'the loop visits indices in descending order of the '
                 'indicator `%s` (found order of `%s`)' % (ind, desc),
                 construct=short + ': descending order')
    # same index for element and contribution; elems is the leaf snapshot
    elems_ok = False
    a = mark.args[0]
    if isinstance(a, ast.Subscript) and text(a.slice) == iv and isinstance(
            a.value, ast.Name):
        asg = _assignments(fn, a.value.id)
        elems_ok = len(asg) == 1 and text(
            asg[0].value) == 'list(self.leaf_elements)'
    acc_ok = text(accval) == '%s[%s]' % (ind, iv)
    report.check(elems_ok and acc_ok, 'R-mark', short + ' index binding',
                 fi.where(ml),
                 'the marked element elems[i] and the accumulated '
                 'contribution %s[i] use the same index into the leaf '
                 'snapshot' % ind, construct=short + ': index binding')
    # flow: marked -> time loop, returned children -> space loop
    marked = text(mark.func.value)
    flows = _refine_flows(fn)
    al = _aliases(fn)
    t_ok = flows.get(marked) == 'time'
    child_lists = [k for k, v in flows.items() if v == 'space']
    s_ok = False
    for n in ast.walk(fn):
        if isinstance(n, ast.For) and text(n.iter) == marked:
            for m in ast.walk(n):
                if isinstance(m, ast.Call) and isinstance(
                        m.func, ast.Attribute) and m.func.attr == 'extend' \
                        and m.args and refine_call(m.args[0]) and \
                        text(m.func.value) in child_lists:
                    s_ok = True
    report.check(t_ok and s_ok, 'R-mark', short + ' axis flow', fi.where(),
                 'every marked element is bisected in time and every '
                 'returned time-child in space',
                 construct=short + ': axis flow')


def _refine_flows(fn):
    flows = {}
    for n in ast.walk(fn):
        if isinstance(n, ast.For) and isinstance(n.target, ast.Name):
            for s in n.body:
                for m in ast.walk(s):
                    rc = refine_call(m)
                    if rc is not None and text(rc[1]) == n.target.id:
                        flows[text(n.iter)] = AXNAME[rc[0]]
    return flows


def _mark_aniso(report, fi, fn, ml, mark, accval, ind, short):
    if not (isinstance(ml.target, ast.Tuple) and len(ml.target.elts) == 3
            and isinstance(ml.iter, ast.Name)):
        raise AnalysisError('%s: anisotropic marking loop does not unpack '
                            '(value, element, axis)' % fi.where(ml))
    tv = [text(e) for e in ml.target.elts]
    lst = ml.iter.id
    # construction of the list: two comprehensions over zip(ind[:, k], elems)
    builds = []
    for n in ast.walk(fn):
        val = None
        if isinstance(n, ast.Assign) and text(n.targets[0]) == lst:
            val = n.value
        elif isinstance(n, ast.AugAssign) and text(n.target) == lst:
            val = n.value
        if val is not None:
            builds.append(val)
    tags = {}
    okb = len(builds) == 2
    pos_val = pos_elem = pos_ax = None
    for v in builds:
        if not (isinstance(v, ast.ListComp) and isinstance(
                v.elt, ast.Tuple) and len(v.elt.elts) == 3
                and len(v.generators) == 1):
            okb = False
            continue
        g = v.generators[0]
        if not (isinstance(g.iter, ast.Call) and text(g.iter.func) == 'zip'
                and len(g.iter.args) == 2 and isinstance(
                    g.target, ast.Tuple) and len(g.target.elts) == 2):
            okb = False
            continue
        gv = [text(e) for e in g.target.elts]
        col = None
        elist = None
        for tname, src in zip(gv, g.iter.args):
            st = text(src).replace(' ', '')
            if st.startswith(ind + '[:,') and st.endswith(']'):
                col = (tname, st[len(ind) + 3:-1])
            else:
                elist = (tname, text(src))
        if col is None or elist is None:
            okb = False
            continue
        elts = [text(e) for e in v.elt.elts]
        try:
            pv, pe = elts.index(col[0]), elts.index(elist[0])
        except ValueError:
            okb = False
            continue
        pa = ({0, 1, 2} - {pv, pe}).pop()
        tag = elts[pa]
        tags[col[1]] = tag
        if pos_val is None:
            pos_val, pos_elem, pos_ax = pv, pe, pa
        elif (pos_val, pos_elem, pos_ax) != (pv, pe, pa):
            okb = False
        asg = _assignments(fn, elist[1])
        if not (len(asg) == 1 and text(asg[0].value) ==
                'list(self.leaf_elements)'):
            okb = False
    report.check(
        okb and tags == {'0': '0', '1': '1'}, 'R-mark',
        short + ' axis tags', fi.where(),
        'the candidate list pairs column 0 of the indicators with axis tag '
        '0 (time) and column 1 with tag 1 (space), element by element of the '
        'leaf snapshot; found column->tag %s' % tags,
        construct=short + ': axis tags')
    if not okb:
        return
    # order: list.sort(reverse=True, key=lambda t: t[pos_val])
    desc = False
    for n in ast.walk(fn):
        if isinstance(n, ast.Call) and isinstance(
                n.func, ast.Attribute) and n.func.attr == 'sort' and text(
                    n.func.value) == lst:
            rev = any(kw.arg == 'reverse' and isinstance(
                kw.value, ast.Constant) and kw.value.value is True
                for kw in n.keywords)
            key = [kw.value for kw in n.keywords if kw.arg == 'key']
            kok = len(key) == 1 and isinstance(
                key[0], ast.Lambda) and isinstance(
                    key[0].body, ast.Subscript) and text(
                        key[0].body.slice) == str(pos_val) and text(
                            key[0].body.value) == key[0].args.args[0].arg
            desc = rev and kok and n.lineno < ml.lineno
    report.check(desc, 'R-mark', short + ' descending order', fi.where(ml),
                 'the candidates are sorted in descending order of their '
                 'value component before the loop',
                 construct=short + ': descending order')
    bind_ok = text(accval) == tv[pos_val] and text(
        mark.args[0]) == tv[pos_elem] and text(
            mark.func.value).replace(' ', '').endswith('[%s]' % tv[pos_ax])
    report.check(bind_ok, 'R-mark', short + ' index binding', fi.where(ml),
                 'the loop accumulates the value component, marks the '
                 'element component, into the list selected by the axis '
                 'component', construct=short + ': index binding')
    # flow: marked[0] -> time, marked[1] (re-resolved) -> space
    base = text(mark.func.value).split('[')[0]
    flows = _refine_flows(fn)
    al = _aliases(fn)
    got = {}
    for it, axn in flows.items():
        srcs = al.get(it, {it}) | {it}
        for s in srcs:
            if s.startswith(base + '['):
                got[s] = axn
    report.check(got == {base + '[0]': 'time', base + '[1]': 'space'},
                 'R-mark', short + ' axis flow', fi.where(),
                 'elements marked with tag 0 are refined in time, tag 1 in '
                 'space (after re-resolution through .children); found %s' %
                 got, construct=short + ': axis flow')
