"""E6 -- mesh discipline rules (R-window, R-mark, R-slabcount, and the
structural premises R-own ... R-vreuse)."""
import ast

import sympy as sp

from .absint import text
from .core import AnalysisError
from .lift import Lifter
from .stale import refine_call, AXNAME

M = 'src/mesh.py'


# --------------------------------------------------------------------------
# R-window (C19)
# --------------------------------------------------------------------------
def _ratio(test, syms, name_hook=None):
    """`P >= Q` (or mirrored) with positive monomials -> (P/Q, strict)"""
    if not (isinstance(test, ast.Compare) and len(test.ops) == 1):
        return None
    op = test.ops[0]
    L = Lifter(None, syms, name_hook=name_hook)
    l, r = L.lift(test.left), L.lift(test.comparators[0])
    if isinstance(op, (ast.GtE, ast.Gt)):
        return sp.simplify(l / r), isinstance(op, ast.Gt)
    if isinstance(op, (ast.LtE, ast.Lt)):
        return sp.simplify(r / l), isinstance(op, ast.Lt)
    return None


def check_entry(prog, report, q='Mesh.refine_grading'):
    """R-entry: the driver refines through the public bisection entry
    points with their default behaviour -- any keyword argument it passes
    must equal the callee's default, so the conformity closure is not opted
    out of."""
    fi = prog.func(M, q)
    n = 0
    for node in ast.walk(fi.node):
        rc = refine_call(node)
        if rc is None:
            continue
        n += 1
        callee = prog.func(M, 'Mesh.' + node.func.attr)
        a = callee.node.args
        defaults = {}
        pos = a.args[len(a.args) - len(a.defaults):]
        for p_, d in zip(pos, a.defaults):
            defaults[p_.arg] = d
        for p_, d in zip(a.kwonlyargs, a.kw_defaults):
            if d is not None:
                defaults[p_.arg] = d
        bad = []
        for kw in node.keywords:
            if kw.arg is None or kw.arg not in defaults or ast.dump(
                    kw.value) != ast.dump(defaults[kw.arg]):
                bad.append(text(kw) if kw.arg is None else '%s=%s' %
                           (kw.arg, text(kw.value)))
        extra = node.args[2 if node.func.attr == 'refine_axis' else 1:]
        report.check(
            not bad and not extra, 'R-entry',
            '%s call `%s`' % (q.split('.')[-1], text(node)[:50]),
            fi.where(node),
            'the bisection entry point is called with its default '
            'behaviour (conformity closure included); non-default '
            'arguments: %s' % (bad + [text(e) for e in extra] or 'none'),
            construct='%s: non-default refine call' % q.split('.')[-1])
    if n == 0:
        raise AnalysisError('%s: no refine call found' % fi.where())


def _dict_memo(st, nxt):
    """`v = D.get(key)` followed by `if v is None: v = D[key] = expr`
    (or the two-statement form) -> (v, text(D), key, expr)."""
    if not (isinstance(st, ast.Assign) and len(st.targets) == 1 and
            isinstance(st.targets[0], ast.Name) and isinstance(
                st.value, ast.Call) and isinstance(
                    st.value.func, ast.Attribute) and
            st.value.func.attr == 'get' and len(st.value.args) == 1):
        return None
    var = st.targets[0].id
    store = text(st.value.func.value)
    key = st.value.args[0]
    if not (isinstance(nxt, ast.If) and text(nxt.test) in (
            '%s is None' % var, 'not %s' % var) and not nxt.orelse):
        raise AnalysisError('line %d: lookup `%s` without a recognisable '
                            'miss branch' % (st.lineno, text(st)))
    expr = None
    stored = False
    for b in nxt.body:
        if not isinstance(b, ast.Assign):
            raise AnalysisError('line %d: unrecognised memo miss branch' %
                                b.lineno)
        slot = '%s[<key>]' % store
        tg = [slot if isinstance(t, ast.Subscript) and text(
            t.value) == store and ast.dump(t.slice) == ast.dump(key)
            else text(t) for t in b.targets]
        if var in tg and expr is None:
            expr = b.value
        if slot in tg:
            stored = True
            if not (var in tg or text(b.value) == var):
                raise AnalysisError('line %d: memo stores another value' %
                                    b.lineno)
        if not set(tg) <= {var, slot}:
            raise AnalysisError('line %d: unrecognised memo miss branch' %
                                b.lineno)
    if expr is None or not stored:
        raise AnalysisError('line %d: unrecognised memo miss branch' %
                            nxt.lineno)
    return var, store, key, expr


def check_sweep_unbounded(prog, report):
    """R-window, exit condition: grading stops only when a sweep marked
    nothing.  A counted loop around the sweeps can stop with leaves still
    outside the window, whatever its bound was meant to be (the bound would
    have to hold for every reachable mesh and every sigma, K)."""
    fi = prog.func(M, 'Mesh.refine_grading')
    outer = None
    for n in fi.node.body:
        if isinstance(n, (ast.For, ast.While)) and any(
                refine_call(m) is not None for m in ast.walk(n)):
            outer = n
            break
    if outer is None:
        raise AnalysisError('%s: sweep loop not found' % fi.where())
    counted = isinstance(outer, ast.For) and isinstance(
        outer.iter, ast.Call) and text(outer.iter.func) == 'range'
    report.check(not counted, 'R-window', 'sweeps until nothing is marked',
                 fi.where(outer),
                 'the sweeps are repeated while a sweep marked something; '
                 'a counted loop (`for ... in range(...)`) may end with '
                 'leaves outside the window',
                 construct='refine_grading: counted sweep loop')


def check_window(prog, report):
    fi = prog.func(M, 'Mesh.refine_grading')
    params = fi.params
    if 'sigma' not in params or 'K' not in params:
        raise AnalysisError('%s: parameters sigma/K renamed' % fi.where())
    ht, hx, K, sg = sp.symbols('h_t h_x K sigma', positive=True)
    # find the classification chain inside the while loop
    loops = [n for n in ast.walk(fi.node) if isinstance(n, ast.While)]
    if len(loops) != 1:
        raise AnalysisError('%s: sweep loop not found' % fi.where())
    wl = loops[0]
    chain = None
    cvar = None
    guards = []
    for n in ast.walk(wl):
        if isinstance(n, ast.For) and isinstance(n.target, ast.Name):
            found = [s for s in n.body if isinstance(s, ast.If)
                     and isinstance(s.test, ast.Compare) and any(
                         isinstance(m, ast.Call) and isinstance(
                             m.func, ast.Attribute)
                         and m.func.attr == 'append'
                         for m in ast.walk(s))]
            if found:
                chain, cvar, cloop = found[0], n.target.id, n
                # guard-clause style: further classifying ifs of the same
                # loop, each ending in `continue`
                guards = found[1:]
    if chain is None:
        raise AnalysisError('%s: classification chain not found' %
                            fi.where())
    syms = {cvar + '.h_t': ht, cvar + '.h_x': hx, 'K': K, 'sigma': sg}
    # local single assignments of the classification loop are inlined
    from .absint import subst
    local = {}
    body = list(cloop.body)
    for i, s_ in enumerate(body):
        memo = _dict_memo(s_, body[i + 1] if i + 1 < len(body) else None)
        if memo is not None:
            # v = D.get(key); if v is None: v = D[key] = expr
            var, store, key, expr = memo
            expr = subst(expr, local)
            key_names = {text(m) for m in ast.walk(subst(key, local))
                         if isinstance(m, (ast.Name, ast.Attribute))}
            local_store = any(
                isinstance(a, ast.Assign) and text(a.targets[0]) == store
                for a in ast.walk(fi.node))
            dep = {m.id for m in ast.walk(expr) if isinstance(m, ast.Name)
                   and m.id in params and m.id != 'self'}
            missing = set() if local_store else {
                d for d in dep if d not in key_names}
            report.check(
                not missing, 'R-memo',
                'refine_grading memo %s' % store, fi.where(s_),
                'the memoised value `%s` depends on %s but the store `%s`, '
                'which outlives the call, is keyed on `%s` only: a later '
                'call with another value classifies with the stale one' %
                (text(expr)[:40], sorted(missing) or 'nothing else', store,
                 text(key)),
                construct='refine_grading: memo %s key incomplete' % store)
            local[var] = expr
            continue
        if isinstance(s_, ast.Assign) and len(s_.targets) == 1 and \
                isinstance(s_.targets[0], ast.Name):
            local[s_.targets[0].id] = subst(s_.value, local)
    # names bound once in the function, outside the classification loop
    outer_local = {}
    cl_nodes = {id(x) for x in ast.walk(cloop)}
    counts = {}
    for n_ in ast.walk(fi.node):
        if isinstance(n_, ast.Name) and isinstance(n_.ctx, ast.Store):
            counts[n_.id] = counts.get(n_.id, 0) + 1
    for n_ in ast.walk(fi.node):
        if isinstance(n_, ast.Assign) and id(n_) not in cl_nodes and len(
                n_.targets) == 1 and isinstance(
                    n_.targets[0], ast.Name) and counts.get(
                        n_.targets[0].id) == 1 and \
                n_.targets[0].id not in local:
            outer_local[n_.targets[0].id] = n_.value
    # walk the if/elif chain
    branches = []
    node = chain
    while isinstance(node, ast.If):
        apps = [m for s in node.body for m in ast.walk(s)
                if isinstance(m, ast.Call) and isinstance(
                    m.func, ast.Attribute) and m.func.attr == 'append']
        branches.append((node.test, apps, node))
        node = node.orelse[0] if len(node.orelse) == 1 and isinstance(
            node.orelse[0], ast.If) else None
    for g in guards:
        if g.orelse or len(branches) != 1 + guards.index(g):
            raise AnalysisError('%s: mixed classification styles' %
                                fi.where(g))
        apps = [m for s in g.body for m in ast.walk(s)
                if isinstance(m, ast.Call) and isinstance(
                    m.func, ast.Attribute) and m.func.attr == 'append']
        branches.append((g.test, apps, g))
    marks = {}
    expected = {
        'time': ht / (K * hx**sg),  # h_t / K >= h_x^sigma
        'space': hx**sg / (K * ht),  # h_x^sigma >= K h_t
    }
    for test, apps, node in branches:
        if len(apps) != 1 or text(apps[0].args[0]) != cvar:
            raise AnalysisError('%s: unrecognised marking branch' %
                                fi.where(node))
        lst = text(apps[0].func.value)
        # a quantity that is neither the leaf's sizes nor K, sigma (a local
        # computed from the mesh, say) enters as a symbol of its own: the
        # condition then is a side of the window only if it cancels
        foreign = {}

        def hook(tx, foreign=foreign):
            if tx in syms or tx == cvar or tx.startswith(cvar + '.'):
                return None
            return foreign.setdefault(
                tx, sp.Symbol('q%d' % len(foreign), positive=True))
        r = _ratio(subst(subst(test, local), outer_local), syms,
                   name_hook=hook)
        if r is None:
            raise AnalysisError('%s: unrecognised marking condition `%s`' %
                                (fi.where(node), text(test)))
        ratio, strict = r
        kind = None
        for k, e in expected.items():
            if sp.simplify(ratio / e) == 1:
                kind = k
        where = fi.where(node)
        report.check(
            kind is not None and not strict, 'R-window',
            'refine_grading mark `%s`' % text(test)[:50], where,
            'a marking condition must be the non-strict complement of one '
            'side of the window h_t/K < h_x^sigma < K h_t; normal form '
            '%s >= 1 (strict=%s) matches %s' % (ratio, strict, kind),
            construct='refine_grading: marking condition')
        if kind is not None:
            marks[lst] = kind
    report.check(
        sorted(marks.values()) == ['space', 'time'], 'R-window',
        'refine_grading both sides marked', fi.where(chain),
        'the classification marks exactly the two complements of the '
        'window (found %s)' % sorted(marks.values()),
        construct='refine_grading: two-sided classification')
    # the chain is evaluated for every leaf of a fresh snapshot
    it = cloop.iter
    snap_ok = False
    for n in ast.walk(wl):
        if isinstance(n, ast.Assign) and isinstance(
                n.targets[0], ast.Name) and n.targets[0].id == text(it):
            v = n.value
            snap_ok = text(v) in ('list(self.leaf_elements)',
                                  'self.leaf_elements')
    closing = {id(b_[2].body[-1]) for b_ in branches
               if isinstance(b_[2].body[-1], ast.Continue)}
    skip = any(isinstance(m, (ast.Continue, ast.Break))
               and id(m) not in closing
               for s in cloop.body for m in ast.walk(s))
    report.check(snap_ok and not skip, 'R-window',
                 'refine_grading classifies every leaf', fi.where(cloop),
                 'the classification loop runs over a fresh snapshot of all '
                 'leaves without skipping',
                 construct='refine_grading: classification loop')
    # flow: list marked by kind -> loop refining that axis
    flows = {}
    for n in ast.walk(wl):
        if isinstance(n, ast.For) and isinstance(n.target, ast.Name):
            for s in n.body:
                for m in ast.walk(s):
                    rc = refine_call(m)
                    if rc is not None:
                        flows[text(n.iter)] = AXNAME[rc[0]]
    # follow one re-resolution hop: X built from `marked` alias of a list
    alias = _aliases(wl)
    okflow = True
    detail = []
    for lst, kind in marks.items():
        users = [axn for it_, axn in flows.items()
                 if lst in alias.get(it_, {it_})]
        detail.append('%s(%s)->%s' % (lst, kind, users))
        if users != [kind]:
            okflow = False
    report.check(okflow and len(marks) == 2, 'R-window',
                 'refine_grading axis agreement', fi.where(wl),
                 'the list marked "h_t too large" is refined in time, '
                 '"h_x^sigma too large" in space: ' + ', '.join(detail),
                 construct='refine_grading: axis agreement')
    # loop condition: repeat while anything is marked
    cond = text(wl.test).replace(' ', '')
    names = sorted(marks)
    okc = isinstance(wl.test, ast.BoolOp) and isinstance(
        wl.test.op, ast.Or) and sorted(
            text(v) for v in wl.test.values) == names
    if not okc and isinstance(wl.test, ast.Constant) and wl.test.value:
        # while True: classify; if nothing is marked: break; refine
        from .absint import cond_dnf, fact_key
        pos = wl.body.index(cloop) if cloop in wl.body else None
        if pos is not None and pos + 1 < len(wl.body):
            nxt = wl.body[pos + 1]
            if isinstance(nxt, ast.If) and not nxt.orelse and len(
                    nxt.body) == 1 and isinstance(nxt.body[0], ast.Break):
                want = cond_dnf(ast.parse(
                    ' and '.join('not %s' % n_ for n_ in names),
                    mode='eval').body, {})
                got = cond_dnf(nxt.test, {})
                norm = lambda d: sorted(sorted(map(str, map(fact_key, c)))
                                        for c in d)
                okc = norm(got) == norm(want) and not any(
                    isinstance(m, ast.Break) for s_ in wl.body
                    if s_ is not nxt for m in ast.walk(s_))
    report.check(okc, 'R-window', 'refine_grading loop condition',
                 fi.where(wl),
                 'the sweep repeats while either list is non-empty, so on '
                 'exit every leaf of the last classification is in the '
                 'window (found `%s`)' % text(wl.test),
                 construct='refine_grading: loop condition')


def _aliases(scope):
    """name -> set of names it was (transitively) built from by plain alias
    or by the re-resolution idiom, in statement order."""
    built = {}
    for n in ast.walk(scope):
        if isinstance(n, ast.Assign) and isinstance(
                n.targets[0], ast.Name) and isinstance(n.value, ast.Name):
            built.setdefault(n.targets[0].id, set()).add(n.value.id)
        if isinstance(n, ast.For) and isinstance(n.target, ast.Name):
            for m in ast.walk(n):
                if isinstance(m, ast.Call) and isinstance(
                        m.func, ast.Attribute) and m.func.attr in (
                            'append', 'extend') and isinstance(
                                m.func.value, ast.Name):
                    a = m.args[0]
                    if text(a) in (n.target.id,
                                   n.target.id + '.children'):
                        built.setdefault(m.func.value.id,
                                         set()).add(text(n.iter))
    # transitive closure, keeping self
    out = {}
    for k in built:
        seen, todo = {k}, [k]
        while todo:
            x = todo.pop()
            for y in built.get(x, ()):
                if y not in seen:
                    seen.add(y)
                    todo.append(y)
        out[k] = seen
    return out


# --------------------------------------------------------------------------
# R-mark (C06)
# --------------------------------------------------------------------------
def _descending_index(expr):
    """Recognise a descending argsort; returns the text of the sorted array
    or None."""
    e = expr
    if isinstance(e, ast.Call) and text(e.func) == 'list' and len(
            e.args) == 1:
        e = e.args[0]
    if isinstance(e, ast.Call) and text(e.func) in ('reversed', 'np.flip',
                                                    'np.flipud') and len(
                                                        e.args) == 1:
        a = e.args[0]
        if isinstance(a, ast.Call) and text(a.func) == 'np.argsort' and \
                len(a.args) == 1 and not a.keywords:
            return text(a.args[0])
    if isinstance(e, ast.Subscript) and isinstance(
            e.value, ast.Call) and text(e.value.func) == 'np.argsort' and \
            text(e.slice) == '::-1':
        return text(e.value.args[0])
    if isinstance(e, ast.Call) and text(e.func) == 'np.argsort' and len(
            e.args) == 1 and isinstance(e.args[0], ast.UnaryOp) and \
            isinstance(e.args[0].op, ast.USub):
        return text(e.args[0].operand)
    return None


def _assignments(fnode, name):
    return [n for n in ast.walk(fnode)
            if isinstance(n, ast.Assign) and len(n.targets) == 1
            and isinstance(n.targets[0], ast.Name)
            and n.targets[0].id == name]


def check_exact_mesh(prog, report):
    """R-tolerance (mesh): src/mesh.py compares coordinates exactly.  The
    coordinates of a bisection mesh are exact in floating point; a tolerance
    comparison (isclose / allclose, default rtol 1e-5..1e-9) stops telling
    neighbouring vertices apart at refinement levels the adaptive loop does
    reach, so an assertion or a branch built on it fails there."""
    m = prog.module(M)
    hits = []
    n = 0
    for q, fi in m.funcs.items():
        for node in ast.walk(fi.node):
            if isinstance(node, ast.Call):
                n += 1
                name = text(node.func)
                if name.split('.')[-1] in ('isclose', 'allclose',
                                           'assert_allclose',
                                           'assert_almost_equal'):
                    hits.append((fi, node, name))
    for fi, node, name in hits:
        report.violation(
            'R-tolerance', '%s uses %s' % (fi.qualname, name),
            fi.where(node),
            'a tolerance comparison of mesh coordinates / sizes: exact on '
            'coarse meshes, wrong once elements are smaller than the '
            'tolerance times their coordinates',
            construct='%s: tolerance comparison in the mesh' % fi.qualname)
    if not hits:
        report.ok('R-tolerance', 'src/mesh.py compares exactly', M,
                  '%d calls scanned, no isclose / allclose' % n)


def check_marking(prog, report):
    for q, aniso in (('Mesh.dorfler_refine_isotropic', False),
                     ('Mesh.dorfler_refine_anisotropic', True)):
        fi = prog.func(M, q)
        fn = fi.node
        params = fi.params
        if len(params) != 3:
            raise AnalysisError('%s: signature changed' % fi.where())
        ind, theta = params[1], params[2]
        short = q.split('.')[-1]
        # memory-layout dependent flattening of the caller's array
        for n_ in ast.walk(fn):
            if isinstance(n_, ast.Call) and any(
                    k_.arg == 'order' and isinstance(
                        k_.value, ast.Constant) and k_.value.value in (
                            'K', 'A') for k_ in n_.keywords):
                report.violation(
                    'R-mark', short + ' layout-dependent flattening',
                    fi.where(n_),
                    '`%s` flattens the indicator array in memory order: '
                    'the (element, direction) decoding then depends on '
                    'whether the caller\'s array is C- or Fortran-'
                    'contiguous' % text(n_)[:50],
                    construct=short + ': order=K/A flattening')
        # the marking loop: the for loop containing `break`
        mloops = [n for n in fn.body if isinstance(n, ast.For) and any(
            isinstance(m, ast.Break) for m in ast.walk(n))]
        if not mloops:
            raise AnalysisError('%s: marking loop (for ... break) not found'
                                % fi.where())
        # the first one is the bulk loop; anything else that adds to the
        # marked collection is checked below
        ml = mloops[0]
        pos_mark = pos_acc = pos_test = None
        acc = accval = mark = brk = None
        for i, s in enumerate(ml.body):
            if isinstance(s, ast.Expr) and isinstance(
                    s.value, ast.Call) and isinstance(
                        s.value.func, ast.Attribute) and \
                    s.value.func.attr == 'append':
                pos_mark, mark = i, s.value
            elif isinstance(s, ast.AugAssign) and isinstance(
                    s.op, ast.Add) and isinstance(s.target, ast.Name):
                pos_acc, acc, accval = i, s.target.id, s.value
            elif isinstance(s, ast.If) and any(
                    isinstance(m, ast.Break) for m in ast.walk(s)):
                pos_test, brk = i, s
            else:
                raise AnalysisError('%s: unrecognised statement in the '
                                    'marking loop' % fi.where(s))
        if None in (pos_mark, pos_acc, pos_test):
            raise AnalysisError('%s: marking loop lacks mark/accumulate/'
                                'test' % fi.where(ml))
        base = mark.func.value
        while isinstance(base, ast.Subscript):
            base = base.value
        coll = text(base)
        extra = []
        for n_ in ast.walk(fn):
            if any(n_ is x for x in ast.walk(ml)):
                continue
            tgt_ = None
            if isinstance(n_, ast.Call) and isinstance(
                    n_.func, ast.Attribute) and n_.func.attr in (
                        'append', 'extend', 'insert', 'add', 'update'):
                tgt_ = n_.func.value
            elif isinstance(n_, ast.AugAssign):
                tgt_ = n_.target
            if tgt_ is not None:
                b_ = tgt_
                while isinstance(b_, ast.Subscript):
                    b_ = b_.value
                if text(b_) == coll:
                    extra.append(n_)
        report.check(
            not extra, 'R-mark', short + ' only the bulk loop marks',
            fi.where(extra[0]) if extra else fi.where(ml),
            'elements are added to `%s` only by the bulk loop, so the '
            'marked set is exactly the shortest prefix reaching the '
            'threshold%s' % (coll, (': also `%s`' % text(extra[0])[:50])
                             if extra else ''),
            construct=short + ': marks outside the bulk loop')
        report.check(
            pos_mark < pos_test and pos_acc < pos_test, 'R-mark',
            short + ' loop order', fi.where(ml),
            'in the loop body the element is marked and its contribution '
            'accumulated before the bulk test (mark -> accumulate -> test '
            '-> break), so the element that reaches the threshold is '
            'included and nothing after it',
            construct=short + ': mark/accumulate/test order')
        body_ok = len(brk.body) == 1 and isinstance(
            brk.body[0], ast.Break) and not brk.orelse
        # threshold normal form  acc >= theta^2 * total
        C, TOT, TH = sp.symbols('C TOT TH', positive=True)
        totname = None
        t = brk.test
        ok_thr, strict, detail = False, None, ''
        if isinstance(t, ast.Compare) and len(t.ops) == 1:
            names = {n.id for n in ast.walk(t) if isinstance(n, ast.Name)}
            others = names - {acc, theta}
            if len(others) == 1:
                totname = others.pop()
                L = Lifter(None, {acc: C, totname: TOT, theta: TH})
                l, r = L.lift(t.left), L.lift(t.comparators[0])
                op = t.ops[0]
                if isinstance(op, (ast.GtE, ast.Gt)):
                    d, strict = l - r, isinstance(op, ast.Gt)
                elif isinstance(op, (ast.LtE, ast.Lt)):
                    d, strict = r - l, isinstance(op, ast.Lt)
                else:
                    d = None
                if d is not None:
                    # allow a positive common factor / square roots:
                    # d >= 0  <=>  C - TH^2 TOT >= 0
                    cand = [d, None]
                    ok_thr = sp.simplify(d - (C - TH**2 * TOT)) == 0
                    if not ok_thr:
                        # sqrt form: sqrt(C) >= TH*sqrt(TOT)
                        ok_thr = sp.simplify(
                            d - (sp.sqrt(C) - TH * sp.sqrt(TOT))) == 0
                    detail = 'normal form %s >= 0' % sp.simplify(d)
        report.check(
            ok_thr and strict is False and body_ok, 'R-mark',
            short + ' threshold', fi.where(brk),
            'the loop stops as soon as cumsum >= theta^2 * total '
            '(non-strict); found `%s` (%s, strict=%s)' %
            (text(t), detail, strict),
            construct=short + ': bulk threshold')
        # total = np.sum(<indicator parameter>) over the whole array
        tot_ok = False
        if totname:
            asg = _assignments(fn, totname)
            tot_ok = len(asg) == 1 and text(asg[0].value) in (
                'np.sum(%s)' % ind, '%s.sum()' % ind, 'sum(%s)' % ind)
        report.check(tot_ok, 'R-mark', short + ' total', fi.where(),
                     'the total is the sum of the whole indicator array '
                     '`%s` (both columns for the anisotropic marking)' % ind,
                     construct=short + ': total')
        # accumulator starts at zero
        asg = _assignments(fn, acc)
        init_ok = len(asg) == 1 and isinstance(
            asg[0].value, ast.Constant) and asg[0].value.value == 0 and \
            asg[0].lineno < ml.lineno
        report.check(init_ok, 'R-mark', short + ' accumulator init',
                     fi.where(), 'cumsum starts at 0',
                     construct=short + ': accumulator init')
        if not aniso:
            _mark_iso(report, fi, fn, ml, mark, accval, ind, short)
        else:
            _mark_aniso(report, fi, fn, ml, mark, accval, ind, short)
        # time pass first, then space pass (on the time halves)
        first = {}
        for n in ast.walk(fn):
            if isinstance(n, ast.For):
                for m in ast.walk(n):
                    rc = refine_call(m)
                    if rc is not None:
                        first.setdefault(rc[0], n.lineno)
        report.check(
            0 in first and 1 in first and first[0] < first[1], 'R-mark',
            short + ' pass order', fi.where(),
            'the marked time bisections (with their closure) are applied '
            'first, the space bisections afterwards on the time halves; '
            'loops at lines %s' % first,
            construct=short + ': time pass before space pass')


def _mark_iso(report, fi, fn, ml, mark, accval, ind, short):
    iv = ml.target.id if isinstance(ml.target, ast.Name) else None
    # order
    desc = None
    if isinstance(ml.iter, ast.Name):
        asg = _assignments(fn, ml.iter.id)
        if len(asg) == 1:
            desc = _descending_index(asg[0].value)
    else:
        desc = _descending_index(ml.iter)
    report.check(desc == ind, 'R-mark', short + ' descending order',
                 fi.where(ml),
                 'the loop visits indices in descending order of the '
                 'indicator `%s` (found order of `%s`)' % (ind, desc),
                 construct=short + ': descending order')
    # same index for element and contribution; elems is the leaf snapshot
    elems_ok = False
    a = mark.args[0]
    if isinstance(a, ast.Subscript) and text(a.slice) == iv and isinstance(
            a.value, ast.Name):
        asg = _assignments(fn, a.value.id)
        elems_ok = len(asg) == 1 and text(
            asg[0].value) == 'list(self.leaf_elements)'
    acc_ok = text(accval) == '%s[%s]' % (ind, iv)
    report.check(elems_ok and acc_ok, 'R-mark', short + ' index binding',
                 fi.where(ml),
                 'the marked element elems[i] and the accumulated '
                 'contribution %s[i] use the same index into the leaf '
                 'snapshot' % ind, construct=short + ': index binding')
    # flow: marked -> time loop, returned children -> space loop
    marked = text(mark.func.value)
    flows = _refine_flows(fn)
    al = _aliases(fn)
    t_ok = flows.get(marked) == 'time'
    child_lists = set()
    for k, v in flows.items():
        if v == 'space':
            child_lists.add(k)
            asg = _assignments(fn, k)
            if len(asg) == 1 and isinstance(asg[0].value, ast.Name):
                child_lists.add(asg[0].value.id)  # k = y, a plain alias
    s_ok = False
    for n in ast.walk(fn):
        if isinstance(n, ast.For) and _iter_base(n.iter) == marked:
            for m in ast.walk(n):
                if isinstance(m, ast.Call) and isinstance(
                        m.func, ast.Attribute) and m.func.attr == 'extend' \
                        and m.args and refine_call(m.args[0]) and \
                        text(m.func.value) in child_lists:
                    s_ok = True
    report.check(t_ok and s_ok, 'R-mark', short + ' axis flow', fi.where(),
                 'every marked element is bisected in time and every '
                 'returned time-child in space',
                 construct=short + ': axis flow')


def _iter_base(expr):
    """the list a loop header walks: `sorted(X, key=...)` and `list(X)`
    visit exactly the members of X (the visiting order is R-stale's
    business), anything else is taken as written"""
    while isinstance(expr, ast.Call) and text(expr.func) in (
            'sorted', 'list') and len(expr.args) == 1 and all(
                kw.arg in ('key', 'reverse') for kw in expr.keywords):
        expr = expr.args[0]
    return text(expr)


def _refine_flows(fn):
    flows = {}
    for n in ast.walk(fn):
        if isinstance(n, ast.For) and isinstance(n.target, ast.Name):
            for s in n.body:
                for m in ast.walk(s):
                    rc = refine_call(m)
                    if rc is not None and text(rc[1]) == n.target.id:
                        flows[_iter_base(n.iter)] = AXNAME[rc[0]]
    return flows


def _mark_aniso(report, fi, fn, ml, mark, accval, ind, short):
    if not (isinstance(ml.target, ast.Tuple) and len(ml.target.elts) == 3
            and isinstance(ml.iter, ast.Name)):
        raise AnalysisError('%s: anisotropic marking loop does not unpack '
                            '(value, element, axis)' % fi.where(ml))
    tv = [text(e) for e in ml.target.elts]
    lst = ml.iter.id
    # construction of the list: two comprehensions over zip(ind[:, k], elems)
    builds = []
    for n in ast.walk(fn):
        val = None
        if isinstance(n, ast.Assign) and text(n.targets[0]) == lst:
            val = n.value
        elif isinstance(n, ast.AugAssign) and text(n.target) == lst:
            val = n.value
        if val is not None:
            builds.append(val)
    tags = {}
    okb = len(builds) == 2
    pos_val = pos_elem = pos_ax = None
    for v in builds:
        if not (isinstance(v, ast.ListComp) and isinstance(
                v.elt, ast.Tuple) and len(v.elt.elts) == 3
                and len(v.generators) == 1):
            okb = False
            continue
        g = v.generators[0]
        if not (isinstance(g.iter, ast.Call) and text(g.iter.func) == 'zip'
                and len(g.iter.args) == 2 and isinstance(
                    g.target, ast.Tuple) and len(g.target.elts) == 2):
            okb = False
            continue
        gv = [text(e) for e in g.target.elts]
        col = None
        elist = None
        for tname, src in zip(gv, g.iter.args):
            st = text(src).replace(' ', '')
            if st.startswith(ind + '[:,') and st.endswith(']'):
                col = (tname, st[len(ind) + 3:-1])
            else:
                elist = (tname, text(src))
        if col is None or elist is None:
            okb = False
            continue
        elts = [text(e) for e in v.elt.elts]
        try:
            pv, pe = elts.index(col[0]), elts.index(elist[0])
        except ValueError:
            okb = False
            continue
        pa = ({0, 1, 2} - {pv, pe}).pop()
        tag = elts[pa]
        tags[col[1]] = tag
        if pos_val is None:
            pos_val, pos_elem, pos_ax = pv, pe, pa
        elif (pos_val, pos_elem, pos_ax) != (pv, pe, pa):
            okb = False
        asg = _assignments(fn, elist[1])
        if not (len(asg) == 1 and text(asg[0].value) ==
                'list(self.leaf_elements)'):
            okb = False
    report.check(
        okb and tags == {'0': '0', '1': '1'}, 'R-mark',
        short + ' axis tags', fi.where(),
        'the candidate list pairs column 0 of the indicators with axis tag '
        '0 (time) and column 1 with tag 1 (space), element by element of the '
        'leaf snapshot; found column->tag %s' % tags,
        construct=short + ': axis tags')
    if not okb:
        return
    # order: list.sort(reverse=True, key=lambda t: t[pos_val])
    desc = False
    for n in ast.walk(fn):
        if isinstance(n, ast.Call) and isinstance(
                n.func, ast.Attribute) and n.func.attr == 'sort' and text(
                    n.func.value) == lst:
            rev = any(kw.arg == 'reverse' and isinstance(
                kw.value, ast.Constant) and kw.value.value is True
                for kw in n.keywords)
            key = [kw.value for kw in n.keywords if kw.arg == 'key']
            kok = len(key) == 1 and isinstance(
                key[0], ast.Lambda) and isinstance(
                    key[0].body, ast.Subscript) and text(
                        key[0].body.slice) == str(pos_val) and text(
                            key[0].body.value) == key[0].args.args[0].arg
            desc = rev and kok and n.lineno < ml.lineno
    report.check(desc, 'R-mark', short + ' descending order', fi.where(ml),
                 'the candidates are sorted in descending order of their '
                 'value component before the loop',
                 construct=short + ': descending order')
    bind_ok = text(accval) == tv[pos_val] and text(
        mark.args[0]) == tv[pos_elem] and text(
            mark.func.value).replace(' ', '').endswith('[%s]' % tv[pos_ax])
    report.check(bind_ok, 'R-mark', short + ' index binding', fi.where(ml),
                 'the loop accumulates the value component, marks the '
                 'element component, into the list selected by the axis '
                 'component', construct=short + ': index binding')
    # flow: marked[0] -> time, marked[1] (re-resolved) -> space
    base = text(mark.func.value).split('[')[0]
    flows = _refine_flows(fn)
    al = _aliases(fn)
    got = {}
    for it, axn in flows.items():
        srcs = al.get(it, {it}) | {it}
        for s in srcs:
            if s.startswith(base + '['):
                got[s] = axn
    report.check(got == {base + '[0]': 'time', base + '[1]': 'space'},
                 'R-mark', short + ' axis flow', fi.where(),
                 'elements marked with tag 0 are refined in time, tag 1 in '
                 'space (after re-resolution through .children); found %s' %
                 got, construct=short + ': axis flow')


# --------------------------------------------------------------------------
# structural premises of the mesh invariants J1-J7 (C02, C10)
# --------------------------------------------------------------------------
OWNED = ('nbr_edge', 'elem', 'children', 'parent', 'levels', 'glob_idx',
         'leaf_elements', 'N_elements', 'vertices', 'roots', 'on_boundary',
         'glued')
MUTATORS = ('append', 'pop', 'setdefault', 'extend', 'remove', 'update',
            'clear', 'add', 'insert', 'popitem', 'discard', 'sort',
            'reverse', 'move_to_end')
MESH_WRITERS = {
    'Vertex.__init__', 'Edge.__init__', 'Edge.bisect', 'Element.__init__',
    'Mesh.__init__', 'Mesh.__bisect_edge', 'Mesh.__create_edges',
    'Mesh.refine_axis'
}
GAMMA_WRITERS = {(M, 'Element.__init__'), (M, 'MeshParametrized.__init__'),
                 ('src/hierarchical_error_estimator.py',
                  'DummyElement.__init__')}
# files with their own element/vertex classes (self-writes in constructors
# and in InitialMesh are their own business)
OWN_CLASSES = {'src/initial_mesh.py', 'src/hierarchical_error_estimator.py',
               'src/parametrization.py', 'src/quadrature.py'}


def _writes(fnode):
    """(attr, receiver text, node, kind) for attribute stores and mutating
    calls in a function's own code."""
    from .flow import own_nodes
    for n in own_nodes(fnode):
        tgts = []
        if isinstance(n, ast.Assign):
            tgts = n.targets
        elif isinstance(n, (ast.AugAssign, ast.AnnAssign)):
            tgts = [n.target]
        for t in tgts:
            for tt in (t.elts if isinstance(t, (ast.Tuple, ast.List)) else
                       [t]):
                if isinstance(tt, ast.Attribute):
                    yield tt.attr, text(tt.value), n, 'store'
                elif isinstance(tt, ast.Subscript) and isinstance(
                        tt.value, ast.Attribute):
                    yield tt.value.attr, text(tt.value.value), n, 'item'
        if isinstance(n, ast.Call) and isinstance(
                n.func, ast.Attribute) and n.func.attr in MUTATORS and \
                isinstance(n.func.value, ast.Attribute):
            yield n.func.value.attr, text(n.func.value.value), n, 'call'
        if isinstance(n, ast.Delete):
            for t in n.targets:
                if isinstance(t, ast.Attribute):
                    yield t.attr, text(t.value), n, 'del'


def check_ownership(prog, report):
    n_sites = 0
    for fi in prog.all_funcs():
        if isinstance(fi.node, ast.Lambda):
            continue
        top = fi
        while top.parent is not None:
            top = top.parent
        for attr, recv, node, kind in _writes(fi.node):
            if attr == 'gamma_space':
                ok = (fi.file, top.qualname) in GAMMA_WRITERS or (
                    recv == 'self' and fi.file != M)
                n_sites += 1
                report.check(
                    ok, 'R-own', '%s writes .gamma_space' % fi.qualname,
                    fi.where(node),
                    'the piece of an element is written only in '
                    'Element.__init__ (inherit), MeshParametrized.__init__ '
                    '(roots) and DummyElement.__init__',
                    construct='%s: write of gamma_space' % fi.qualname)
                continue
            if attr not in OWNED:
                continue
            if fi.file == M:
                ok = top.qualname in MESH_WRITERS
            elif fi.file in OWN_CLASSES:
                ok = True if recv == 'self' or fi.cls is not None else False
            else:
                ok = False
            n_sites += 1
            report.check(
                ok, 'R-own', '%s writes .%s' % (fi.qualname, attr),
                fi.where(node),
                'mesh state (%s) is written only by Edge.__init__, '
                'Edge.bisect, Element.__init__, Mesh.__init__, '
                'Mesh.__bisect_edge, Mesh.__create_edges and '
                'Mesh.refine_axis -- the frame of the inductive invariant; '
                'found `%s`' % (attr, text(node)[:60]),
                construct='%s: write of %s' % (fi.qualname, attr))
    report.floor('R-own', 25)
    return n_sites


def _block_stmts(fnode):
    """Every statement list (block) in the function."""
    for n in ast.walk(fnode):
        for fld in ('body', 'orelse', 'finalbody'):
            b = getattr(n, fld, None)
            if isinstance(b, list) and b and isinstance(b[0], ast.stmt):
                yield b


def check_pairing(prog, report):
    """R-pair: X.nbr_edge = Y  <=>  Y.nbr_edge = X in the same block."""
    n = 0
    for q in ('Edge.bisect', 'Mesh.__init__', 'Mesh.__create_edges',
              'Mesh.refine_axis', 'Mesh.__bisect_edge', 'Edge.__init__'):
        fi = prog.func(M, q)
        for block in _block_stmts(fi.node):
            stores = []
            for st in block:
                if isinstance(st, ast.Assign) and len(
                        st.targets) == 1 and isinstance(
                            st.targets[0], ast.Attribute) and \
                        st.targets[0].attr == 'nbr_edge':
                    if isinstance(st.value, ast.Constant) and \
                            st.value.value is None:
                        continue
                    stores.append((text(st.targets[0].value),
                                   text(st.value), st))
            have = {(a, b) for a, b, _ in stores}
            for a, b, st in stores:
                n += 1
                report.check(
                    (b, a) in have, 'R-pair',
                    '%s `%s.nbr_edge = %s`' % (q, a[:30], b[:30]),
                    fi.where(st),
                    'the twin relation is written symmetrically: the same '
                    'block must contain `%s.nbr_edge = %s`' % (b, a),
                    construct='%s: unpaired nbr_edge store' % q)
    report.floor('R-pair', 12)


def check_cross(prog, report):
    """R-cross + child construction of Edge.bisect."""
    fi = prog.func(M, 'Edge.bisect')
    params = fi.params
    cv = params[1] if len(params) > 1 else None
    # children = (Edge((a, m), self), Edge((m, b), self)), a, b = vertices
    okc = False
    for n in ast.walk(fi.node):
        if isinstance(n, ast.Assign) and text(
                n.targets[0]) == 'self.children' and isinstance(
                    n.value, ast.Tuple) and len(n.value.elts) == 2:
            e = [text(x).replace(' ', '') for x in n.value.elts]
            okc = e in ([
                'Edge((a,%s),self)' % cv, 'Edge((%s,b),self)' % cv
            ], ['Edge((a,%s),parent=self)' % cv,
                'Edge((%s,b),parent=self)' % cv],
                        ['Edge(vertices=(a,%s),parent=self)' % cv,
                         'Edge(vertices=(%s,b),parent=self)' % cv])
            loc = n
    unpack = any(isinstance(n, ast.Assign) and text(n.targets[0]) == '(a, b)'
                 and text(n.value) == 'self.vertices'
                 for n in ast.walk(fi.node))
    report.check(okc and unpack, 'R-cross', 'Edge.bisect halves', fi.where(),
                 'an edge (a,b) is bisected into child 0 = (a,m) and child 1 '
                 '= (m,b), both with parent=self',
                 construct='Edge.bisect: halves')
    cnt = 0
    for n in ast.walk(fi.node):
        if isinstance(n, ast.Assign) and isinstance(
                n.targets[0], ast.Attribute) and n.targets[0].attr == \
                'nbr_edge':
            l, r = text(n.targets[0].value), text(n.value)
            def idx(s):
                if s.endswith('children[0]'):
                    return 0
                if s.endswith('children[1]'):
                    return 1
                return None
            i, j = idx(l), idx(r)
            sides = {l.startswith('self.nbr_edge.'),
                     r.startswith('self.nbr_edge.')}
            cnt += 1
            report.check(
                i is not None and j is not None and i + j == 1
                and sides == {True, False}, 'R-cross',
                'Edge.bisect `%s.nbr_edge = %s`' % (l, r), fi.where(n),
                'the twin of (a,b) is (b,a): half i of an edge is the twin '
                'of half 1-i of its twin edge',
                construct='Edge.bisect: cross link')
    # guard: only when the twin exists and is bisected
    report.check(cnt == 4, 'R-cross', 'Edge.bisect four links', fi.where(),
                 'both halves of both edges are linked (4 stores, found %d)'
                 % cnt, construct='Edge.bisect: number of cross links')
    report.floor('R-cross', 4)


def check_inherit(prog, report):
    from .absint import Walker, State

    class W(Walker):
        def __init__(s):
            super().__init__()
            s.stores = []

        def on_stmt(s, st, state):
            if isinstance(st, ast.Assign) and isinstance(
                    st.targets[0], ast.Attribute) and text(
                        st.targets[0].value) == 'self':
                s.stores.append((st.targets[0].attr, text(st.value),
                                 state.copy(), st))

    fi = prog.func(M, 'Edge.__init__')
    w = W()
    w.walk_function(fi.node)
    for attr in ('on_boundary', 'glued'):
        got = {}
        for a, v, state, st in w.stores:
            if a == attr:
                if state.entails_bool('parent', True):
                    got['child'] = v
                elif state.entails_bool('parent', False):
                    got['root'] = v
        report.check(
            got == {'child': 'parent.' + attr, 'root': 'False'}, 'R-inherit',
            'Edge.__init__ .%s' % attr, fi.where(),
            'a half-edge copies %s from its parent edge; a parentless edge '
            'starts with False (found %s)' % (attr, got),
            construct='Edge.__init__: inherit %s' % attr)
    fi = prog.func(M, 'Element.__init__')
    w = W()
    w.walk_function(fi.node)
    got = {}
    for a, v, state, st in w.stores:
        if a == 'gamma_space':
            if state.entails_bool('parent', True):
                got['child'] = v
            elif state.entails_bool('parent', False):
                got['root'] = v
    report.check(got == {'child': 'parent.gamma_space', 'root': 'None'},
                 'R-inherit', 'Element.__init__ .gamma_space', fi.where(),
                 'a child element sits on its parent\'s piece (found %s)' %
                 got, construct='Element.__init__: inherit gamma_space')
    # children of fresh interior edges: created without parent
    fi = prog.func(M, 'Mesh.__create_edges')
    calls = [n for n in ast.walk(fi.node) if isinstance(n, ast.Call)
             and text(n.func) == 'Edge']
    okp = len(calls) == 2 and all(
        any(kw.arg == 'parent' and text(kw.value) == 'None'
            for kw in c.keywords) or len(c.args) + len(c.keywords) == 1
        for c in calls)
    vs = sorted(text(kw.value if c.keywords and c.keywords[0].arg ==
                     'vertices' else c.args[0]).replace(' ', '')
                for c in calls for kw in (c.keywords[:1] or [None]))
    p = fi.params[1] if len(fi.params) > 1 else 'vertices'
    okv = vs == sorted(['(%s[0],%s[1])' % (p, p), '(%s[1],%s[0])' % (p, p)])
    report.check(okp and okv, 'R-inherit', 'Mesh.__create_edges',
                 fi.where(),
                 'the interior edge pair is (n0,n1) and (n1,n0), both '
                 'without parent (hence not on the boundary, not glued)',
                 construct='Mesh.__create_edges: fresh twins')
    report.floor('R-inherit', 4)


# geometry of one element: V0..V3 corners, M0..M3 edge midpoints
def _coords():
    t0, tm, t1, x0, xm, x1 = 0, 1, 2, 0, 1, 2  # ordinal positions
    V = {'V0': (t0, x0), 'V1': (t0, x1), 'V2': (t1, x1), 'V3': (t1, x0),
         'M0': (t0, xm), 'M1': (tm, x1), 'M2': (t1, xm), 'M3': (tm, x0)}
    return V


def _edge_expr(node, ax, enames):
    """Symbolic directed edge (tail, head, object id) of an expression in a
    child constructor of refine_axis."""
    s = text(node).replace(' ', '')
    import re
    m = re.fullmatch(r'edges\[(\d)\]', s)
    if m:
        i = int(m.group(1))
        return ('V%d' % i, 'V%d' % ((i + 1) % 4), 'edge%d' % i, i, None)
    m = re.fullmatch(r'edges\[(\d)\]\.children\[(\d)\]', s)
    if m:
        i, j = int(m.group(1)), int(m.group(2))
        if j == 0:
            return ('V%d' % i, 'M%d' % i, 'edge%d.child0' % i, i, j)
        return ('M%d' % i, 'V%d' % ((i + 1) % 4), 'edge%d.child1' % i, i, j)
    if s in enames:
        n0, n1 = 'M%d' % (1 - ax), 'M%d' % (3 - ax)
        if enames[s] == 0:
            return (n0, n1, 'new0', None, None)
        return (n1, n0, 'new1', None, None)
    return None


def check_children(prog, report):
    fi = prog.func(M, 'Mesh.refine_axis')
    fn = fi.node
    # edges_axis(ax) = (edges[1-ax], edges[3-ax])
    ea = prog.func(M, 'Element.edges_axis')
    ret = [n for n in ast.walk(ea.node) if isinstance(n, ast.Return)]
    ok_ea = len(ret) == 1 and text(ret[0].value).replace(' ', '') == \
        '(self.edges[1-ax],self.edges[3-ax])'
    report.check(ok_ea, 'R-children', 'Element.edges_axis', ea.where(),
                 'edges_axis(ax) = (edges[1-ax], edges[3-ax]): the two edges '
                 'a bisection in axis ax cuts, in this order',
                 construct='Element.edges_axis')
    # new_vertices in the order of edges_axis; e1, e2 = create_edges(new)
    order_ok = False
    for n in ast.walk(fn):
        if isinstance(n, ast.For) and text(n.iter).replace(
                ' ', '') == 'elem.edges_axis(ax)':
            order_ok = any(
                isinstance(m, ast.Call) and text(m.func) ==
                'new_vertices.append' and 'bisect_edge(%s)' % text(n.target)
                in text(m.args[0]) for m in ast.walk(n))
    enames = {}
    for n in ast.walk(fn):
        if isinstance(n, ast.Assign) and isinstance(
                n.targets[0], ast.Tuple) and isinstance(
                    n.value, ast.Call) and 'create_edges' in text(
                        n.value.func) and text(
                            n.value.args[0]) == 'new_vertices':
            for k, e in enumerate(n.targets[0].elts):
                enames[text(e)] = k
    report.check(order_ok and len(enames) == 2, 'R-children',
                 'refine_axis new vertices', fi.where(),
                 'the two cut edges are bisected in edges_axis order and the '
                 'interior edge pair joins the two midpoints',
                 construct='refine_axis: new vertices / interior edges')
    alias_ok = any(isinstance(n, ast.Assign) and text(n.targets[0]) ==
                   'edges' and text(n.value) == 'elem.edges'
                   for n in ast.walk(fn))
    if not alias_ok:
        raise AnalysisError('%s: `edges = elem.edges` alias not found' %
                            fi.where())
    # branches: if ax == 0: ... else: ...
    br = None
    for n in fn.body:
        if isinstance(n, ast.If) and text(n.test).replace(' ', '') in (
                'ax==0', '0==ax', 'ax==1', '1==ax'):
            br = n
    if br is None:
        raise AnalysisError('%s: axis branch not found' % fi.where())
    first_ax = 0 if '0' in text(br.test) else 1
    V = _coords()
    for ax, body in ((first_ax, br.body), (1 - first_ax, br.orelse)):
        ctors = []
        for st in body:
            if isinstance(st, ast.Assign) and isinstance(
                    st.value, ast.Call) and text(st.value.func) == 'Element':
                ctors.append((text(st.targets[0]), st.value, st))
        if len(ctors) != 2:
            raise AnalysisError('%s: two child constructors expected in the '
                                '%s branch' % (fi.where(), AXNAME[ax]))
        used = []
        rects = []
        for name, call, st in ctors:
            kw = {k.arg: k.value for k in call.keywords}
            tag = 'refine_axis[%s] %s' % (AXNAME[ax], name)
            ed = kw.get('edges')
            if not isinstance(ed, (ast.Tuple, ast.List)) or len(
                    ed.elts) != 4:
                raise AnalysisError('%s: edges tuple not recognised' %
                                    fi.where(st))
            es = [_edge_expr(e, ax, enames) for e in ed.elts]
            if any(e is None for e in es):
                raise AnalysisError('%s: edge expression not recognised' %
                                    fi.where(st))
            # halves exist only on the cut edges
            cut = {1 - ax, 3 - ax}
            halves_ok = all((e[4] is None) or (e[3] in cut) for e in es) \
                and all(not (e[3] in cut and e[4] is None and e[3]
                             is not None) for e in es)
            chain = all(es[i - 1][1] == es[i][0] for i in range(4))
            v = [V[e[0]] for e in es]
            asserts = (v[0][0] == v[1][0] and v[1][1] == v[2][1]
                       and v[2][0] == v[3][0] and v[3][1] == v[0][1]
                       and v[0][0] < v[2][0] and v[0][1] < v[1][1])
            report.check(
                halves_ok and chain and asserts, 'R-children',
                tag + ' edges', fi.where(st),
                'the four edges chain head to tail around a rectangle in '
                'the order bottom, right, top, left (the orientation '
                'Element.__init__ asserts); halves are taken only from the '
                'two cut edges; got %s' % [(e[0], e[1]) for e in es],
                construct='refine_axis[%s]: child edges' % AXNAME[ax])
            used += [e[2] for e in es]
            rects.append((v[0][0], v[2][0], v[0][1], v[1][1]))
            lv = kw.get('levels')
            want = ['elem.level_time', 'elem.level_space']
            want[ax] = want[ax] + '+1'
            got = [text(x).replace(' ', '') for x in lv.elts] if isinstance(
                lv, ast.Tuple) else None
            alt = ['elem.levels[0]', 'elem.levels[1]']
            alt[ax] = alt[ax] + '+1'
            report.check(
                got in (want, alt) and text(kw.get('parent')) == 'elem',
                'R-children', tag + ' levels/parent', fi.where(st),
                'the child is one level deeper in exactly the refined axis '
                'and its parent is the bisected element; got levels=%s' %
                got, construct='refine_axis[%s]: child levels' % AXNAME[ax])
        uncut = sorted({0, 1, 2, 3} - {1 - ax, 3 - ax})
        avail = sorted(['edge%d' % i for i in uncut] +
                       ['edge%d.child%d' % (i, j)
                        for i in (1 - ax, 3 - ax) for j in (0, 1)] +
                       ['new0', 'new1'])
        report.check(
            sorted(used) == avail, 'R-children',
            'refine_axis[%s] edge objects used once' % AXNAME[ax],
            fi.where(br),
            'each of the eight available edge objects (2 uncut, 4 halves, 2 '
            'interior) is owned by exactly one child; used %s' % sorted(used),
            construct='refine_axis[%s]: edge objects' % AXNAME[ax])
        # tiling: the two rectangles split the parent along axis ax
        full = (0, 2, 0, 2)
        r1, r2 = sorted(rects)
        if ax == 0:
            tile = (r1 == (0, 1, 0, 2) and r2 == (1, 2, 0, 2))
        else:
            tile = (r1 == (0, 2, 0, 1) and r2 == (0, 2, 1, 2))
        report.check(tile, 'R-children',
                     'refine_axis[%s] children tile the parent' % AXNAME[ax],
                     fi.where(br),
                     'the two children are the two halves of the parent '
                     'rectangle in the refined axis; got %s' % rects,
                     construct='refine_axis[%s]: tiling' % AXNAME[ax])
    report.floor('R-children', 12)


def check_leafbook(prog, report):
    fi = prog.func(M, 'Mesh.refine_axis')
    fn = fi.node
    body = fn.body
    txt = [text(s).replace(' ', '') for s in body]
    def has(s):
        return any(t == s for t in txt)
    pops = has('self.leaf_elements.pop(elem)')
    adds = [t for t in txt if t.startswith('self.leaf_elements.setdefault(')
            or t.startswith('self.leaf_elements[')]
    ch = [s for s in body if isinstance(s, ast.Assign) and text(
        s.targets[0]) == 'elem.children']
    kids = None
    if len(ch) == 1 and isinstance(ch[0].value, (ast.Tuple, ast.List)):
        kids = [text(e) for e in ch[0].value.elts]
    added = sorted(a[a.index('(') + 1:-1] for a in adds if '(' in a)
    report.check(
        pops and kids is not None and len(kids) == 2
        and added == sorted(kids), 'R-leafbook', 'refine_axis leaf set',
        fi.where(),
        'the bisected element leaves the leaf collection and exactly its '
        'two children enter it; elem.children is set to the same pair '
        '(children %s, added %s, removed parent: %s)' % (kids, added, pops),
        construct='refine_axis: leaf bookkeeping')
    # global indices
    offs = {}
    inc = None
    for s in body:
        if isinstance(s, ast.Assign) and isinstance(
                s.targets[0], ast.Attribute) and s.targets[0].attr == \
                'glob_idx':
            v = text(s.value).replace(' ', '')
            if v == 'self.N_elements':
                offs[text(s.targets[0].value)] = 0
            elif v.startswith('self.N_elements+'):
                try:
                    offs[text(s.targets[0].value)] = int(v.split('+')[1])
                except ValueError:
                    offs[text(s.targets[0].value)] = None
            else:
                offs[text(s.targets[0].value)] = None
        if isinstance(s, ast.AugAssign) and text(
                s.target) == 'self.N_elements' and isinstance(
                    s.op, ast.Add) and isinstance(s.value, ast.Constant):
            inc = s.value.value
    vals = sorted(v for v in offs.values() if v is not None)
    report.check(
        kids is not None and sorted(offs) == sorted(kids)
        and vals == list(range(len(kids))) and inc == len(kids),
        'R-leafbook', 'refine_axis global indices', fi.where(),
        'the children receive the distinct indices N, N+1 and the counter '
        'advances by exactly the number assigned (offsets %s, increment %s)'
        % (offs, inc), construct='refine_axis: global indices')
    # the parent's edges are released before the children claim them
    rel = False
    for s in body:
        if isinstance(s, ast.For) and text(s.iter) == 'elem.edges':
            if any(text(m).replace(' ', '') == '%s.elem=None' % text(
                    s.target) for m in s.body):
                rel = True
    report.check(rel, 'R-leafbook', 'refine_axis releases edges', fi.where(),
                 'all four edges of the parent are released (edge.elem = '
                 'None) so that every edge object is owned by one element',
                 construct='refine_axis: edge release')
    report.floor('R-leafbook', 3)


def check_closure(prog, report):
    fi = prog.func(M, 'Mesh.refine_axis')
    fn = fi.node
    params = fi.params
    if len(params) < 3:
        raise AnalysisError('%s: signature changed' % fi.where())
    el, ax = params[1], params[2]
    report.check(len(params) == 3, 'R-closure', 'refine_axis signature',
                 fi.where(),
                 'refine_axis(elem, ax) has no switch that could disable '
                 'the conformity closure (parameters: %s)' % params[1:],
                 construct='refine_axis: extra parameters')
    # first non-assert statement must be the closure loop
    first = [s for s in fn.body if not isinstance(s, ast.Assert) and not (
        isinstance(s, ast.Expr) and isinstance(s.value, ast.Constant))]
    cl = first[0] if first else None
    ok_outer = isinstance(cl, ast.For) and text(cl.iter) == el + '.edges'
    inner = None
    if ok_outer:
        for s in cl.body:
            if isinstance(s, ast.For) and text(s.iter).replace(
                    ' ', '') == '%s.neighbour_elements()' % text(cl.target):
                inner = s
    report.check(ok_outer and inner is not None, 'R-closure',
                 'refine_axis closure scope', fi.where(cl or fn),
                 'before the first mutation, a loop over all four edges of '
                 'the element and all neighbours across each',
                 construct='refine_axis: closure scope')
    if inner is None:
        return
    extra = [s for s in cl.body if s is not inner] + [
        m for m in ast.walk(cl)
        if isinstance(m, (ast.Break, ast.Continue, ast.Return))]
    if extra:
        raise AnalysisError(
            '%s: the closure loop has an early exit / extra statement '
            '(`%s`); whether it only fires when no coarser neighbour can '
            'exist rests on an invariant this analysis does not establish' %
            (fi.where(extra[0]), text(extra[0])[:60].replace('\n', ' ')))
    nb = text(inner.target)
    iff = [s for s in inner.body if isinstance(s, ast.If)]
    okc = False
    okr = False
    if len(iff) == 1 and len(inner.body) == 1:
        from .absint import cond_dnf, fact_key
        want = cond_dnf(ast.parse('%s.levels[%s] < %s.levels[%s]' %
                                  (nb, ax, el, ax), mode='eval').body, {})
        got = cond_dnf(iff[0].test, {})
        alt = None
        okc = [sorted(map(fact_key, c)) for c in got] == \
            [sorted(map(fact_key, c)) for c in want]
        calls = [s for s in iff[0].body if isinstance(s, ast.Expr)
                 and isinstance(s.value, ast.Call)]
        okr = len(calls) == 1 and text(calls[0].value).replace(
            ' ', '') == 'self.refine_axis(%s,%s)' % (nb, ax) and \
            not iff[0].orelse
    report.check(okc, 'R-closure', 'refine_axis closure test',
                 fi.where(inner),
                 'a neighbour is bisected first iff its level in the same '
                 'axis is strictly lower than the element\'s '
                 '(nbr.levels[ax] < elem.levels[ax])',
                 construct='refine_axis: closure test')
    report.check(okr, 'R-closure', 'refine_axis closure recursion',
                 fi.where(inner),
                 'the recursion bisects that neighbour in the same axis',
                 construct='refine_axis: closure recursion')
    report.floor('R-closure', 4)


def check_vreuse(prog, report):
    from .absint import cond_dnf, fact_key
    fi = prog.func(M, 'Mesh.__bisect_edge')
    fn = fi.node
    e = fi.params[1]
    iff = [s for s in fn.body if isinstance(s, ast.If)]
    if len(iff) != 1:
        raise AnalysisError('%s: reuse branch not found' % fi.where())
    iff = iff[0]
    got = cond_dnf(iff.test, {})
    want = cond_dnf(ast.parse(
        'not {0}.glued and {0}.nbr_edge and {0}.nbr_edge.children'.format(e),
        mode='eval').body, {})
    norm = lambda d: sorted(sorted(map(fact_key, c)) for c in d)
    report.check(norm(got) == norm(want), 'R-vreuse', '__bisect_edge reuse '
                 'condition', fi.where(iff),
                 'the midpoint is reused iff the edge is not glued and its '
                 'twin exists and is already bisected (a glued twin lies on '
                 'the other copy of the seam and has its own vertex)',
                 construct='__bisect_edge: reuse condition')
    reuse = [s for s in iff.body if isinstance(s, ast.Assign)]
    okr = len(reuse) == 1 and text(reuse[0].value).replace(' ', '') in (
        '%s.nbr_edge.children[0].vertices[1]' % e,
        '%s.nbr_edge.children[1].vertices[0]' % e)
    report.check(okr, 'R-vreuse', '__bisect_edge reused vertex',
                 fi.where(iff),
                 'the reused vertex is the twin\'s midpoint (head of its '
                 'first half = tail of its second half)',
                 construct='__bisect_edge: reused vertex')
    # fresh vertex: midpoint, idx = len(vertices), appended
    new = None
    for s in iff.orelse:
        if isinstance(s, ast.Assign) and isinstance(
                s.value, ast.Call) and text(s.value.func) == 'Vertex':
            new = s
    okn = False
    if new is not None:
        kw = {k.arg: text(k.value).replace(' ', '') for k in
              new.value.keywords}
        okn = kw.get('t') == '(a.t+b.t)/2' and kw.get(
            'x') == '(a.x+b.x)/2' and kw.get('idx') == 'len(self.vertices)'
        app = [text(s).replace(' ', '') for s in iff.orelse]
        okn = okn and 'self.vertices.append(%s)' % text(
            new.targets[0]) in app and any(
                text(s.targets[0]).replace(' ', '') == '(a,b)' and text(
                    s.value) == e + '.vertices' for s in iff.orelse
                if isinstance(s, ast.Assign))
    report.check(okn, 'R-vreuse', '__bisect_edge fresh vertex',
                 fi.where(iff),
                 'a fresh vertex is the midpoint of the edge, gets idx = '
                 'len(vertices) and is appended at once',
                 construct='__bisect_edge: fresh vertex')
    bis = any(text(s).replace(' ', '') == '%s.bisect(child_vertex)' % e
              for s in fn.body)
    report.check(bis, 'R-vreuse', '__bisect_edge bisects', fi.where(),
                 'the edge is bisected with that vertex',
                 construct='__bisect_edge: bisect call')
    report.floor('R-vreuse', 4)


def check_ladder(prog, report):
    from .absint import Walker

    class W(Walker):
        split_paths = True

        def __init__(s):
            super().__init__()
            s.rets = []

        def on_return(s, st, state):
            s.rets.append((text(st.value).replace(' ', ''), state.copy(),
                           st))

    fi = prog.func(M, 'Edge.neighbour_elements')
    w = W()
    w.walk_function(fi.node)
    cases = {
        'own twin unrefined':
        (lambda v: v == '[self.nbr_edge.elem]',
         {'self.nbr_edge': True, 'self.nbr_edge.children': False}),
        'twin refined':
        (lambda v: v in
         ('[child.elemforchildinself.nbr_edge.children]',
          '[self.nbr_edge.children[0].elem,self.nbr_edge.children[1].elem]'),
         {'self.nbr_edge': True, 'self.nbr_edge.children': True}),
        'no twin, parent has':
        (lambda v: v == 'self.parent.neighbour_elements()',
         {'self.nbr_edge': False, 'self.parent': True,
          'self.parent.nbr_edge': True}),
        'boundary':
        (lambda v: v == '[]',
         {'self.on_boundary': True, 'self.glued': False}),
    }
    seen = set()
    for val, state, st in w.rets:
        matched = None
        for name, (pred, need) in cases.items():
            if pred(val):
                matched = name
                ok = all(state.entails_bool(k, b) for k, b in need.items())
                seen.add(name)
                report.check(
                    ok, 'R-ladder', 'neighbour_elements: ' + name,
                    fi.where(st),
                    'this answer is given exactly under %s; path facts: %s' %
                    (need, state.facts_text()[:160]),
                    construct='neighbour_elements: ' + name)
        if matched is None:
            report.violation(
                'R-ladder', 'neighbour_elements: unknown answer `%s`' %
                val[:40], fi.where(st),
                'not one of the four answers of the lookup ladder',
                construct='neighbour_elements: unknown answer')
    report.check(seen == set(cases), 'R-ladder',
                 'neighbour_elements: all four cases', fi.where(),
                 'own twin unrefined / twin refined / parent\'s answer / '
                 'boundary; found %s' % sorted(seen),
                 construct='neighbour_elements: cases')
    report.floor('R-ladder', 5)


def _inline_read_temps(fn):
    """Copy of fn in which a local bound once to a call-free read expression
    (`elem = roots[-1]`) is replaced by that expression where it is used,
    provided nothing between the binding and the last use can change what
    the expression reads: no call, no store to a name or attribute it
    mentions, no subscript store."""
    import copy
    from .normalise import _Subst
    fn = copy.deepcopy(fn)
    READ = (ast.Name, ast.Attribute, ast.Subscript, ast.Constant, ast.BinOp,
            ast.UnaryOp, ast.Load, ast.operator, ast.unaryop, ast.Tuple,
            ast.Slice)
    for _ in range(12):
        stores = {}
        for n in ast.walk(fn):
            if isinstance(n, ast.Name) and isinstance(n.ctx, ast.Store):
                stores[n.id] = stores.get(n.id, 0) + 1
        hit = False
        for parent in ast.walk(fn):
            for f in ('body', 'orelse'):
                blk = getattr(parent, f, None)
                if not (isinstance(blk, list) and blk and isinstance(
                        blk[0], ast.stmt)):
                    continue
                for k, st in enumerate(blk):
                    if not (isinstance(st, ast.Assign) and len(
                            st.targets) == 1 and isinstance(
                                st.targets[0], ast.Name) and stores.get(
                                    st.targets[0].id) == 1 and all(
                                        isinstance(x, READ)
                                        for x in ast.walk(st.value))
                            and not isinstance(st.value, ast.Constant)):
                        continue
                    name = st.targets[0].id
                    rest = blk[k + 1:]
                    loads_rest = sum(
                        1 for r in rest for x in ast.walk(r)
                        if isinstance(x, ast.Name) and x.id == name)
                    loads_all = sum(
                        1 for x in ast.walk(fn)
                        if isinstance(x, ast.Name) and x.id == name
                        and isinstance(x.ctx, ast.Load))
                    if loads_rest != loads_all or not loads_all:
                        continue
                    enames = {x.id for x in ast.walk(st.value)
                              if isinstance(x, ast.Name)}
                    eattrs = {x.attr for x in ast.walk(st.value)
                              if isinstance(x, ast.Attribute)}
                    safe = True
                    for r in rest:
                        for x in ast.walk(r):
                            if isinstance(x, ast.Call):
                                safe = False
                            if isinstance(x, ast.Name) and isinstance(
                                    x.ctx, (ast.Store, ast.Del)) and \
                                    x.id in enames:
                                safe = False
                            if isinstance(x, ast.Attribute) and isinstance(
                                    x.ctx, (ast.Store, ast.Del)) and \
                                    x.attr in eattrs:
                                safe = False
                            if isinstance(x, ast.Subscript) and isinstance(
                                    x.ctx, (ast.Store, ast.Del)):
                                safe = False
                    if not safe:
                        continue
                    mod = ast.Module(body=rest, type_ignores=[])
                    _Subst({name: st.value}).visit(mod)
                    blk[k:] = mod.body
                    hit = True
                    break
                if hit:
                    break
            if hit:
                break
        if not hit:
            break
    return fn


def check_initial_wiring(prog, report):
    """Mesh.__init__: vertex index arithmetic, boundary flags, glue."""
    fi = prog.func(M, 'Mesh.__init__')
    fn = fi.node
    src = {text(s).replace(' ', '') for s in ast.walk(fn)
           if isinstance(s, ast.stmt)}
    # the same statements with read-only temporaries written out
    fn_t = _inline_read_temps(fn)
    src |= {text(s).replace(' ', '') for s in ast.walk(fn_t)
            if isinstance(s, ast.stmt)}
    n = 'len(initial_space_mesh)'
    want_v = {
        'v0=vertices[j*%s+i]' % n, 'v1=vertices[j*%s+i+1]' % n,
        'v2=vertices[(j+1)*%s+i+1]' % n, 'v3=vertices[(j+1)*%s+i]' % n
    }
    report.check(want_v <= src, 'R-wiring', 'Mesh.__init__ root corners',
                 fi.where(),
                 'root (j,i) takes the grid vertices (t_j,x_i), (t_j,x_i+1), '
                 '(t_j+1,x_i+1), (t_j+1,x_i) in this order',
                 construct='Mesh.__init__: root corners')
    want_e = {'e1=Edge(vertices=(v0,v1))', 'e2=Edge(vertices=(v1,v2))',
              'e3=Edge(vertices=(v2,v3))', 'e4=Edge(vertices=(v3,v0))'}
    el = any('Element(edges=[e1,e2,e3,e4],levels=(0,0))' in s for s in src)
    report.check(want_e <= src and el, 'R-wiring', 'Mesh.__init__ root edges',
                 fi.where(), 'bottom, right, top, left edges in this order',
                 construct='Mesh.__init__: root edges')
    flags = {'ifj==0:e1.on_boundary=True', 'ifi+1==N_x:e2.on_boundary=True',
             'ifi==0:e4.on_boundary=True', 'ifj+1==N_t:e3.on_boundary=True'}
    got = {s.replace('\n', '').replace(' ', '') for s in src}
    report.check(flags <= got, 'R-wiring', 'Mesh.__init__ boundary flags',
                 fi.where(),
                 'bottom edge of the first slab, top edge of the last slab, '
                 'left edge of the first and right edge of the last column '
                 'are flagged as boundary',
                 construct='Mesh.__init__: boundary flags')
    sizes = {'N_t=len(initial_time_mesh)-1', 'N_x=len(initial_space_mesh)-1'}
    report.check(sizes <= src, 'R-wiring', 'Mesh.__init__ sizes', fi.where(),
                 'N_t, N_x are the numbers of intervals',
                 construct='Mesh.__init__: sizes')
    space = {'roots[-2].edges[1].nbr_edge=roots[-1].edges[3]',
             'roots[-1].edges[3].nbr_edge=roots[-2].edges[1]'}
    time_ = {'roots[(j-1)*N_x+i].edges[2].nbr_edge=roots[-1].edges[0]',
             'roots[-1].edges[0].nbr_edge=roots[(j-1)*N_x+i].edges[2]'}
    report.check(space <= src and time_ <= src, 'R-wiring',
                 'Mesh.__init__ interior twins', fi.where(),
                 'right edge of the left neighbour <-> left edge; top edge '
                 'of the lower neighbour <-> bottom edge',
                 construct='Mesh.__init__: interior twins')
    glue = {'roots[j*N_x].edges[3].glued=True', 'roots[-1].edges[1].glued=True',
            'roots[j*N_x].edges[3].nbr_edge=roots[-1].edges[1]',
            'roots[-1].edges[1].nbr_edge=roots[j*N_x].edges[3]'}
    # the glue statements sit in the slab loop after the column loop
    placed = False
    for s in list(fn.body) + list(fn_t.body):
        if isinstance(s, ast.For) and text(s.target) == 'j':
            if len(s.body) >= 2 and isinstance(
                    s.body[0], ast.For) and isinstance(
                        s.body[-1], ast.If) and text(
                            s.body[-1].test) == 'glue_space':
                inner = {text(x).replace(' ', '') for x in s.body[-1].body}
                placed = glue <= inner
    report.check(placed, 'R-wiring', 'Mesh.__init__ seam', fi.where(),
                 'per slab, after its last root: the left edge of the first '
                 'root and the right edge of the last root of the slab are '
                 'glued twins', construct='Mesh.__init__: seam')
    fin = {'self.leaf_elements=OrderedDict.fromkeys(roots)',
           'self.N_elements=len(roots)', 'self.vertices=vertices',
           'self.roots=roots', 'roots[-1].glob_idx=len(roots)-1'}
    report.check(fin <= src, 'R-wiring', 'Mesh.__init__ bookkeeping',
                 fi.where(), 'leaves = roots, indices 0..N-1, counter = N',
                 construct='Mesh.__init__: bookkeeping')
    vgen = False
    for s in fn.body:
        if isinstance(s, ast.For) and 'initial_time_mesh' in text(s.iter):
            for s2 in s.body:
                if isinstance(s2, ast.For) and 'initial_space_mesh' in text(
                        s2.iter):
                    vgen = any('vertices.append(Vertex(t=t,x=x,idx=len('
                               'vertices)))' == text(x).replace(' ', '')
                               for x in s2.body)
    report.check(vgen, 'R-wiring', 'Mesh.__init__ vertex grid', fi.where(),
                 'vertices are generated time-major so that index '
                 'j*len(space)+i is (t_j, x_i)',
                 construct='Mesh.__init__: vertex grid')
    report.floor('R-wiring', 8)


def check_element_geometry(prog, report):
    """Element.__init__: intervals and sizes from the corner vertices, the
    orientation asserts that make those definitions meaningful."""
    fi = prog.func(M, 'Element.__init__')
    fn = fi.node
    a = {text(n.targets[0]): text(n.value).replace(' ', '')
         for n in fn.body if isinstance(n, ast.Assign)
         and len(n.targets) == 1}
    ok = (a.get('self.vertices') == '[edge.vertices[0]foredgeinedges]'
          and a.get('self.time_interval') ==
          '(self.vertices[0].t,self.vertices[2].t)'
          and a.get('self.space_interval') ==
          '(self.vertices[0].x,self.vertices[2].x)'
          and a.get('self.h_t') in (
              'abs(self.vertices[2].t-self.vertices[0].t)',
              'self.vertices[2].t-self.vertices[0].t')
          and a.get('self.h_x') in (
              'abs(self.vertices[2].x-self.vertices[0].x)',
              'self.vertices[2].x-self.vertices[0].x'))
    report.check(ok, 'R-geometry', 'Element intervals', fi.where(),
                 'an element takes its vertices from the tails of its four '
                 'edges; time/space interval and sizes from the corners 0 '
                 '(t0,x0) and 2 (t1,x1)',
                 construct='Element.__init__: intervals and sizes')
    asserts = {text(n.test).replace(' ', '') for n in fn.body
               if isinstance(n, ast.Assert)}
    need = {'self.vertices[0].t==self.vertices[1].t',
            'self.vertices[1].x==self.vertices[2].x',
            'self.vertices[2].t==self.vertices[3].t',
            'self.vertices[3].x==self.vertices[0].x',
            'self.vertices[0].t<self.vertices[2].t',
            'self.vertices[0].x<self.vertices[1].x'}
    report.check(need <= asserts, 'R-geometry', 'Element orientation',
                 fi.where(),
                 'the constructor asserts the corner order (t0,x0), (t0,x1), '
                 '(t1,x1), (t1,x0) with t0 < t1, x0 < x1 (missing: %s)' %
                 sorted(need - asserts),
                 construct='Element.__init__: orientation asserts')
    chain = any(isinstance(n, ast.For) and any(
        text(m.test).replace(' ', '') ==
        'edges[i-1].vertices[1]==edges[i].vertices[0]'
        for m in n.body if isinstance(m, ast.Assert)) for n in fn.body)
    own = any(isinstance(n, ast.For) and text(n.iter) == 'edges' and any(
        text(m).replace(' ', '') == '%s.elem=self' % text(n.target)
        for m in n.body) and any(
            isinstance(m, ast.Assert) and text(m.test).replace(
                ' ', '') == 'not%s.elem' % text(n.target) for m in n.body)
        for n in fn.body)
    report.check(chain and own, 'R-geometry', 'Element edge registration',
                 fi.where(),
                 'edges chain head to tail and each edge is claimed by '
                 'exactly one element (asserted free before)',
                 construct='Element.__init__: edge chain / ownership')
    ea = prog.func(M, 'Element.edges_axis')
    lv = {q: text([n for n in ast.walk(prog.func(M, 'Element.' + q).node)
                   if isinstance(n, ast.Return)][0].value).replace(' ', '')
          for q in ('level_time', 'level_space')}
    report.check(lv == {'level_time': 'self.levels[0]',
                        'level_space': 'self.levels[1]'}, 'R-geometry',
                 'level properties', fi.where(),
                 'level_time = levels[0], level_space = levels[1]',
                 construct='Element: level properties')


def check_gmsh(prog, report):
    """Mesh.gmsh(): the dump lists exactly the vertices and the leaves."""
    fi = prog.func(M, 'Mesh.gmsh')
    ok_nodes = ok_el = False
    for n in ast.walk(fi.node):
        if isinstance(n, ast.Call) and isinstance(
                n.func, ast.Attribute) and n.func.attr == 'format' and \
                isinstance(n.func.value, ast.Constant) and isinstance(
                    n.func.value.value, str) and len(n.args) == 1:
            fmt = n.func.value.value
            arg = text(n.args[0]).replace(' ', '')
            if fmt.endswith('$Nodes\n{}\n'):
                ok_nodes = arg == 'len(self.vertices)'
            if '$Elements\n{}\n' in fmt:
                ok_el = arg == 'len(self.leaf_elements)'
    loops = [n for n in ast.walk(fi.node) if isinstance(n, ast.For)]
    it = sorted(text(l.iter).replace(' ', '') for l in loops)
    ok_loops = it.count('self.vertices') == 2 and \
        'enumerate(self.leaf_elements)' in it
    report.check(ok_nodes and ok_el and ok_loops, 'R-gmsh', 'Mesh.gmsh',
                 fi.where(),
                 'the node count is len(vertices), the element count is the '
                 'number of leaves, and the body lists every vertex and '
                 'every leaf once (nodes=%s elements=%s loops=%s)' %
                 (ok_nodes, ok_el, it),
                 construct='Mesh.gmsh: counts and listings')
