"""Function equivalence modulo behaviour-preserving restructuring.

`equivalent(ref_fn, cur_fn, oracle)` answers True only if the two function
bodies compute the same thing on every path, where "the same" is decided by
rewriting both into a decision tree over atomic conditions whose leaves and
interior effect nodes carry expressions expanded over the parameters and the
program state (local temporaries substituted away), and comparing the two
trees under every truth assignment of the atoms.

What is normalised away (each item preserves behaviour in CPython for the
types this code base uses; the one stated exception is NaN operands, for
which `not a < b` and `a >= b` differ -- no property quantifies over NaN):
  * local temporaries that hold a side-effect-free expression and do not
    cross a statement that may change what the expression reads;
  * if/elif/else versus guard clauses with early return / continue,
    inverted branches, De Morgan, mirrored comparisons, `assert a and b`
    versus two asserts, chained comparisons;
  * order of the operands of a binary + or * on numbers (exact in IEEE
    arithmetic), a - b versus a + (-b), multiplication by the literal 1/-1;
  * tuple assignment versus element-wise assignment, augmented assignment
    on a local number versus the spelled-out form;
  * names of parameters and locals, docstrings, `pass`, `print(...)` of
    side-effect-free arguments.
What is NOT normalised (the functions then count as different and the rules
see today's code as it is): order of effects, loops versus comprehensions,
calls moved across effects, anything involving try/with.

No rule is decided here.  The result is only used to let the rules run on
the reference shape of a function that is provably the same function.
"""
import ast
import copy

MAX_NODES = 40000


class TooBig(Exception):
    pass


class Unsupported(Exception):
    pass


# --------------------------------------------------------------------------
# purity oracle
# --------------------------------------------------------------------------
PURE_BUILTINS = {
    'len', 'range', 'enumerate', 'zip', 'list', 'tuple', 'sorted', 'min',
    'max', 'abs', 'sum', 'float', 'int', 'str', 'repr', 'isinstance', 'any',
    'all', 'reversed', 'dict', 'set', 'frozenset', 'round', 'divmod', 'bool',
    'type', 'id', 'hash', 'getattr', 'hasattr', 'callable', 'complex',
    'fsum', 'sqrt', 'exp', 'log', 'erf', 'erfc', 'expi', 'exp1', 'product',
    'isclose', 'map', 'filter', 'slice', 'iter', 'next_', 'chr', 'ord',
    'globals', 'super', 'locals', 'vars',
}
PURE_MODULES = ('quadpy.', 'np.', 'numpy.', 'math.', 'scipy.', 'itertools.', 'sp.',
                'cython.', 'hashlib.', 'os.path.', 'time.time', 'mp.cpu_count',
                'multiprocessing.cpu_count', 'copy.', 'operator.')
IMPURE_PREFIX = ('np.random.', 'numpy.random.', 'np.save', 'np.load',
                 'numpy.save', 'numpy.load', 'random.')
PURE_METHODS = {
    'format', 'join', 'copy', 'get', 'items', 'keys', 'values', 'index',
    'count', 'reshape', 'flatten', 'ravel', 'sum', 'dot', 'mean', 'prod',
    'hexdigest', 'encode', 'decode', 'startswith', 'endswith', 'split',
    'strip', 'astype', 'tolist', 'transpose', 'conj', 'cumsum', 'argmax',
    'argmin', 'max', 'min', 'all', 'any', 'lower', 'upper', 'replace',
    'squeeze', 'item', 'nonzero', 'argsort', 'digest', 'fromkeys',
    'real', 'imag', 'bit_length', 'is_integer', 'isoformat',
}
# attributes of this code base that hold mathematical functions (curve
# parametrisations, problem data): calling them has no side effect
PURE_CALLABLE_ATTRS = {'gamma_space', 'gamma', 'gamma_p', 'u0', 'f', 'fun',
                       'space_integrator', 'pw_gamma'}
# attributes that hold a pair (Element / DummyElement constructors store
# 2-tuples; rule R-geometry checks that they do)
PAIR_ATTRS = {'time_interval', 'space_interval'}
MUTATORS = {
    'append', 'extend', 'insert', 'remove', 'pop', 'clear', 'sort',
    'reverse', 'update', 'setdefault', 'add', 'discard', 'fill', 'write',
    'dump', 'close', 'put', 'seed', 'shuffle', 'popitem', 'move_to_end',
    'resize', 'setflags', 'itemset', 'partition', 'terminate',
}


def call_name(call):
    try:
        return ast.unparse(call.func)
    except Exception:
        return '?'


class Oracle:
    """Which functions of the repository are free of side effects?  A
    function is impure if it stores to an attribute or subscript of
    something it did not create itself, uses `global`, calls a known
    mutator on such an object, or calls an impure / unknown function.
    Calls are resolved by (last) name over all modules (a name is impure if
    any function of that name is)."""
    def __init__(self, trees):
        self.defs = {}
        self.classes = {}
        for t in trees:
            for n in ast.walk(t):
                if isinstance(n, ast.ClassDef):
                    self.classes.setdefault(n.name, n)
        for t in trees:
            for n in ast.walk(t):
                if isinstance(n, (ast.FunctionDef, ast.AsyncFunctionDef)):
                    self.defs.setdefault(n.name, []).append(n)
                elif isinstance(n, ast.ClassDef):
                    inits = [m for m in n.body if isinstance(
                        m, ast.FunctionDef) and m.name == '__init__']
                    # a class name called = its __init__ (or pure if none)
                    self.defs.setdefault(n.name, []).extend(
                        inits or [None])
        self.impure = set()
        changed = True
        while changed:
            changed = False
            for name, nodes in self.defs.items():
                if name in self.impure:
                    continue
                if any(nd is not None and self._impure_body(nd)
                       for nd in nodes):
                    self.impure.add(name)
                    changed = True

    def modref(self):
        if getattr(self, '_mr', None) is None:
            self._mr = ModRef(self)
        return self._mr

    def local_callables(self, fn):
        """locals of fn that hold a side-effect-free function: assigned
        from a callable data attribute, from a side-effect-free closure
        factory of the repository, or from a lambda / nested def without
        effects"""
        out = set()
        for _ in range(3):
            for n in ast.walk(fn):
                if isinstance(n, ast.Assign) and len(n.targets) == 1 and \
                        isinstance(n.targets[0], (ast.Tuple, ast.List)) and \
                        isinstance(n.value, ast.Call) and self.pure_call(
                            n.value, (), out) and (
                                isinstance(n.value.func, ast.Name)
                                and n.value.func.id in self.defs):
                    # gamma, length = line(a, b): a factory of the
                    # repository without side effects
                    for t in n.targets[0].elts:
                        if isinstance(t, ast.Name):
                            out.add(t.id)
                if isinstance(n, ast.Assign) and len(n.targets) == 1 and \
                        isinstance(n.targets[0], ast.Name):
                    v = n.value
                    ok = False
                    if isinstance(v, ast.Attribute) and \
                            v.attr in PURE_CALLABLE_ATTRS:
                        ok = True
                    elif isinstance(v, ast.Subscript) and isinstance(
                            v.value, ast.Attribute) and \
                            v.value.attr in PURE_CALLABLE_ATTRS:
                        ok = True
                    elif isinstance(v, ast.Call) and self.pure_call(
                            v, (), out) and (
                                isinstance(v.func, ast.Name)
                                and v.func.id in self.defs
                                or isinstance(v.func, ast.Attribute)
                                and v.func.attr in self.defs):
                        ok = True
                    elif isinstance(v, ast.Lambda) and all(
                            self.pure_call(c, (), out)
                            for c in ast.walk(v.body)
                            if isinstance(c, ast.Call)):
                        ok = True
                    if ok:
                        out.add(n.targets[0].id)
        # function-valued parameters of this code base are mathematical
        # functions (integrands, parametrisations, data)
        if isinstance(fn, (ast.FunctionDef, ast.AsyncFunctionDef)):
            params = {x.arg for x in fn.args.args + fn.args.kwonlyargs}
            for n in ast.walk(fn):
                if isinstance(n, ast.Call) and isinstance(
                        n.func, ast.Name) and n.func.id in params and \
                        n.func.id not in self.defs:
                    out.add(n.func.id)
        # assigned more than once with a non-callable value: drop
        for n in ast.walk(fn):
            if isinstance(n, ast.Assign):
                for t in n.targets:
                    if isinstance(t, ast.Name) and t.id in out:
                        v = n.value
                        if not isinstance(v, (ast.Attribute, ast.Subscript,
                                              ast.Call, ast.Lambda)):
                            out.discard(t.id)
        return out

    def _impure_body(self, fn):
        fresh = fresh_locals(fn)
        callables = self.local_callables(fn)
        for n in ast.walk(fn):
            if isinstance(n, (ast.Global, ast.Nonlocal, ast.Yield,
                              ast.YieldFrom, ast.Await)):
                return True
            if isinstance(n, (ast.Attribute, ast.Subscript)) and isinstance(
                    n.ctx, (ast.Store, ast.Del)):
                root = n
                while isinstance(root, (ast.Attribute, ast.Subscript)):
                    root = root.value
                if not (isinstance(root, ast.Name) and root.id in fresh):
                    return True
            if isinstance(n, ast.Call) and not self.pure_call(
                    n, fresh, callables):
                return True
        return False

    def pure_call(self, call, fresh=(), callables=()):
        f = call.func
        name = call_name(call)
        if isinstance(f, ast.Subscript) and isinstance(
                f.value, ast.Attribute) and \
                f.value.attr in PURE_CALLABLE_ATTRS:
            return True
        if isinstance(f, ast.Name):
            if f.id in callables or f.id.startswith('$a'):
                return True
            if f.id in self.defs:
                return f.id not in self.impure
            if f.id == 'print':
                return True
            return f.id in PURE_BUILTINS
        if isinstance(f, ast.Attribute):
            if name.startswith(IMPURE_PREFIX):
                return False
            if name.startswith(PURE_MODULES):
                return True
            root = f.value
            while isinstance(root, (ast.Attribute, ast.Subscript)):
                root = root.value
            if f.attr in MUTATORS:
                return isinstance(root, ast.Name) and root.id in fresh \
                    and False  # a mutation is an effect even on a local
            if f.attr in self.defs:
                return f.attr not in self.impure
            mangled = f.attr.split('__', 1)
            if f.attr.startswith('_') and len(mangled) == 2 and (
                    '__' + mangled[1]) in self.defs:
                return ('__' + mangled[1]) not in self.impure
            if f.attr in PURE_METHODS or f.attr in PURE_CALLABLE_ATTRS:
                return True
            return False
        if isinstance(f, ast.Lambda):
            return all(self.pure_call(c, fresh, callables)
                       for c in ast.walk(f.body)
                       if isinstance(c, ast.Call))
        if isinstance(f, ast.Call) and call_name(f) == 'super':
            return False
        return False


def fresh_locals(fn):
    """Locals that only ever hold objects created inside the function
    (literals, constructor-like calls); mutation of those is local."""
    cand = {}
    for n in ast.walk(fn):
        if isinstance(n, ast.Assign):
            for t in n.targets:
                if isinstance(t, ast.Name):
                    cand.setdefault(t.id, []).append(n.value)
        elif isinstance(n, (ast.For, ast.comprehension)):
            for m in ast.walk(n.target):
                if isinstance(m, ast.Name):
                    cand.setdefault(m.id, []).append(None)
        elif isinstance(n, (ast.AugAssign, ast.AnnAssign)) and isinstance(
                n.target, ast.Name):
            cand.setdefault(n.target.id, []).append(
                n.value if isinstance(n, ast.AnnAssign) else ast.Constant(0))
        elif isinstance(n, ast.withitem) and n.optional_vars is not None:
            for m in ast.walk(n.optional_vars):
                if isinstance(m, ast.Name):
                    cand.setdefault(m.id, []).append(None)
    a = fn.args
    params = {x.arg for x in a.posonlyargs + a.args + a.kwonlyargs}
    out = set()
    for name, vals in cand.items():
        if name in params:
            continue
        ok = True
        for v in vals:
            if v is None:
                ok = False
            elif isinstance(v, (ast.List, ast.Dict, ast.Set, ast.ListComp,
                                ast.DictComp, ast.SetComp, ast.Constant,
                                ast.Tuple, ast.BinOp, ast.JoinedStr)):
                continue
            elif isinstance(v, ast.Call) and call_name(v) in (
                    'np.zeros', 'np.ones', 'np.empty', 'np.array',
                    'np.zeros_like', 'list', 'dict', 'set', 'OrderedDict',
                    'np.full', 'np.arange', 'np.linspace', 'sorted',
                    'np.hstack', 'np.vstack', 'np.concatenate', 'np.repeat',
                    'np.tile', 'copy.copy', 'copy.deepcopy'):
                continue
            else:
                ok = False
        if ok:
            out.add(name)
    return out


# --------------------------------------------------------------------------
# expression canonicalisation
# --------------------------------------------------------------------------
def _reads_state(e):
    return any(isinstance(n, (ast.Attribute, ast.Subscript, ast.Call,
                              ast.Starred))
               or (isinstance(n, ast.Name) and n.id.startswith('__'))
               for n in ast.walk(e))


def _load(t):
    t = copy.deepcopy(t)
    for m in ast.walk(t):
        if hasattr(m, 'ctx'):
            m.ctx = ast.Load()
    return t


def _non_arith(n):
    return any(
        isinstance(x, (ast.List, ast.Tuple, ast.JoinedStr, ast.Dict,
                       ast.ListComp, ast.Set))
        or (isinstance(x, ast.Constant) and isinstance(x.value, (str, bytes)))
        or (isinstance(x, ast.Call) and isinstance(x.func, ast.Attribute)
            and x.func.attr in ('format', 'join', 'hexdigest', 'split'))
        or (isinstance(x, ast.Call) and isinstance(x.func, ast.Name)
            and x.func.id in ('str', 'list', 'tuple', 'repr', 'sorted'))
        for x in ast.walk(n))


def _format_to_joined(call):
    """'..{}..{:.3f}'.format(a, b)  ->  the equivalent f-string node (only
    positional, automatically or explicitly numbered fields)"""
    import string
    f = call.func
    if not (isinstance(f, ast.Attribute) and f.attr == 'format'
            and isinstance(f.value, ast.Constant)
            and isinstance(f.value.value, str)) or call.keywords or any(
                isinstance(a, ast.Starred) for a in call.args):
        return None
    try:
        fields = list(string.Formatter().parse(f.value.value))
    except ValueError:
        return None
    vals = []
    auto = 0
    for lit, name, spec, conv in fields:
        if lit:
            vals.append(ast.Constant(value=lit))
        if name is None:
            continue
        if name == '':
            idx = auto
            auto += 1
        elif name.isdigit():
            idx = int(name)
        else:
            return None
        if idx >= len(call.args) or (spec and '{' in spec):
            return None
        vals.append(ast.FormattedValue(
            value=call.args[idx], conversion=ord(conv) if conv else -1,
            format_spec=ast.JoinedStr(values=[ast.Constant(value=spec)])
            if spec else None))
    return ast.JoinedStr(values=vals)


def _str_parts(e):
    """parts of a string built by + from str(x), literals and f-strings"""
    if isinstance(e, ast.BinOp) and isinstance(e.op, ast.Add):
        l, r = _str_parts(e.left), _str_parts(e.right)
        if l is None or r is None:
            return None
        return l + r
    if isinstance(e, ast.Call) and isinstance(e.func, ast.Name) and \
            e.func.id == 'str' and len(e.args) == 1 and not e.keywords:
        return [ast.FormattedValue(value=e.args[0], conversion=-1,
                                   format_spec=None)]
    if isinstance(e, ast.Constant) and isinstance(e.value, str):
        return [e]
    if isinstance(e, ast.JoinedStr):
        return list(e.values)
    return None


def _merge_str(values):
    out = []
    for v in values:
        if isinstance(v, ast.Constant) and out and isinstance(
                out[-1], ast.Constant):
            out[-1] = ast.Constant(value=out[-1].value + v.value)
        elif isinstance(v, ast.Constant) and v.value == '':
            continue
        else:
            out.append(v)
    return out


_CURRENT = [None, None]   # oracle and class of the comparison in progress


def _keywords_to_positional(call, oracle):
    """f(a, y=c, x=b) -> f(a, b, c) when every function of that name in
    the repository has the same positional parameter list"""
    f = call.func
    name = f.id if isinstance(f, ast.Name) else (
        f.attr if isinstance(f, ast.Attribute) else None)
    if name is None or any(k.arg is None for k in call.keywords) or any(
            isinstance(a, ast.Starred) for a in call.args):
        return call
    if isinstance(f, ast.Attribute) and name.startswith('_') and \
            '__' in name[1:] and name not in oracle.defs:
        name = '__' + name[1:].split('__', 1)[1]
    nodes = [nd for nd in oracle.defs.get(name, []) if nd is not None]
    if name == '__init__' and isinstance(f, ast.Attribute) and isinstance(
            f.value, ast.Call) and call_name(f.value) == 'super' and \
            _CURRENT[1] in oracle.classes:
        # super().__init__ of a class with one repository base class
        nodes = []
        cls = oracle.classes[_CURRENT[1]]
        seen = set()
        while cls is not None and cls.name not in seen:
            seen.add(cls.name)
            bases = [b.id for b in cls.bases if isinstance(b, ast.Name)
                     and b.id in oracle.classes]
            if len(bases) != 1 or len(cls.bases) != 1:
                break
            cls = oracle.classes[bases[0]]
            init = [m_ for m_ in cls.body if isinstance(
                m_, ast.FunctionDef) and m_.name == '__init__']
            if init:
                nodes = init
                break
        if not nodes:
            return call
    elif not nodes or name == '__init__':
        return call
    sigs = set()
    for nd in nodes:
        a = nd.args
        if a.vararg or a.kwarg or a.posonlyargs:
            return call
        params = [x.arg for x in a.args]
        is_method = isinstance(f, ast.Attribute) or name[:1].isupper() \
            or name == '__init__'
        if params and params[0] in ('self', 'cls') and is_method:
            params = params[1:]
        sigs.add(tuple(params))
    if len(sigs) != 1:
        return call
    params = list(sigs.pop())
    kw = {k.arg: k.value for k in call.keywords}
    args = list(call.args)
    rest = params[len(args):]
    new = []
    for p_ in rest:
        if p_ in kw:
            new.append(kw.pop(p_))
        else:
            break
    if kw:
        return call   # a gap (default in between) or an unknown keyword
    return ast.Call(func=f, args=args + new, keywords=[])


class _ExprCanon(ast.NodeTransformer):
    """a - b -> a + (-b); 1*x -> x; -1*x -> -x; --x -> x; operands of a
    numeric binary + / * sorted by their text; comprehension / lambda
    variables numbered."""
    def __init__(self):
        self.k = 0

    def visit_Call(self, n):
        self.generic_visit(n)
        if n.keywords and _CURRENT[0] is not None:
            n = _keywords_to_positional(n, _CURRENT[0])
        j = _format_to_joined(n)
        if j is not None:
            j.values = _merge_str(j.values)
            return j
        if isinstance(n.func, ast.Name) and n.func.id == 'str' and len(
                n.args) == 1 and not n.keywords and False:
            return n
        return n

    def visit_JoinedStr(self, n):
        self.generic_visit(n)
        n.values = _merge_str(n.values)
        return n

    def visit_BinOp(self, n):
        self.generic_visit(n)
        if isinstance(n.op, ast.Add):
            parts = _str_parts(n)
            if parts is not None and any(
                    isinstance(p_, ast.FormattedValue) for p_ in parts):
                return ast.JoinedStr(values=_merge_str(parts))
        if _non_arith(n):
            return n
        if isinstance(n.op, ast.Sub):
            n = ast.BinOp(left=n.left, op=ast.Add(),
                          right=self._neg(n.right))
        if isinstance(n.op, ast.Mult):
            for a, b in ((n.left, n.right), (n.right, n.left)):
                if isinstance(a, ast.Constant) and type(a.value) is int:
                    if a.value == 1:
                        return b
                if isinstance(a, ast.UnaryOp) and isinstance(
                        a.op, ast.USub) and isinstance(
                            a.operand, ast.Constant) and type(
                                a.operand.value) is int and \
                        a.operand.value == 1:
                    return self._neg(b)
        def neg(e):
            return isinstance(e, ast.UnaryOp) and isinstance(e.op, ast.USub)

        def strip(e):
            return e.operand if neg(e) else e
        if isinstance(n.op, (ast.Mult, ast.Div)):
            # (-a)*b, a*(-b), a/(-b): the sign moves to the front (exact)
            k = neg(n.left) + neg(n.right)
            if k:
                n = ast.BinOp(left=strip(n.left), op=n.op,
                              right=strip(n.right))
                if isinstance(n.op, ast.Mult):
                    l, r = ast.dump(n.left), ast.dump(n.right)
                    if r < l:
                        n.left, n.right = n.right, n.left
                return self._neg(n) if k == 1 else n
        if isinstance(n.op, ast.Add):
            for a_, b_ in ((n.left, n.right), (n.right, n.left)):
                if isinstance(a_, ast.Constant) and type(
                        a_.value) is int and a_.value == 0:
                    return b_   # equal up to the sign of a zero result
            # a + b: operands ordered by their unsigned text, the first one
            # positive: (-a) + b == -(a + (-b)) exactly
            l, r = ast.dump(strip(n.left)), ast.dump(strip(n.right))
            if r < l:
                n.left, n.right = n.right, n.left
            if neg(n.left):
                inner = ast.BinOp(left=strip(n.left), op=ast.Add(),
                                  right=self._neg(n.right))
                return ast.UnaryOp(op=ast.USub(), operand=inner)
            return n
        if isinstance(n.op, ast.Mult):
            l, r = ast.dump(n.left), ast.dump(n.right)
            if r < l:
                n.left, n.right = n.right, n.left
        return n

    def _neg(self, e):
        if isinstance(e, ast.UnaryOp) and isinstance(e.op, ast.USub):
            return e.operand
        if isinstance(e, ast.Constant) and isinstance(
                e.value, (int, float)) and not isinstance(e.value, bool) \
                and e.value < 0:
            return ast.Constant(value=-e.value)
        return ast.UnaryOp(op=ast.USub(), operand=e)

    def visit_UnaryOp(self, n):
        self.generic_visit(n)
        if isinstance(n.op, ast.USub):
            if isinstance(n.operand, ast.UnaryOp) and isinstance(
                    n.operand.op, ast.USub):
                return n.operand.operand
            if isinstance(n.operand, ast.Constant) and isinstance(
                    n.operand.value, (int, float)) and not isinstance(
                        n.operand.value, bool) and n.operand.value < 0:
                return ast.Constant(value=-n.operand.value)
        if isinstance(n.op, ast.UAdd):
            return n.operand
        return n

    def _bind(self, targets, body_nodes):
        names = []
        for t in targets:
            for m in ast.walk(t):
                if isinstance(m, (ast.Name, )):
                    names.append(m.id)
                elif isinstance(m, ast.arg):
                    names.append(m.arg)
        mp = {}
        for nm in names:
            if nm not in mp:
                self.k += 1
                mp[nm] = '$c%d' % self.k
        for b in body_nodes:
            for m in ast.walk(b):
                if isinstance(m, ast.Name) and m.id in mp:
                    m.id = mp[m.id]
                elif isinstance(m, ast.arg) and m.arg in mp:
                    m.arg = mp[m.arg]

    def _comp(self, n, parts):
        gens = n.generators
        self._bind([g.target for g in gens], [n])
        self.generic_visit(n)
        return n

    def visit_ListComp(self, n):
        return self._comp(n, None)

    visit_SetComp = visit_GeneratorExp = visit_DictComp = visit_ListComp

    def visit_Lambda(self, n):
        a = n.args
        self._bind(a.posonlyargs + a.args + a.kwonlyargs +
                   ([a.vararg] if a.vararg else []) +
                   ([a.kwarg] if a.kwarg else []), [n])
        self.generic_visit(n)
        return n


def _unroll_literal_comps(node):
    """[E(x) for x in (a, b)]  ->  [E(a), E(b)]"""
    class U(ast.NodeTransformer):
        def visit_ListComp(self, n):
            self.generic_visit(n)
            if len(n.generators) != 1:
                return n
            g = n.generators[0]
            if g.ifs or g.is_async or not isinstance(
                    g.iter, (ast.Tuple, ast.List)) or len(
                        g.iter.elts) > 8 or any(
                            isinstance(x, ast.Starred)
                            for x in g.iter.elts):
                return n
            elts = []
            for x in g.iter.elts:
                if isinstance(g.target, ast.Name):
                    env = {g.target.id: x}
                elif isinstance(g.target, (ast.Tuple, ast.List)) and \
                        isinstance(x, (ast.Tuple, ast.List)) and len(
                            x.elts) == len(g.target.elts) and all(
                                isinstance(t, ast.Name)
                                for t in g.target.elts):
                    env = {t.id: v for t, v in zip(g.target.elts, x.elts)}
                else:
                    return n
                elts.append(_SubstEnv(env).visit(copy.deepcopy(n.elt)))
            return ast.List(elts=elts, ctx=ast.Load())
    return U().visit(node)


def _fold_subscripts(e):
    """(a, b)[0] -> a after substitution of a tuple-valued temporary"""
    class F(ast.NodeTransformer):
        def visit_Subscript(self, n):
            self.generic_visit(n)
            if isinstance(n.value, (ast.Tuple, ast.List)) and isinstance(
                    n.slice, ast.Constant) and type(
                        n.slice.value) is int and not any(
                            isinstance(x, ast.Starred)
                            for x in n.value.elts) and \
                    -len(n.value.elts) <= n.slice.value < len(n.value.elts):
                return n.value.elts[n.slice.value]
            return n

        def visit_Call(self, n):
            self.generic_visit(n)
            args = []
            for a in n.args:
                if isinstance(a, ast.Starred) and isinstance(
                        a.value, (ast.Tuple, ast.List)) and not any(
                            isinstance(x, ast.Starred)
                            for x in a.value.elts):
                    args.extend(a.value.elts)
                elif isinstance(a, ast.Starred) and isinstance(
                        a.value, ast.Attribute) and \
                        a.value.attr in PAIR_ATTRS:
                    for i in (0, 1):
                        args.append(ast.Subscript(
                            value=copy.deepcopy(a.value),
                            slice=ast.Constant(value=i), ctx=ast.Load()))
                else:
                    args.append(a)
            n.args = args
            return n
    return F().visit(e)


class _SubstEnv(ast.NodeTransformer):
    def __init__(self, env):
        self.env = env
        self.shadow = []

    def visit_Name(self, n):
        if isinstance(n.ctx, ast.Load) and n.id in self.env and not any(
                n.id in s for s in self.shadow):
            return copy.deepcopy(self.env[n.id])
        return n

    def _scoped(self, n, names):
        self.shadow.append(names)
        self.generic_visit(n)
        self.shadow.pop()
        return n

    def visit_Lambda(self, n):
        a = n.args
        return self._scoped(n, {x.arg for x in a.posonlyargs + a.args +
                                a.kwonlyargs})

    def _comp(self, n):
        names = set()
        for g in n.generators:
            names |= {m.id for m in ast.walk(g.target)
                      if isinstance(m, ast.Name)}
        # the first iterable is evaluated outside the comprehension scope
        return self._scoped(n, names)

    visit_ListComp = visit_SetComp = visit_GeneratorExp = visit_DictComp = \
        _comp


def etext(e, env):
    e = _SubstEnv(env).visit(copy.deepcopy(e))
    e = _fold_subscripts(e)
    e = _ExprCanon().visit(e)
    ast.fix_missing_locations(e)
    return ast.unparse(e)


def esub(e, env):
    e = _SubstEnv(env).visit(copy.deepcopy(e))
    return _fold_subscripts(e)


def _loads(node):
    return {n.id for n in ast.walk(node)
            if isinstance(n, ast.Name) and isinstance(n.ctx, ast.Load)}


def _stores(node):
    return {n.id for n in ast.walk(node)
            if isinstance(n, ast.Name) and isinstance(n.ctx, (ast.Store,
                                                              ast.Del))}


# --------------------------------------------------------------------------
# locations: what an expression reads, what a statement may change
# --------------------------------------------------------------------------
def _is_at(n):
    return isinstance(n, ast.Call) and isinstance(
        n.func, ast.Name) and n.func.id == '$at'


def cont(v):
    """the container location an object expression denotes (its contents)"""
    while True:
        if _is_at(v):
            v = v.args[0]
        elif isinstance(v, ast.Subscript):
            v = v.value
        elif isinstance(v, ast.Starred):
            v = v.value
        else:
            break
    if isinstance(v, ast.Attribute):
        return v.attr + '[]'
    if isinstance(v, ast.Name) and v.id.startswith('$o'):
        return 'obj:' + v.id
    return '*[]'


def collide(w, r):
    if w == '*' or w == r:
        return True
    if w == '*[]':
        return r.endswith('[]') or r.startswith('obj:')
    if w.endswith('[]') and r == '*[]':
        return True
    return False


def _object_like(a):
    return isinstance(a, (ast.Name, ast.Attribute, ast.Subscript,
                          ast.Starred)) or _is_at(a)


class ModRef:
    """Field-based mod/ref: which attribute names / container contents a
    function may write (mods) or read (refs), transitively over calls that
    are resolved by name.  '*' = anything."""
    def __init__(self, oracle):
        self.o = oracle
        self.mods = {n: set() for n in oracle.defs}
        self.refs = {n: set() for n in oracle.defs}
        changed = True
        rounds = 0
        while changed and rounds < 30:
            changed = False
            rounds += 1
            for name, nodes in oracle.defs.items():
                m, r = set(), set()
                for nd in nodes:
                    if nd is None:
                        continue
                    fresh = fresh_locals(nd)
                    self._callables = self.o.local_callables(nd)
                    m |= self.raw_mods(nd, fresh)
                    self._callables = ()
                    r |= self.raw_refs(nd)
                if not m <= self.mods[name] or not r <= self.refs[name]:
                    self.mods[name] |= m
                    self.refs[name] |= r
                    changed = True

    def _raw_cont(self, v, fresh):
        while isinstance(v, (ast.Subscript, ast.Starred)):
            v = v.value
        if isinstance(v, ast.Attribute):
            return v.attr + '[]'
        if isinstance(v, ast.Name) and v.id in fresh:
            return None
        return '*[]'

    def callee(self, call):
        f = call.func
        if isinstance(f, ast.Name) and f.id in self.o.defs:
            return f.id
        if isinstance(f, ast.Attribute):
            if f.attr in self.o.defs:
                return f.attr
            if f.attr.startswith('_') and '__' in f.attr[1:]:
                tail = '__' + f.attr[1:].split('__', 1)[1]
                if tail in self.o.defs:
                    return tail
        return None

    def raw_mods(self, fn, fresh):
        out = set()
        for n in ast.walk(fn):
            if isinstance(n, (ast.Global, ast.Nonlocal)):
                out.add('globals')
            if isinstance(n, (ast.Attribute, ast.Subscript)) and isinstance(
                    n.ctx, (ast.Store, ast.Del)):
                if isinstance(n, ast.Attribute):
                    root = n
                    while isinstance(root, (ast.Attribute, ast.Subscript)):
                        root = root.value
                    if fn.name == '__init__' and isinstance(
                            n.value, ast.Name) and n.value.id == 'self':
                        # a field of the object under construction: no
                        # existing object changes
                        continue
                    if not (isinstance(root, ast.Name) and root.id in fresh):
                        out.add(n.attr)
                else:
                    c = self._raw_cont(n.value, fresh)
                    if c:
                        out.add(c)
                    if isinstance(n.value, ast.Call) and call_name(
                            n.value) == 'globals':
                        out.add('globals')
            if isinstance(n, ast.Call):
                out |= self.call_mods(n, fresh, raw=True)
        return out

    def call_mods(self, call, fresh=(), raw=False):
        f = call.func
        name = call_name(call)
        if isinstance(f, ast.Attribute) and f.attr in MUTATORS:
            if raw:
                c = self._raw_cont(f.value, fresh)
                return {c} if c else set()
            return {cont(f.value)}
        cal = self.callee(call)
        if cal is not None:
            return set(self.mods.get(cal, ()))
        if self.o.pure_call(call, fresh, getattr(self, '_callables', ())):
            return set()
        if name.startswith('mp.Pool') or name.endswith(
                ('.map', '.imap', '.starmap')) or name.startswith(
                    'multiprocessing.'):
            return {'io'}
        if name.startswith(('np.save', 'numpy.save', 'np.load', 'open',
                            'os.', 'print', 'plt.', 'sys.')):
            return {'io'}
        if name.startswith(('np.random', 'random.')):
            return {'rng'}
        return {'*'}

    def raw_refs(self, fn):
        out = set()
        for n in ast.walk(fn):
            if isinstance(n, ast.Attribute) and isinstance(n.ctx, ast.Load):
                out.add(n.attr)
            elif isinstance(n, ast.Subscript):
                out.add(self._raw_cont(n.value, ()) or '*[]')
            elif isinstance(n, (ast.For, ast.comprehension)):
                out.add(self._raw_cont(n.iter, ()) or '*[]')
            elif isinstance(n, ast.Call):
                cal = self.callee(n)
                if cal is not None:
                    out |= self.refs.get(cal, set())
                for a in n.args:
                    if _object_like(a):
                        out.add(self._raw_cont(a, ()) or '*[]')
                if isinstance(n.func, ast.Attribute) and cal is None:
                    out.add(self._raw_cont(n.func.value, ()) or '*[]')
            elif isinstance(n, ast.Name) and n.id.startswith('__') and \
                    not n.id.endswith('__'):
                out.add('globals')
        return out

    # -- on substituted expressions -----------------------------------------
    def refs_of(self, e):
        out = set()

        def walk(n):
            if _is_at(n):
                return
            if isinstance(n, ast.Attribute):
                out.add(n.attr)
            elif isinstance(n, ast.Subscript):
                out.add(cont(n.value))
            elif isinstance(n, ast.comprehension):
                out.add(cont(n.iter))
            elif isinstance(n, ast.Name) and n.id.startswith('__') and \
                    not n.id.endswith('__'):
                out.add('globals')
            elif isinstance(n, ast.Call):
                cal = self.callee(n)
                if cal is not None:
                    out.update(self.refs.get(cal, ()))
                for a in list(n.args) + [k.value for k in n.keywords]:
                    if _object_like(a):
                        out.add(cont(a))
                if isinstance(n.func, ast.Attribute) and cal is None:
                    out.add(cont(n.func.value))
            for c in ast.iter_child_nodes(n):
                walk(c)
        walk(e)
        return out


ALLOCATORS = {
    'np.zeros', 'np.ones', 'np.empty', 'np.array', 'np.zeros_like', 'list',
    'dict', 'set', 'OrderedDict', 'np.full', 'np.arange', 'np.linspace',
    'sorted', 'np.hstack', 'np.vstack', 'np.concatenate', 'np.repeat',
    'np.tile', 'copy.copy', 'copy.deepcopy', 'np.asarray', 'defaultdict',
    'OrderedDict.fromkeys', 'np.ones_like', 'np.empty_like', 'np.outer',
}


def _allocation(v):
    """does the expression create a new mutable object?"""
    if isinstance(v, (ast.List, ast.Dict, ast.Set, ast.ListComp,
                      ast.DictComp, ast.SetComp)):
        return True
    if isinstance(v, ast.Call):
        name = call_name(v)
        return name in ALLOCATORS or name[:1].isupper()
    return False


def _reference(v):
    """may the value be (an alias of) an object that lives elsewhere?"""
    while _is_at(v):
        v = v.args[0]
    return isinstance(v, (ast.Name, ast.Attribute, ast.Subscript))


def _parse_tag(t):
    out = {}
    t = t.strip('<>')
    for part in t.split(','):
        if part:
            r, n = part.rsplit(':', 1)
            out[r] = int(n)
    return out


class Ver:
    """write counters per location along one path"""
    __slots__ = ('c', )

    def __init__(self, c=None):
        self.c = dict(c or {})

    def bump(self, mods):
        v = Ver(self.c)
        for w in mods:
            v.c[w] = v.c.get(w, 0) + 1
        return v

    def tag(self, refs):
        parts = []
        for r in sorted(refs):
            t = sum(k for w, k in self.c.items() if collide(w, r))
            parts.append('%s:%d' % (r, t))
        return ','.join(parts)


# --------------------------------------------------------------------------
# tree builder
# --------------------------------------------------------------------------
class Builder:
    def __init__(self, fn, oracle, modref):
        self.fn = fn
        self.oracle = oracle
        self.mr = modref
        isfn = isinstance(fn, (ast.FunctionDef, ast.AsyncFunctionDef))
        self.fresh = fresh_locals(fn) if isfn else set()
        self.callables = oracle.local_callables(fn) if isfn else set()
        self.identity = self._identity_names(fn) if isfn else set()
        self.nodes = 0
        self.nsym = 0
        self.scope_stack = []
        self.globals = set()
        for n in ast.walk(fn):
            if isinstance(n, (ast.Global, ast.Nonlocal)):
                self.globals |= set(n.names)

    def _identity_names(self, fn):
        """fresh locals that are mutated, aliased or handed to code that
        may keep or mutate them: they denote an object, not a value"""
        out = set()
        for n in ast.walk(fn):
            if isinstance(n, (ast.Attribute, ast.Subscript)) and isinstance(
                    n.ctx, (ast.Store, ast.Del)):
                root = n
                while isinstance(root, (ast.Attribute, ast.Subscript)):
                    root = root.value
                if isinstance(root, ast.Name):
                    out.add(root.id)
            elif isinstance(n, ast.AugAssign):
                root = n.target
                while isinstance(root, (ast.Attribute, ast.Subscript)):
                    root = root.value
                if isinstance(root, ast.Name):
                    out.add(root.id)
            elif isinstance(n, ast.Call):
                f = n.func
                if isinstance(f, ast.Attribute) and f.attr in MUTATORS:
                    root = f.value
                    while isinstance(root, (ast.Attribute, ast.Subscript)):
                        root = root.value
                    if isinstance(root, ast.Name):
                        out.add(root.id)
                if not self.oracle.pure_call(n, (), self.callables):
                    for a in list(n.args) + [k.value for k in n.keywords]:
                        for m in ast.walk(a):
                            if isinstance(m, ast.Name):
                                out.add(m.id)
            elif isinstance(n, ast.Assign):
                # aliasing / storing the object somewhere
                vals = [n.value]
                if isinstance(n.value, (ast.Tuple, ast.List)):
                    vals = list(n.value.elts)
                for v in vals:
                    if isinstance(v, ast.Name):
                        out.add(v.id)
        return out

    # -- helpers -----------------------------------------------------------
    def tick(self):
        self.nodes += 1
        if self.nodes > MAX_NODES:
            raise TooBig()

    def sym(self, prefix):
        self.nsym += 1
        return ast.Name(id='$%s%d' % (prefix, self.nsym), ctx=ast.Load())

    def pure(self, e):
        for n in ast.walk(e):
            if isinstance(n, ast.Call) and not _is_at(n) and \
                    not self.oracle.pure_call(n, self.fresh, self.callables):
                return False
            if isinstance(n, (ast.Yield, ast.YieldFrom, ast.Await,
                              ast.NamedExpr)):
                return False
        return True

    def def_as_lambda(self, fn):
        """def f(a): <side-effect-free temporaries>; return e  ->  lambda"""
        a = fn.args
        if a.vararg or a.kwarg or a.kwonlyargs or a.defaults or \
                fn.decorator_list:
            return None
        loc = {}
        ret = None
        for st in fn.body:
            if ret is not None:
                return None
            if isinstance(st, ast.Expr) and isinstance(st.value,
                                                       ast.Constant):
                continue
            if isinstance(st, ast.Assign) and len(st.targets) == 1 and \
                    self.pure(st.value):
                t = st.targets[0]
                v = esub(st.value, loc)
                if isinstance(t, ast.Name):
                    loc[t.id] = v
                    continue
                if isinstance(t, (ast.Tuple, ast.List)) and all(
                        isinstance(x, ast.Name) for x in t.elts):
                    if isinstance(v, (ast.Tuple, ast.List)) and len(
                            v.elts) == len(t.elts):
                        for x, y in zip(t.elts, v.elts):
                            loc[x.id] = y
                    else:
                        for i, x in enumerate(t.elts):
                            loc[x.id] = ast.Subscript(
                                value=copy.deepcopy(v),
                                slice=ast.Constant(value=i), ctx=ast.Load())
                    continue
                return None
            if isinstance(st, ast.Return) and st.value is not None and \
                    self.pure(st.value):
                ret = esub(st.value, loc)
                continue
            return None
        if ret is None:
            return None
        return ast.Lambda(args=copy.deepcopy(a), body=ret)

    # -- impure calls are evaluated one per statement -----------------------
    def anf_stmt(self, st):
        """A statement whose expression contains an impure call below the
        top is split: the calls (and whatever is evaluated before them) are
        bound to temporaries in evaluation order.  Returns the new statement
        list or None."""
        def impure_inside(e):
            return any(isinstance(n, ast.Call) and not _is_at(n)
                       and not self.oracle.pure_call(n, self.fresh,
                                                     self.callables)
                       for n in ast.walk(e))
        out = []
        counter = [0]

        def temp(e):
            self.nsym += 1
            name = '_anf%d' % self.nsym
            a = ast.Assign(targets=[ast.Name(id=name, ctx=ast.Store())],
                           value=e)
            a._anf = True
            out.append(a)
            return ast.Name(id=name, ctx=ast.Load())

        def flat(e, top=False):
            """rewrite e so that no impure call is left below its top"""
            if not impure_inside(e):
                return e
            if isinstance(e, (ast.BoolOp, ast.IfExp, ast.Lambda,
                              ast.ListComp, ast.SetComp, ast.DictComp,
                              ast.GeneratorExp)):
                return e   # evaluated conditionally / later: stays put
            kids = []   # (setter, child) in evaluation order
            if isinstance(e, ast.Call):
                if isinstance(e.func, ast.Attribute):
                    kids.append((lambda v: setattr(e.func, 'value', v),
                                 e.func.value))
                elif not isinstance(e.func, ast.Name):
                    kids.append((lambda v: setattr(e, 'func', v), e.func))
                for i, a in enumerate(e.args):
                    if isinstance(a, ast.Starred):
                        kids.append((lambda v, a=a: setattr(a, 'value', v),
                                     a.value))
                    else:
                        kids.append((lambda v, i=i: e.args.__setitem__(i, v),
                                     a))
                for kw in e.keywords:
                    kids.append((lambda v, kw=kw: setattr(kw, 'value', v),
                                 kw.value))
            elif isinstance(e, ast.BinOp):
                kids = [(lambda v: setattr(e, 'left', v), e.left),
                        (lambda v: setattr(e, 'right', v), e.right)]
            elif isinstance(e, ast.UnaryOp):
                kids = [(lambda v: setattr(e, 'operand', v), e.operand)]
            elif isinstance(e, ast.Compare):
                kids = [(lambda v: setattr(e, 'left', v), e.left)] + [
                    (lambda v, i=i: e.comparators.__setitem__(i, v), c)
                    for i, c in enumerate(e.comparators)]
            elif isinstance(e, ast.Attribute):
                kids = [(lambda v: setattr(e, 'value', v), e.value)]
            elif isinstance(e, ast.Subscript):
                kids = [(lambda v: setattr(e, 'value', v), e.value),
                        (lambda v: setattr(e, 'slice', v), e.slice)]
            elif isinstance(e, (ast.Tuple, ast.List)):
                kids = [(lambda v, i=i: e.elts.__setitem__(i, v), c)
                        for i, c in enumerate(e.elts)]
            elif isinstance(e, ast.Starred):
                kids = [(lambda v: setattr(e, 'value', v), e.value)]
            else:
                return e
            last = max(i for i, (_, c) in enumerate(kids)
                       if impure_inside(c)) if any(
                           impure_inside(c) for _, c in kids) else -1
            for i, (setter, c) in enumerate(kids):
                if i > last:
                    break
                if impure_inside(c):
                    c2 = flat(c)
                    if isinstance(c2, ast.Call) and not _is_at(c2) and \
                            not self.oracle.pure_call(c2, self.fresh,
                                                      self.callables):
                        c2 = temp(c2)
                    elif i < last and not isinstance(c2, (ast.Constant,
                                                         ast.Name)):
                        c2 = temp(c2)
                    setter(c2)
                elif i < last and not isinstance(c, (ast.Constant,
                                                     ast.Name)):
                    setter(temp(c))   # evaluated before a later effect
            return e

        def nested(e):
            """is there an impure call below the top of e?"""
            if isinstance(e, ast.Call) and not _is_at(e) and \
                    not self.oracle.pure_call(e, self.fresh, self.callables):
                return any(impure_inside(c)
                           for c in ast.iter_child_nodes(e)
                           if not isinstance(c, (ast.Load, ast.Store)))
            return impure_inside(e)

        st2 = None
        if isinstance(st, (ast.Expr, ast.Return)) and st.value is not None \
                and nested(st.value) and not isinstance(st.value, ast.IfExp):
            st2 = copy.deepcopy(st)
            st2.value = flat(st2.value)
        elif isinstance(st, (ast.Assign, ast.AugAssign)) and nested(
                st.value) and not isinstance(st.value, ast.IfExp):
            st2 = copy.deepcopy(st)
            st2.value = flat(st2.value)
        elif isinstance(st, ast.For) and impure_inside(st.iter):
            st2 = copy.copy(st)
            st2._orig = getattr(st, '_orig', st)
            it = flat(copy.deepcopy(st.iter))
            if isinstance(it, ast.Call) and not self.oracle.pure_call(
                    it, self.fresh, self.callables):
                it = temp(it)
            st2.iter = it
        elif isinstance(st, ast.If) and impure_inside(st.test) and \
                isinstance(st.test, (ast.Compare, ast.Call, ast.UnaryOp)):
            st2 = copy.copy(st)
            t = flat(copy.deepcopy(st.test))
            if isinstance(t, ast.Call) and not self.oracle.pure_call(
                    t, self.fresh, self.callables):
                t = temp(t)
            st2.test = t
        if st2 is None or not out:
            return None
        st2._anf = True
        return out + [st2]

    # -- versioned expressions ---------------------------------------------
    def settle(self, e, ver):
        """unwrap every snapshot that is still current"""
        mr = self.mr

        class T(ast.NodeTransformer):
            def visit_Call(self, n):
                self.generic_visit(n)
                if _is_at(n):
                    inner = n.args[0]
                    if '<%s>' % ver.tag(mr.refs_of(inner)) == n.args[1].id:
                        return inner
                return n
        return T().visit(e)

    def now(self, e, env, ver):
        """canonical text of e evaluated at this point"""
        x = self.settle(esub(e, env), ver)
        x = _ExprCanon().visit(x)
        ast.fix_missing_locations(x)
        return ast.unparse(x)

    def value(self, e, env, ver):
        """the value of a side-effect-free expression as of now"""
        x = self.settle(esub(e, env), ver)
        x = _ExprCanon().visit(x)
        if isinstance(x, (ast.Constant, ast.Lambda)) or (
                isinstance(x, ast.Name) and x.id.startswith('$')) or \
                _is_at(x):
            return x
        return self.wrap_leaves(x, ver)

    def wrap_leaves(self, x, ver):
        """tag every maximal state-reading operand (attribute / subscript
        chain, call) with the versions of what it reads; arithmetic,
        comparisons and displays around them carry no tag of their own, so
        that a snapshot of a compound equals the compound of snapshots"""
        if _is_at(x) or isinstance(x, (ast.Constant, ast.Lambda)):
            return x
        if isinstance(x, (ast.BinOp, ast.UnaryOp, ast.BoolOp, ast.Compare,
                          ast.IfExp, ast.Tuple, ast.List, ast.Starred,
                          ast.JoinedStr, ast.FormattedValue, ast.Set,
                          ast.Dict, ast.Slice)):
            for f, v in list(ast.iter_fields(x)):
                if isinstance(v, ast.expr):
                    setattr(x, f, self.wrap_leaves(v, ver))
                elif isinstance(v, list):
                    setattr(x, f, [self.wrap_leaves(e, ver) if isinstance(
                        e, ast.expr) else e for e in v])
            return x
        refs = self.mr.refs_of(x)
        if not refs:
            return x
        return ast.Call(func=ast.Name(id='$at', ctx=ast.Load()),
                        args=[x, ast.Name(id='<%s>' % ver.tag(refs),
                                          ctx=ast.Load())],
                        keywords=[])

    def expr_mods(self, e, env):
        """what evaluating e may change (impure calls inside)"""
        out = set()
        x = esub(e, env)
        for n in ast.walk(x):
            if isinstance(n, ast.Call) and not _is_at(n) and \
                    not self.oracle.pure_call(n, self.fresh, self.callables):
                out |= self.mr.call_mods(n)
        return out

    def target_mods(self, t, env):
        if isinstance(t, ast.Attribute):
            return {t.attr}
        if isinstance(t, ast.Subscript):
            base = esub(t.value, env)
            if isinstance(t.value, ast.Call) and call_name(
                    t.value) == 'globals':
                return {'globals'}
            return {cont(base)}
        if isinstance(t, (ast.Tuple, ast.List)):
            out = set()
            for x in t.elts:
                out |= self.target_mods(x, env)
            return out
        if isinstance(t, ast.Name) and t.id in self.globals:
            return {'globals'}
        return set()

    def stmts_mods(self, stmts, env):
        """everything a (compound) statement list may change; names bound
        inside are unknown objects"""
        out = set()
        inner = set()
        for s in stmts:
            inner |= _stores(s)
        env2 = {k: v for k, v in env.items() if k not in inner}
        for s in stmts:
            for n in ast.walk(s):
                if isinstance(n, (ast.Attribute, ast.Subscript)) and \
                        isinstance(n.ctx, (ast.Store, ast.Del)):
                    out |= self.target_mods(n, env2)
                elif isinstance(n, ast.Name) and isinstance(
                        n.ctx, ast.Store) and n.id in self.globals:
                    out.add('globals')
                elif isinstance(n, ast.AugAssign) and isinstance(
                        n.target, ast.Name):
                    v = env2.get(n.target.id)
                    if v is not None:
                        out.add(cont(v))
                    elif n.target.id not in self.fresh:
                        out.add('*[]')
                elif isinstance(n, ast.Call) and not self.oracle.pure_call(
                        n, self.fresh):
                    if isinstance(n.func, ast.Attribute) and \
                            n.func.attr in MUTATORS:
                        out.add(cont(esub(n.func.value, env2)))
                    else:
                        out |= self.mr.call_mods(n)
        return out

    # -- entry ---------------------------------------------------------------
    def build(self):
        fn = self.fn
        env = {}
        if isinstance(fn, (ast.FunctionDef, ast.AsyncFunctionDef)):
            a = fn.args
            i = 0
            for x in a.posonlyargs + a.args:
                if x.arg not in ('self', 'cls'):
                    env[x.arg] = ast.Name(id='$a%d' % i, ctx=ast.Load())
                i += 1
            if a.vararg:
                env[a.vararg.arg] = ast.Name(id='$va', ctx=ast.Load())
            if a.kwarg:
                env[a.kwarg.arg] = ast.Name(id='$kw', ctx=ast.Load())
            for x in a.kwonlyargs:
                env[x.arg] = ast.Name(id='$k_' + x.arg, ctx=ast.Load())
            sig = ('sig', len(a.posonlyargs + a.args),
                   tuple(ast.unparse(d) for d in a.defaults),
                   tuple(sorted(x.arg for x in a.kwonlyargs)),
                   bool(a.vararg), bool(a.kwarg),
                   tuple(ast.unparse(d) for d in fn.decorator_list
                         if 'locals' not in ast.unparse(d)))
        else:
            sig = ('sig', )
        body = copy.deepcopy(fn.body)
        self.body_for_following = body
        tree = self.block(body, env, Ver(), lambda env, ver: ('ret', 'None'))
        return (sig, tree)

    # -- statements ----------------------------------------------------------
    def block(self, stmts, env, ver, k):
        if not stmts:
            return k(env, ver)
        self.tick()
        st, rest = stmts[0], stmts[1:]
        if not getattr(st, '_anf', False):
            if any(isinstance(n, ast.ListComp) for n in ast.walk(st)) and \
                    not isinstance(st, (ast.FunctionDef, ast.For, ast.While,
                                        ast.If, ast.Try, ast.With)):
                st = _unroll_literal_comps(copy.deepcopy(st))
            pre = self.anf_stmt(st)
            if pre is not None:
                return self.block(pre + rest, env, ver, k)

        def k2(env, ver):
            return self.block(rest, env, ver, k)

        if isinstance(st, ast.Return):
            if st.value is None:
                return ('ret', 'None')
            if isinstance(st.value, ast.IfExp):
                return self.test(
                    st.value.test, env, ver,
                    lambda e, v: self.block(
                        [ast.Return(value=st.value.body)], e, v, k),
                    lambda e, v: self.block(
                        [ast.Return(value=st.value.orelse)], e, v, k))
            return ('ret', self.now(st.value, env, ver))
        if isinstance(st, ast.Raise):
            return ('raise', self.now(st.exc, env, ver) if st.exc else '')
        if isinstance(st, ast.Pass):
            return k2(env, ver)
        if isinstance(st, ast.If):
            return self.test(st.test, env, ver,
                             lambda e, v: self.block(st.body, e, v, k2),
                             lambda e, v: self.block(st.orelse, e, v, k2))
        if isinstance(st, ast.Assert):
            return self.test(st.test, env, ver, k2,
                             lambda e, v: ('raise', 'AssertionError'))
        if isinstance(st, ast.Expr):
            v = st.value
            if isinstance(v, ast.Constant) or self.pure(v):
                return k2(env, ver)  # no effect (print included)
            text = self.now(v, env, ver)
            return ('eff', text, k2(env, ver.bump(self.expr_mods(v, env))))
        if isinstance(st, ast.Assign):
            return self.assign(st, env, ver, k2)
        if isinstance(st, ast.AugAssign):
            return self.augassign(st, env, ver, k2)
        if isinstance(st, (ast.For, ast.While)):
            return self.loop(st, env, ver, k2)
        if isinstance(st, ast.Break):
            return ('break', self.carried_state(env, ver))
        if isinstance(st, ast.Continue):
            return ('continue', self.carried_state(env, ver))
        if isinstance(st, (ast.FunctionDef, ast.AsyncFunctionDef)):
            lam = self.def_as_lambda(st)
            env = dict(env)
            if lam is not None:
                shadow = {a.arg for a in st.args.args}
                env2 = {n: v for n, v in env.items() if n not in shadow}
                lam = copy.deepcopy(lam)
                lam.body = self.settle(esub(lam.body, env2), ver)
                env[st.name] = lam
                return k2(env, ver)
            inner = copy.deepcopy(st)
            shadow = {a.arg for a in st.args.args} | _stores(st)
            env2 = {n: v for n, v in env.items() if n not in shadow}
            inner.body = [_SubstEnv(env2).visit(s) for s in inner.body]
            sub = Builder(inner, self.oracle, self.mr)
            t = sub.build()
            s = self.sym('f')
            env[st.name] = s
            return ('eff', 'def %s = %r' % (s.id, t), k2(env, ver))
        return self.opaque(st, env, ver, k2)

    def carried_state(self, env, ver):
        """values, at this exit of the innermost loop / block body, of the
        names that live on after it"""
        if not self.scope_stack:
            return ''
        names = self.scope_stack[-1]
        return '; '.join('%s=%s' % (i, self.now(
            ast.Name(id=nm, ctx=ast.Load()), env, ver))
            for i, nm in enumerate(names))

    def opaque(self, st, env, ver, k2):
        if isinstance(st, (ast.Global, ast.Nonlocal)):
            env = {n: v for n, v in env.items() if n not in st.names}
            return ('eff', 'global ' + ','.join(sorted(st.names)),
                    k2(env, ver))
        if isinstance(st, (ast.Import, ast.ImportFrom)):
            return ('eff', ast.unparse(st), k2(env, ver))
        if isinstance(st, ast.Delete):
            text = 'del ' + ', '.join(self.now(_load(t), env, ver)
                                      for t in st.targets)
            mods = set()
            for t in st.targets:
                mods |= self.target_mods(t, env)
            env = {n: v for n, v in env.items() if n not in _stores(st)}
            return ('eff', text, k2(env, ver.bump(mods)))
        if isinstance(st, (ast.Try, ast.With)):
            parts = []
            if isinstance(st, ast.With):
                head = 'with ' + ', '.join(
                    self.now(i.context_expr, env, ver) for i in st.items)
                parts.append(('body', st.body))
            else:
                head = 'try'
                parts.append(('body', st.body))
                for h in st.handlers:
                    parts.append(('except ' + (self.now(h.type, env, ver)
                                               if h.type else ''), h.body))
                parts.append(('else', st.orelse))
                parts.append(('finally', st.finalbody))
            first = []
            if isinstance(st, ast.With):
                for i in st.items:
                    if i.optional_vars is not None:
                        for m in ast.walk(i.optional_vars):
                            if isinstance(m, ast.Name) and \
                                    m.id not in first:
                                first.append(m.id)
            else:
                for h in st.handlers:
                    if h.name and h.name not in first:
                        first.append(h.name)
            allst = []
            for _, body in parts:
                allst += list(body)
                for s_ in body:
                    for m in ast.walk(s_):
                        if isinstance(m, ast.Name) and isinstance(
                                m.ctx, (ast.Store, ast.Del)) and \
                                m.id not in first:
                            first.append(m.id)
            mods = self.stmts_mods(allst, env) | (
                {'io'} if isinstance(st, ast.With) else set())
            vin = ver.bump(mods)
            inner = dict(env)
            for nm in first:
                inner[nm] = self.sym('L')
            subs = []
            self.scope_stack.append(list(first))
            try:
                for label, body in parts:
                    subs.append((label, self.block(
                        list(body), dict(inner), vin,
                        lambda e, v: ('end', self.carried_state(e, v)))))
            finally:
                self.scope_stack.pop()
            after = dict(env)
            for nm in first:
                after[nm] = inner[nm]
            return ('block', head + ' <' + ' '.join(
                inner[nm].id for nm in first) + '>', tuple(subs),
                k2(after, vin.bump(mods)))
        raise Unsupported(type(st).__name__)

    def assign(self, st, env, ver, k2):
        v = st.value
        if any(isinstance(m, ast.Name) and m.id in self.globals
               for t in st.targets for m in ast.walk(t)):
            text = 'global %s = %s' % (
                ', '.join(ast.unparse(t) for t in st.targets),
                self.now(v, env, ver))
            return ('eff', text, k2(env, ver.bump(
                {'globals'} | self.expr_mods(v, env))))
        simple_targets = all(isinstance(t, ast.Name) for t in st.targets)
        if isinstance(v, ast.IfExp) and simple_targets:
            return self.test(
                v.test, env, ver,
                lambda e, vv: self.assign(ast.Assign(
                    targets=st.targets, value=v.body), e, vv, k2),
                lambda e, vv: self.assign(ast.Assign(
                    targets=st.targets, value=v.orelse), e, vv, k2))
        pure = self.pure(v)
        if simple_targets and pure:
            env = dict(env)
            if any(t.id in self.identity for t in st.targets) and \
                    _allocation(v):
                # an object with identity: created here, once
                s = self.sym('o')
                text = 'bind %s = %s' % (s.id, self.now(v, env, ver))
                for t in st.targets:
                    env[t.id] = s
                return ('eff', text, k2(env, ver))
            val = self.value(v, env, ver)
            for t in st.targets:
                env[t.id] = val
            return k2(env, ver)
        if len(st.targets) == 1 and isinstance(
                st.targets[0], (ast.Tuple, ast.List)) and all(
                    isinstance(t, ast.Name) for t in st.targets[0].elts) \
                and pure:
            tg = st.targets[0].elts
            val = self.settle(esub(v, env), ver)
            env = dict(env)
            if isinstance(val, (ast.Tuple, ast.List)) and len(
                    val.elts) == len(tg) and not any(
                        isinstance(x, ast.Starred) for x in val.elts):
                if any(t.id in self.identity and _allocation(x)
                       for t, x in zip(tg, val.elts)):
                    # evaluated left to right, then bound
                    seq = [ast.Assign(targets=[t], value=x)
                           for t, x in zip(tg, val.elts)]
                    if len({t.id for t in tg}) != len(tg) or any(
                            t.id in _loads(x) for t in tg
                            for x in val.elts):
                        raise Unsupported('tuple assignment')
                    return self.block(seq, env, ver, k2)
                for t, x in zip(tg, val.elts):
                    env[t.id] = self.value(x, {}, ver)
            else:
                for i, t in enumerate(tg):
                    env[t.id] = self.value(ast.Subscript(
                        value=copy.deepcopy(val),
                        slice=ast.Constant(value=i), ctx=ast.Load()), {},
                        ver)
            return k2(env, ver)
        if all(isinstance(m, (ast.Name, ast.Tuple, ast.List, ast.Store,
                              ast.Load))
               for t in st.targets for m in ast.walk(t)):
            # x = impure()  /  a, b = impure()
            vtext = self.now(v, env, ver)
            env = dict(env)
            s = self.sym('b')
            for t in st.targets:
                if isinstance(t, ast.Name):
                    env[t.id] = s
                else:
                    for i, m in enumerate(t.elts):
                        if not isinstance(m, ast.Name):
                            raise Unsupported('nested unpacking')
                        env[m.id] = ast.Subscript(
                            value=s, slice=ast.Constant(value=i),
                            ctx=ast.Load())
            return ('eff', 'bind %s = %s' % (s.id, vtext),
                    k2(env, ver.bump(self.expr_mods(v, env))))
        # store into attribute / subscript (possibly chained with names)
        tts = []
        mods = self.expr_mods(v, env)
        for t in st.targets:
            if isinstance(t, ast.Name):
                if not pure:
                    raise Unsupported('mixed chained assignment')
                tts.append('<local>')
                continue
            tts.append(self.now(_load(t), env, ver))
            mods |= self.target_mods(t, env)
        text = ' = '.join(tts + [self.now(v, env, ver)])
        env2 = dict(env)
        for t in st.targets:
            if isinstance(t, ast.Name):
                env2[t.id] = self.value(v, env, ver)
        return ('eff', text, k2(env2, ver.bump(mods)))

    def augassign(self, st, env, ver, k2):
        if isinstance(st.target, ast.Name) and \
                st.target.id not in self.globals:
            cur = env.get(st.target.id)
            if cur is not None and self.pure(st.value) and \
                    not _reference(cur):
                env = dict(env)
                env[st.target.id] = self.value(ast.BinOp(
                    left=copy.deepcopy(cur), op=st.op,
                    right=esub(st.value, env)), {}, ver)
                return k2(env, ver)
            base = self.now(ast.Name(id=st.target.id, ctx=ast.Load()), env,
                            ver)
            text = '%s %s= %s' % (base, type(st.op).__name__,
                                  self.now(st.value, env, ver))
            mods = self.expr_mods(st.value, env)
            env2 = dict(env)
            if cur is not None and isinstance(cur, ast.Name) and \
                    cur.id.startswith('$o'):
                mods.add('obj:' + cur.id)   # in place on a local object
            else:
                # unknown: in place on a shared object, or a rebinding
                if cur is not None:
                    mods.add(cont(cur))
                s = self.sym('b')
                text = 'bind %s = %s' % (s.id, text)
                env2[st.target.id] = s
            return ('eff', text, k2(env2, ver.bump(mods)))
        tt = _load(st.target)
        text = '%s %s= %s' % (self.now(tt, env, ver), type(st.op).__name__,
                              self.now(st.value, env, ver))
        mods = self.expr_mods(st.value, env) | self.target_mods(
            st.target, env)
        return ('eff', text, k2(env, ver.bump(mods)))

    def unrolled(self, st, env, ver):
        """for x in (<literal elements>): body  ->  the body once per
        element (no break/continue at this level)"""
        if not isinstance(st, ast.For) or st.orelse:
            return None
        it = self.settle(esub(st.iter, env), ver)
        rows = None
        if isinstance(it, (ast.Tuple, ast.List)):
            rows = list(it.elts)
        elif isinstance(it, ast.Call) and isinstance(it.func, ast.Name) \
                and not it.keywords:
            if it.func.id == 'enumerate' and len(it.args) == 1 and \
                    isinstance(it.args[0], (ast.Tuple, ast.List)):
                rows = [ast.Tuple(elts=[ast.Constant(value=i), x],
                                  ctx=ast.Load())
                        for i, x in enumerate(it.args[0].elts)]
            elif it.func.id == 'zip' and it.args and all(
                    isinstance(a, (ast.Tuple, ast.List)) for a in it.args) \
                    and len({len(a.elts) for a in it.args}) == 1:
                rows = [ast.Tuple(elts=list(xs), ctx=ast.Load())
                        for xs in zip(*[a.elts for a in it.args])]
            elif it.func.id == 'range' and len(it.args) == 1 and \
                    isinstance(it.args[0], ast.Constant) and type(
                        it.args[0].value) is int and \
                    0 <= it.args[0].value <= 8:
                rows = [ast.Constant(value=i)
                        for i in range(it.args[0].value)]
        if rows is None or len(rows) > 16 or any(
                isinstance(r, ast.Starred) for r in rows):
            return None

        def level_exit(stmts):
            for s_ in stmts:
                if isinstance(s_, (ast.Break, ast.Continue)):
                    return True
                if isinstance(s_, (ast.If, ast.Try, ast.With)):
                    for f in ('body', 'orelse', 'finalbody'):
                        if level_exit(getattr(s_, f, []) or []):
                            return True
                    for h in getattr(s_, 'handlers', []):
                        if level_exit(h.body):
                            return True
            return False
        if level_exit(st.body):
            return None
        out = []
        for r in rows:
            out.append(ast.Assign(targets=[copy.deepcopy(st.target)],
                                  value=r))
            out.extend(copy.deepcopy(st.body))
        return out

    def _iteration_local(self, name, loop):
        """assigned before any use in every iteration, and never read
        outside the loop: a temporary of one iteration"""
        def mentions(node):
            return any(isinstance(m, ast.Name) and m.id == name
                       for m in ast.walk(node))

        def defined_first(stmts):
            for i, s_ in enumerate(stmts):
                if not mentions(s_):
                    continue
                if isinstance(s_, ast.Assign) and name in {
                        m.id for t in s_.targets for m in ast.walk(t)
                        if isinstance(m, ast.Name)}:
                    return name not in _loads(s_.value)
                if isinstance(s_, ast.For) and name in _stores(
                        s_.target) and name not in _loads(s_.iter):
                    return True
                if isinstance(s_, ast.For) and not mentions(
                        s_.target) and not mentions(s_.iter) and not any(
                            mentions(x) for x in stmts[i + 1:]):
                    return defined_first(s_.body)
                if isinstance(s_, (ast.If, ast.With)) and not any(
                        mentions(x) for x in stmts[i + 1:]) and not (
                            isinstance(s_, ast.If) and mentions(s_.test)):
                    parts = [p_ for p_ in (s_.body, getattr(
                        s_, 'orelse', [])) if any(mentions(x) for x in p_)]
                    return all(defined_first(p_) for p_ in parts)
                return False
            return False
        if not defined_first(loop.body):
            return False
        def count(node):
            if isinstance(node, (ast.ListComp, ast.SetComp, ast.DictComp,
                                 ast.GeneratorExp)) and any(
                                     name in _stores(g.target)
                                     for g in node.generators):
                # the name is a variable of the comprehension's own scope
                return count(node.generators[0].iter)
            if isinstance(node, ast.Lambda) and name in {
                    x.arg for x in node.args.args}:
                return 0
            k_ = 1 if isinstance(node, ast.Name) and node.id == name else 0
            return k_ + sum(count(c) for c in ast.iter_child_nodes(node))
        inside = sum(count(s_) for s_ in loop.body)
        whole = sum(count(s_) for s_ in self.body_for_following)
        if inside == whole:
            return True
        # used elsewhere: harmless if whatever may run after the loop
        # defines the name again before reading it
        fol = self._following(loop)
        if fol is None:
            return False
        for s_ in fol:
            if isinstance(s_, (ast.Return, ast.Raise)):
                return not count(s_)
            if not count(s_):
                continue
            if isinstance(s_, ast.Assign) and name in {
                    m.id for t in s_.targets for m in ast.walk(t)
                    if isinstance(m, ast.Name)} and \
                    name not in _loads(s_.value):
                return True
            if isinstance(s_, ast.For) and name in _stores(s_.target) \
                    and name not in _loads(s_.iter):
                return True
            if isinstance(s_, ast.Return) and not count(s_):
                return True
            return False
        return True

    def _following(self, loop):
        """statements that may execute after the loop, in order (None when
        the loop sits in another loop: the back edge re-enters anything)"""
        path = []

        def find(stmts, trail):
            for i, s_ in enumerate(stmts):
                if s_ is loop or s_ is getattr(loop, '_orig', None) or \
                        getattr(s_, '_orig', None) is loop:
                    path.extend(trail + [(stmts, i)])
                    return True
                for f in ('body', 'orelse', 'finalbody'):
                    sub = getattr(s_, f, None)
                    if isinstance(sub, list) and sub and isinstance(
                            sub[0], ast.stmt):
                        if isinstance(s_, (ast.FunctionDef, ast.Lambda)):
                            continue
                        if find(sub, trail + [(stmts, i)]):
                            return True
                for h in getattr(s_, 'handlers', []):
                    if find(h.body, trail + [(stmts, i)]):
                        return True
            return False
        if not find(self.body_for_following, []):
            return None
        out = []
        for k_ in range(len(path) - 1, -1, -1):
            stmts, i = path[k_]
            out.extend(stmts[i + 1:])
            if k_ > 0:
                parent = path[k_ - 1][0][path[k_ - 1][1]]
                if isinstance(parent, (ast.For, ast.While)) and \
                        stmts is parent.body:
                    # back edge of the enclosing loop: its body starts over
                    if isinstance(parent, ast.While):
                        out.append(ast.Expr(value=parent.test))
                    out.extend(stmts[:i + 1])
        return out

    def _zip_neighbours(self, st):
        """for [i,] (a, b) in [enumerate(]zip(X[:-1], X[1:])[)]  ->
        for i in range(len(X) - 1): a = X[i]; b = X[i + 1]"""
        if not isinstance(st, ast.For) or st.orelse:
            return st
        it, tgt = st.iter, st.target
        idx = None
        if isinstance(it, ast.Call) and isinstance(it.func, ast.Name) and \
                it.func.id == 'enumerate' and len(it.args) == 1 and \
                not it.keywords and isinstance(tgt, (ast.Tuple, ast.List)) \
                and len(tgt.elts) == 2 and isinstance(tgt.elts[0], ast.Name):
            idx, tgt, it = tgt.elts[0].id, tgt.elts[1], it.args[0]
        if not (isinstance(it, ast.Call) and isinstance(it.func, ast.Name)
                and it.func.id == 'zip' and len(it.args) == 2
                and not it.keywords and isinstance(tgt, (ast.Tuple,
                                                         ast.List))
                and len(tgt.elts) == 2):
            return st
        a0, a1 = it.args

        def sl(e, lo, hi):
            return isinstance(e, ast.Subscript) and isinstance(
                e.slice, ast.Slice) and e.slice.step is None and (
                    (lo is None and e.slice.lower is None) or (
                        lo is not None and isinstance(
                            e.slice.lower, ast.Constant)
                        and e.slice.lower.value == lo)) and (
                    (hi is None and e.slice.upper is None) or (
                        hi is not None and isinstance(
                            e.slice.upper, ast.UnaryOp) and isinstance(
                                e.slice.upper.op, ast.USub) and isinstance(
                                    e.slice.upper.operand, ast.Constant)
                        and e.slice.upper.operand.value == -hi))
        if not (sl(a0, None, -1) and sl(a1, 1, None) and ast.dump(
                a0.value) == ast.dump(a1.value) and isinstance(
                    a0.value, (ast.Name, ast.Attribute))):
            return st
        X = a0.value
        stores = set()
        for s_ in st.body:
            stores |= _stores(s_)
        if idx is None:
            idx = '_zi%d' % (self.nsym + 1)
            self.nsym += 1
        if idx in stores or (_stores(tgt) & stores):
            return st
        i_ = ast.Name(id=idx, ctx=ast.Load())
        new = ast.For(
            target=ast.Name(id=idx, ctx=ast.Store()),
            iter=ast.Call(func=ast.Name(id='range', ctx=ast.Load()), args=[
                ast.BinOp(left=ast.Call(
                    func=ast.Name(id='len', ctx=ast.Load()),
                    args=[copy.deepcopy(X)], keywords=[]), op=ast.Sub(),
                    right=ast.Constant(value=1))], keywords=[]),
            body=[ast.Assign(targets=[tgt.elts[0]], value=ast.Subscript(
                value=copy.deepcopy(X), slice=i_, ctx=ast.Load())),
                ast.Assign(targets=[tgt.elts[1]], value=ast.Subscript(
                    value=copy.deepcopy(X), slice=ast.BinOp(
                        left=copy.deepcopy(i_), op=ast.Add(),
                        right=ast.Constant(value=1)), ctx=ast.Load()))] +
            list(st.body), orelse=[])
        new._orig = getattr(st, '_orig', st)
        return new

    def loop(self, st, env, ver, k2):
        un = self.unrolled(st, env, ver)
        if un is not None:
            # the element expressions are already expanded: bind them as
            # values, then run the copies of the body
            return self.block(un, env, ver, k2)
        if st.orelse:
            raise Unsupported('loop-else')
        st = self._zip_neighbours(st)
        if isinstance(st, ast.For) and isinstance(st.iter, ast.Call) and \
                isinstance(st.iter.func, ast.Name) and \
                st.iter.func.id == 'enumerate' and len(
                    st.iter.args) == 1 and not st.iter.keywords and \
                isinstance(st.target, (ast.Tuple, ast.List)) and len(
                    st.target.elts) == 2 and isinstance(
                        st.target.elts[0], ast.Name):
            seq = esub(st.iter.args[0], env)
            core_ = seq
            while _is_at(core_):
                core_ = core_.args[0]
            idx = st.target.elts[0].id
            body_stores = set()
            for s_ in st.body:
                body_stores |= _stores(s_)
            if isinstance(core_, (ast.Name, ast.Attribute, ast.Subscript)) \
                    and idx not in body_stores and not (
                        _stores(st.target.elts[1]) & body_stores):
                # for i, x in enumerate(seq)  ==  for i in range(len(seq)):
                # x = seq[i]   (seq is a sequence that is indexed anyway)
                new = ast.For(
                    target=ast.Name(id=idx, ctx=ast.Store()),
                    iter=ast.Call(
                        func=ast.Name(id='range', ctx=ast.Load()),
                        args=[ast.Call(func=ast.Name(id='len',
                                                     ctx=ast.Load()),
                                       args=[st.iter.args[0]],
                                       keywords=[])], keywords=[]),
                    body=[ast.Assign(
                        targets=[st.target.elts[1]],
                        value=ast.Subscript(
                            value=st.iter.args[0],
                            slice=ast.Name(id=idx, ctx=ast.Load()),
                            ctx=ast.Load()))] + list(st.body),
                    orelse=[])
                new._orig = getattr(st, '_orig', st)
                st = new
        if isinstance(st, ast.For):
            head = 'for in ' + self.now(st.iter, env, ver)
        else:
            head = 'while'
        first = []
        for s in st.body:
            for m in ast.walk(s):
                if isinstance(m, ast.Name) and isinstance(
                        m.ctx, (ast.Store, ast.Del)) and m.id not in first:
                    first.append(m.id)
        tnames = []
        if isinstance(st, ast.For):
            for m in ast.walk(st.target):
                if isinstance(m, ast.Name) and m.id not in tnames:
                    tnames.append(m.id)
        head_reads = _loads(st.test) if isinstance(st, ast.While) else set()
        carried = [n for n in first if n not in tnames
                   and (n in head_reads
                        or not self._iteration_local(n, st))]
        # whatever the body may change has changed an unknown number of
        # times when an iteration starts
        mods = self.stmts_mods(st.body, env)
        if isinstance(st, ast.While):
            mods |= self.expr_mods(st.test, env)
        vin = ver.bump(mods)
        inner = dict(env)
        for nm in tnames + carried:
            inner[nm] = self.sym('L')
        if isinstance(st, ast.While):
            body = [ast.If(test=st.test, body=[ast.Pass()],
                           orelse=[ast.Break()])] + list(st.body)
        else:
            body = list(st.body)
        self.scope_stack.append(list(tnames + carried))
        try:
            btree = self.block(
                body, inner, vin,
                lambda e, v: ('continue', self.carried_state(e, v)))
        finally:
            self.scope_stack.pop()
        after = {k_: v_ for k_, v_ in env.items()
                 if k_ not in first or k_ in tnames or k_ in carried}
        for nm in tnames + carried:
            after[nm] = inner[nm]
        return ('loop', head + ' <' + ' '.join(
            inner[nm].id for nm in tnames + carried) + '>', btree,
            k2(after, vin.bump(mods)))

    # -- conditions ----------------------------------------------------------
    def _atom_text(self, e):
        swap = False

        def tx(x):
            x = _ExprCanon().visit(copy.deepcopy(x))
            ast.fix_missing_locations(x)
            return ast.unparse(x)

        if isinstance(e, ast.Compare):
            op = e.ops[0]
            l, r = tx(e.left), tx(e.comparators[0])
            if isinstance(op, ast.Lt):
                atom = 'Lt(%s, %s)' % (l, r)
            elif isinstance(op, ast.Gt):
                atom = 'Lt(%s, %s)' % (r, l)
            elif isinstance(op, ast.GtE):
                atom, swap = 'Lt(%s, %s)' % (l, r), True
            elif isinstance(op, ast.LtE):
                atom, swap = 'Lt(%s, %s)' % (r, l), True
            elif isinstance(op, (ast.Eq, ast.NotEq)):
                a, b = sorted([l, r])
                atom, swap = 'Eq(%s, %s)' % (a, b), isinstance(op, ast.NotEq)
            elif isinstance(op, (ast.Is, ast.IsNot)):
                a, b = sorted([l, r])
                atom, swap = 'Is(%s, %s)' % (a, b), isinstance(op, ast.IsNot)
            elif isinstance(op, (ast.In, ast.NotIn)):
                atom, swap = 'In(%s, %s)' % (l, r), isinstance(op, ast.NotIn)
            else:
                raise Unsupported('comparison')
        else:
            atom = 'T:' + tx(e)
        return atom, swap

    def atom_key(self, atom, e, ver, forced):
        """the condition together with the versions of everything it reads:
        a snapshot taken earlier and the same expression evaluated when the
        snapshot was taken are the same condition"""
        vers = {k_: v_ for k_, v_ in (forced or {}).items()
                if not k_.startswith('$')}
        ok = True

        class U(ast.NodeTransformer):
            def visit_Call(self_, n):
                nonlocal ok
                if _is_at(n):
                    for r, k in _parse_tag(n.args[1].id).items():
                        if vers.setdefault(r, k) != k:
                            ok = False
                    return self_.visit(n.args[0])
                self_.generic_visit(n)
                return n
        has_at = any(_is_at(n) for n in ast.walk(e))
        if has_at:
            e2 = U().visit(copy.deepcopy(e))
        else:
            e2 = e
        if not ok:
            return atom + ' #' + ver.tag(self.mr.refs_of(e))
        parts = []
        for r in sorted(self.mr.refs_of(e2)):
            if r in vers:
                parts.append('%s:%d' % (r, vers[r]))
            else:
                parts.append('%s:%s' % (r, ver.tag({r}).split(':')[-1]))
        if has_at:
            # rebuild the text without the wrappers
            atom = self._atom_text(e2)[0]
        return atom + ' #' + ','.join(parts)

    def test(self, e, env, ver, kt, kf, done=False, forced=None):
        self.tick()
        if not done:
            # purity is judged on the source expression, where local
            # callables are still visible by name
            forced = dict(forced or {})
            forced['$pure'] = self.pure(e)
            e = self.settle(esub(e, env), ver)
        if isinstance(e, ast.UnaryOp) and isinstance(e.op, ast.Not):
            return self.test(e.operand, env, ver, kf, kt, True, forced)
        if isinstance(e, ast.BoolOp):
            vals = list(e.values)
            first, rest = vals[0], vals[1:]
            more = rest[0] if len(rest) == 1 else ast.BoolOp(op=e.op,
                                                             values=rest)
            if isinstance(e.op, ast.And):
                return self.test(
                    first, env, ver,
                    lambda en, v: self.test(more, en, v, kt, kf, True, forced),
                    kf, True, forced)
            return self.test(
                first, env, ver, kt,
                lambda en, v: self.test(more, en, v, kt, kf, True, forced),
                True, forced)
        if isinstance(e, ast.Compare) and len(e.ops) > 1:
            parts = []
            left = e.left
            for op, c in zip(e.ops, e.comparators):
                parts.append(ast.Compare(left=left, ops=[op],
                                         comparators=[c]))
                left = c
            return self.test(ast.BoolOp(op=ast.And(), values=parts), env,
                             ver, kt, kf, True, forced)
        if isinstance(e, ast.IfExp):
            return self.test(
                e.test, env, ver,
                lambda en, v: self.test(e.body, en, v, kt, kf, True, forced),
                lambda en, v: self.test(e.orelse, en, v, kt, kf, True,
                                        forced), True, forced)
        if _is_at(e) and isinstance(e.args[0], (ast.BoolOp, ast.UnaryOp,
                                                ast.Compare, ast.IfExp)):
            # a boolean snapshot that is no longer current: decompose it,
            # its parts are read at the versions of the snapshot
            f2 = dict(forced or {})
            for r, n in _parse_tag(e.args[1].id).items():
                if f2.setdefault(r, n) != n:
                    raise Unsupported('snapshots of different times')
            return self.test(e.args[0], env, ver, kt, kf, True, f2)
        if isinstance(e, ast.Constant):
            return kt(env, ver) if e.value else kf(env, ver)
        if isinstance(e, ast.Compare) and len(e.ops) == 1 and isinstance(
                e.ops[0], (ast.Is, ast.IsNot)) and isinstance(
                    e.left, ast.Constant) and isinstance(
                        e.comparators[0], ast.Constant) and (
                            e.left.value is None
                            or e.comparators[0].value is None):
            same = e.left.value is None and e.comparators[0].value is None
            if isinstance(e.ops[0], ast.IsNot):
                same = not same
            return kt(env, ver) if same else kf(env, ver)
        if isinstance(e, ast.Compare) and len(e.ops) == 1 and isinstance(
                e.ops[0], (ast.Lt, ast.LtE, ast.Gt, ast.GtE, ast.Eq,
                           ast.NotEq)):
            try:
                l = ast.literal_eval(e.left)
                r = ast.literal_eval(e.comparators[0])
                if isinstance(l, (int, float)) and isinstance(
                        r, (int, float)):
                    import operator
                    fn = {ast.Lt: operator.lt, ast.LtE: operator.le,
                          ast.Gt: operator.gt, ast.GtE: operator.ge,
                          ast.Eq: operator.eq, ast.NotEq: operator.ne}[
                              type(e.ops[0])]
                    return kt(env, ver) if fn(l, r) else kf(env, ver)
            except (ValueError, TypeError, SyntaxError):
                pass
        if not (forced or {}).get('$pure', False) and not self.pure(e):
            # the call happens here, once
            s = self.sym('b')
            txt = 'bind %s = %s' % (s.id, self.now(e, {}, ver))
            v2 = ver.bump(self.expr_mods(e, {}))
            return ('eff', txt, ('ite', 'T:' + s.id, kt(dict(env), v2),
                                 kf(dict(env), v2)))
        atom, swap = self._atom_text(e)
        # the same condition at the same versions of what it reads has the
        # same value
        atom = self.atom_key(atom, e, ver, forced)
        t, f = (kf, kt) if swap else (kt, kf)
        return ('ite', atom, t(dict(env), ver), f(dict(env), ver))


# --------------------------------------------------------------------------
# comparison of two trees
# --------------------------------------------------------------------------
_SYM = r'\$[bLfo]\d+'


def _renumber(text, m):
    import re
    return re.sub(_SYM, lambda mo: m.get(mo.group(0), mo.group(0)), text)


def _parse_atom(key):
    """'Lt(A, B) #tag' -> ('Lt', A, B, tag) (None for other conditions)"""
    if not key.startswith(('Lt(', 'Eq(')):
        return None
    body, _, tag = key.rpartition(' #')
    if not body.endswith(')'):
        return None
    inner = body[3:-1]
    depth = 0
    quote = None
    for i, ch in enumerate(inner):
        if quote:
            if ch == quote:
                quote = None
            continue
        if ch in '\'"':
            quote = ch
        elif ch in '([{':
            depth += 1
        elif ch in ')]}':
            depth -= 1
        elif ch == ',' and depth == 0 and inner[i + 1:i + 2] == ' ':
            return (body[:2], inner[:i], inner[i + 2:], tag)
    return None


def _consistent(key, val, assign):
    """The conditions are read as statements about a strict linear order on
    the values they compare (the only arithmetic the comparison of trees
    uses): the new one must not contradict the ones already assumed.
    Facts combine only when they read the same versions of the state."""
    p = _parse_atom(key)
    if p is None:
        return True
    kind, x, y, tag = p
    tagd = _parse_tag(tag)

    def compatible(t2):
        d2 = _parse_tag(t2)
        return all(d2.get(r, n) == n for r, n in tagd.items())
    # edges u -> v with weight strict/non-strict meaning u < v / u <= v
    edges = []

    def add(k2, v2):
        q = _parse_atom(k2)
        if q is None or not compatible(q[3]):
            return
        kd, a_, b_, _ = q
        if kd == 'Lt':
            if v2:
                edges.append((a_, b_, True))
            else:
                edges.append((b_, a_, False))
        elif v2:
            edges.append((a_, b_, False))
            edges.append((b_, a_, False))
    for k2, v2 in assign.items():
        add(k2, v2)
    # repository fact (checked by R-geometry on the constructors): the two
    # interval attributes of an element are ordered pairs
    import re
    nodes = {x, y} | {a_ for a_, _, _ in edges} | {b_ for _, b_, _ in edges}
    for nd in list(nodes):
        m_ = re.fullmatch(r'(.+\.(?:time|space)_interval)\[0\]', nd)
        if m_ and m_.group(1) + '[1]' in nodes:
            edges.append((nd, m_.group(1) + '[1]', True))

    def reach(src, dst):
        """(reachable, reachable through at least one strict edge)"""
        best = {src: False}
        todo = [src]
        while todo:
            u = todo.pop()
            for a_, b_, st in edges:
                if a_ == u:
                    s2 = best[u] or st
                    if b_ not in best or (s2 and not best[b_]):
                        best[b_] = s2
                        todo.append(b_)
        return (dst in best, best.get(dst, False))
    if kind == 'Lt' and val:          # x < y  against  y <= x
        return not reach(y, x)[0]
    if kind == 'Lt' and not val:      # y <= x against  x < y
        return not reach(x, y)[1]
    if kind == 'Eq' and val:          # x == y against a strict path
        return not reach(x, y)[1] and not reach(y, x)[1]
    return True                       # x != y: never refuted here


class _Eq:
    def __init__(self):
        self.steps = 0

    def eq(self, a, b, assign, ma, mb):
        self.steps += 1
        if self.steps > 200000:
            raise TooBig()
        while a[0] == 'ite':
            key = _renumber(a[1], ma)
            if key in assign:
                a = a[2] if assign[key] else a[3]
            else:
                break
        while b[0] == 'ite':
            key = _renumber(b[1], mb)
            if key in assign:
                b = b[2] if assign[key] else b[3]
            else:
                break
        for t, m in ((a, ma), (b, mb)):
            if t[0] == 'ite':
                key = _renumber(t[1], m)
                for val in (True, False):
                    if not _consistent(key, val, assign):
                        continue   # contradicts what is already assumed
                    as2 = dict(assign)
                    as2[key] = val
                    if not self.eq(a, b, as2, ma, mb):
                        return False
                return True
        if a[0] != b[0]:
            return False
        if a[0] in ('ret', 'raise'):
            return _renumber(a[1], ma) == _renumber(b[1], mb)
        if a[0] in ('break', 'continue', 'end'):
            ta_ = a[1] if len(a) > 1 else ''
            tb_ = b[1] if len(b) > 1 else ''
            return _renumber(ta_, ma) == _renumber(tb_, mb)
        if a[0] == 'eff':
            ma, mb = dict(ma), dict(mb)
            if not self._match_text(a[1], b[1], ma, mb):
                return False
            return self.eq(a[2], b[2], assign, ma, mb)
        if a[0] == 'block':
            ma, mb = dict(ma), dict(mb)
            if not self._match_text(a[1], b[1], ma, mb):
                return False
            if len(a[2]) != len(b[2]):
                return False
            for (la, sa_), (lb, sb_) in zip(a[2], b[2]):
                if not self._match_text(la, lb, ma, mb):
                    return False
                if not self.eq(sa_, sb_, dict(assign), ma, mb):
                    return False
            return self.eq(a[3], b[3], assign, ma, mb)
        if a[0] == 'loop':
            ma, mb = dict(ma), dict(mb)
            if not self._match_text(a[1], b[1], ma, mb):
                return False
            if not self.eq(a[2], b[2], dict(assign), ma, mb):
                return False
            return self.eq(a[3], b[3], assign, ma, mb)
        raise Unsupported(a[0])

    def _match_text(self, ta, tb, ma, mb):
        """texts equal modulo the numbering of bound symbols; new symbols
        are paired where they are introduced"""
        import re
        sa = re.findall(_SYM, ta)
        sb = re.findall(_SYM, tb)
        if len(sa) != len(sb):
            return False
        for x, y in zip(sa, sb):
            cx = ma.get(x)
            cy = mb.get(y)
            if cx is None and cy is None:
                c = '$S%d' % (len(ma) + 1)
                ma[x] = c
                mb[y] = c
            elif cx != cy:
                return False
        return _renumber(ta, ma) == _renumber(tb, mb)


def canon(fn, oracle, cls=None):
    _CURRENT[0] = oracle
    _CURRENT[1] = cls
    return Builder(fn, oracle, oracle.modref()).build()


def equivalent(ref_fn, cur_fn, oracle, cls=None):
    try:
        ta = canon(ref_fn, oracle, cls)
        tb = canon(cur_fn, oracle, cls)
    except (TooBig, Unsupported, RecursionError):
        return False
    if ta[0] != tb[0]:
        return False
    try:
        return _Eq().eq(ta[1], tb[1], {}, {}, {})
    except (TooBig, Unsupported, RecursionError):
        return False


def _without_asserts(fn):
    class D(ast.NodeTransformer):
        def visit_Assert(self, n):
            return ast.Pass()
    return D().visit(copy.deepcopy(fn))


def assert_texts(fn):
    return sorted(ast.unparse(n.test) for n in ast.walk(fn)
                  if isinstance(n, ast.Assert))


def equivalent_modulo_asserts(ref_fn, cur_fn, oracle, cls=None):
    """the same function once every assert statement is deleted on both
    sides (which assertions can fail is then a separate question)"""
    return equivalent(_without_asserts(ref_fn), _without_asserts(cur_fn),
                      oracle, cls)


def explain(ref_fn, cur_fn, oracle):
    """first point where the two decision trees differ (for debugging)"""
    try:
        ta = canon(ref_fn, oracle)
        tb = canon(cur_fn, oracle)
    except (TooBig, Unsupported, RecursionError) as e:
        return 'cannot build: %s %s' % (type(e).__name__, e)
    if ta[0] != tb[0]:
        return 'signature %r vs %r' % (ta[0], tb[0])
    log = []

    class E(_Eq):
        def eq(self, a, b, assign, ma, mb):
            r = super().eq(a, b, assign, ma, mb)
            if not r and not log:
                while a[0] == 'ite' and _renumber(a[1], ma) in assign:
                    a = a[2] if assign[_renumber(a[1], ma)] else a[3]
                while b[0] == 'ite' and _renumber(b[1], mb) in assign:
                    b = b[2] if assign[_renumber(b[1], mb)] else b[3]

                ta_ = _renumber(a[1], ma) if len(a) > 1 and isinstance(
                    a[1], str) else ''
                tb_ = _renumber(b[1], mb) if len(b) > 1 and isinstance(
                    b[1], str) else ''
                pos = 0
                while pos < min(len(ta_), len(tb_)) and \
                        ta_[pos] == tb_[pos]:
                    pos += 1
                pos = max(0, pos - 60)

                def head(t, m):
                    return (t[0], _renumber(t[1], m)[pos:pos + 400]
                            if len(t) > 1 and isinstance(t[1], str) else '')
                log.append('under %s:\n   ref %s\n   cur %s' % (
                    {k: v for k, v in list(assign.items())[-6:]},
                    head(a, ma), head(b, mb)))
            return r
    try:
        ok = E().eq(ta[1], tb[1], {}, {}, {})
    except (TooBig, Unsupported, RecursionError) as e:
        return 'cannot compare: %s' % type(e).__name__
    return 'equivalent' if ok else log[0]
