"""K8 -- problems.py: each closed-form M0u0 is the free-space heat extension
of u0 * 1_Omega (heat equation + initial trace), g-linform is the element
integral of g.  K9 -- literal curve geometry."""
import ast
import random

import sympy as sp

from .absint import text
from .core import AnalysisError, Program
from .kernels import Cert, collect_returns
from .lift import Lifter, check_identity

PR = 'problems.py'
P = 'src/parametrization.py'

t = sp.Symbol('t', positive=True)
x, y = sp.symbols('x y', real=True)


def _xy_hook(names):
    def hook(tx):
        return names.get(tx)
    return hook


def lift_M0u0(prog, fname):
    fi = prog.func(PR, fname + '.M0u0')
    rets = collect_returns(fi)['']
    if len(rets) != 1:
        raise AnalysisError('%s: one return expected' % fi.where())
    state, val, st = rets[0]
    params = fi.params  # (t, xy)
    tn, xyn = params[0], params[1]
    names = {tn: t, xyn + '[0]': x, xyn + '[1]': y}
    L = Lifter(fi.module, name_hook=_xy_hook(names))
    # strip a trailing .real (linear PDE: the real part inherits it)
    v = val
    real = False
    if isinstance(v, ast.Attribute) and v.attr == 'real':
        v = v.value
        real = True
    return fi, L.lift(v), real


def lift_u0(prog, fname):
    m = prog.module(PR)
    fo = prog.func(PR, fname)
    # u0 is a nested def or a lambda in the returned dict
    if fname + '.u0' in m.funcs:
        fi = m.funcs[fname + '.u0']
        rets = collect_returns(fi)['']
        state, val, st = rets[0]
        xyn = fi.params[0]
        L = Lifter(fi.module, name_hook=_xy_hook({xyn + '[0]': x,
                                                  xyn + '[1]': y}))
        return L.lift(val)
    for n in ast.walk(fo.node):
        if isinstance(n, ast.Dict):
            for k, v in zip(n.keys, n.values):
                if isinstance(k, ast.Constant) and k.value == 'u0' and \
                        isinstance(v, ast.Lambda):
                    xyn = v.args.args[0].arg
                    L = Lifter(fo.module,
                               name_hook=_xy_hook({xyn + '[0]': x,
                                                   xyn + '[1]': y}))
                    return L.lift(v.body)
    raise AnalysisError('%s: u0 not found' % fo.where())


def polygon_of(prog, cls):
    """Literal vertex list of a PiecewisePolygon subclass."""
    ci = prog.cls(P, cls)
    init = ci.methods['__init__']
    vs = {}
    order = None
    for n in ast.walk(init.node):
        if isinstance(n, ast.Assign) and isinstance(
                n.value, ast.Call) and text(n.value.func) == 'np.array':
            L = Lifter(init.module)
            vs[text(n.targets[0])] = tuple(L.lift(e)
                                           for e in n.value.args[0].elts)
        if isinstance(n, ast.Call) and text(n.func) == 'super().__init__':
            for kw in n.keywords:
                if kw.arg == 'vertices':
                    order = [text(e) for e in kw.value.elts]
    if order is None or any(o not in vs for o in order):
        raise AnalysisError('%s: literal polygon not recognised' %
                            init.where())
    return init, [vs[o] for o in order]


def inside(poly, px, py):
    """even-odd rule on exact numbers"""
    n = len(poly) - 1
    c = False
    for i in range(n):
        (x1, y1), (x2, y2) = poly[i], poly[i + 1]
        if (y1 > py) != (y2 > py):
            xi = x1 + (py - y1) * (x2 - x1) / (y2 - y1)
            if px < xi:
                c = not c
    return c


def initial_trace(expr, px, py):
    """Value of expr at t -> 0+ at the point (px, py) by the rewriting
    erf((alpha + i beta t)/(2 sqrt t)) -> sign(alpha)."""
    def rew(e):
        if isinstance(e, (sp.erf, sp.erfc)):
            arg = e.args[0]
            num = sp.simplify(arg * 2 * sp.sqrt(t))
            alpha = num.subs(t, 0).subs({x: px, y: py})
            alpha = sp.simplify(alpha)
            if alpha.is_real is False or alpha == 0 or alpha.free_symbols:
                raise AnalysisError('initial trace: argument %s has no '
                                    'definite sign at the sample point' %
                                    arg)
            s = 1 if alpha > 0 else -1
            return sp.Integer(s) if isinstance(e, sp.erf) else \
                sp.Integer(1 - s)
        if not e.args:
            return e
        return e.func(*[rew(a) for a in e.args])
    lim = rew(expr)
    lim = lim.subs(t, 0).subs({x: px, y: py})
    return sp.simplify(lim)


PROBLEMS = [
    ('smooth_square', 'UnitSquare'),
    ('smooth_pisquare', 'PiSquare'),
    ('singular_square', 'UnitSquare'),
    ('singular_lshape', 'LShape'),
]


def cert_K8_pde(repo, fname):
    prog = Program(repo)
    c = Cert('K8-' + fname)
    fi, w, real = lift_M0u0(prog, fname)
    # |u| is decided on either side of u = 0 (the two branches are smooth;
    # whether they are the right ones is the initial trace's business)
    absn = sorted(w.atoms(sp.Abs), key=str)
    if len(absn) > 3:
        raise AnalysisError('%s: %d absolute values in the closed form' %
                            (fi.where(), len(absn)))
    import itertools
    for signs in itertools.product((1, -1), repeat=len(absn)):
        ws = w.subs({a: sg * a.args[0] for a, sg in zip(absn, signs)})
        pde = sp.diff(ws, t) - sp.diff(ws, x, 2) - sp.diff(ws, y, 2)
        tag = '' if not absn else ' [%s]' % ', '.join(
            '%s %s 0' % (a.args[0], '>' if sg > 0 else '<')
            for a, sg in zip(absn, signs))
        c.ident('K8', '%s.M0u0 heat equation%s' % (fname, tag), fi.where(),
                pde,
                'the closed-form initial potential satisfies w_t = w_xx + '
                'w_yy identically (checked on the complex form before '
                '.real)', scale=ws)
    return c


def cert_K8_trace(repo, fname, domain):
    prog = Program(repo)
    c = Cert('K8t-' + fname)
    fi, w, real = lift_M0u0(prog, fname)
    u0 = lift_u0(prog, fname)
    init, poly = polygon_of(prog, domain)
    xs = sorted({sp.simplify(p[0]) for p in poly})
    ys = sorted({sp.simplify(p[1]) for p in poly})

    def samples(bs):
        pts = [bs[0] - sp.Rational(1, 2)]
        for a, b in zip(bs, bs[1:]):
            pts.append(a + (b - a) * sp.Rational(2, 5))
        pts.append(bs[-1] + sp.Rational(1, 2))
        return pts
    nreg = 0
    bad = []
    for px in samples(xs):
        for py in samples(ys):
            nreg += 1
            val = initial_trace(w, px, py)
            if real:
                val = sp.re(val)
            want = u0.subs({x: px, y: py}) if inside(poly, px, py) else 0
            if sp.simplify(val - want) != 0:
                bad.append((px, py, val, want))
    c.add('K8', '%s.M0u0 initial trace' % fname, fi.where(), not bad,
          'as t -> 0+ the closed form tends to u0 inside %s and to 0 '
          'outside, in every sign region of the erf arguments (%d regions '
          'sampled by one rational point each)%s' %
          (domain, nreg, '' if not bad else '; first mismatch at (%s,%s): '
           '%s != %s' % bad[0]),
          construct='%s.M0u0: initial trace' % fname)
    return c


def cert_K8_linform(repo):
    """problem_helper: g-linform(elem) = int_elem g dt dx."""
    prog = Program(repo)
    c = Cert('K8-g')
    fi = prog.func(PR, 'problem_helper')
    # collect result['g'] / result['g-linform'] per branch
    pairs = []
    for n in ast.walk(fi.node):
        if isinstance(n, ast.If):
            got = {}
            for s in n.body:
                if isinstance(s, ast.Assign) and isinstance(
                        s.targets[0], ast.Subscript) and isinstance(
                            s.targets[0].slice, ast.Constant):
                    got[s.targets[0].slice.value] = s.value
            if 'g' in got and 'g-linform' in got:
                pairs.append((got['g'], got['g-linform'], n))
    if len(pairs) < 2:
        raise AnalysisError('%s: the two data problems were not found' %
                            fi.where())
    t0, t1, x0, x1 = sp.symbols('t0 t1 x0 x1', real=True)
    tt, xx = sp.symbols('tt xx', real=True)
    for g, lin, node in pairs:
        if not (isinstance(g, ast.Lambda) and isinstance(lin, ast.Lambda)):
            raise AnalysisError('%s: data are not lambdas' % fi.where(node))
        gp = [a.arg for a in g.args.args]
        Lg = Lifter(fi.module, {gp[0]: tt})
        ge = Lg.lift(g.body)
        # linform: lambda elems: np.array([EXPR for elem in elems])
        body = lin.body
        comp = None
        for m in ast.walk(body):
            if isinstance(m, ast.ListComp):
                comp = m
        if comp is None:
            raise AnalysisError('%s: g-linform is not a comprehension' %
                                fi.where(node))
        ev = comp.generators[0].target.id
        names = {ev + '.h_t': t1 - t0, ev + '.h_x': x1 - x0,
                 ev + '.time_interval[0]': t0, ev + '.time_interval[1]': t1,
                 ev + '.space_interval[0]': x0,
                 ev + '.space_interval[1]': x1}
        Ll = Lifter(fi.module, name_hook=lambda tx: names.get(tx))
        le = Ll.lift(comp.elt)
        exact = sp.integrate(sp.integrate(sp.sympify(ge), (tt, t0, t1)),
                             (xx, x0, x1))
        c.ident('K8', 'g-linform for g = %s' % text(g.body), fi.where(node),
                sp.expand(le - exact),
                'the load of the Dirichlet datum is its integral over the '
                'element: int_{t0}^{t1} int_{x0}^{x1} g dt dx')
    return c


# --------------------------------------------------------------------------
# K9: curves
# --------------------------------------------------------------------------
def cert_K9(repo):
    prog = Program(repo)
    c = Cert('K9')
    # circle: unit speed, period 2 pi
    fi = prog.func(P, 'circle')
    rets = collect_returns(fi)['']
    s = sp.Symbol('s', real=True)
    val = rets[0][1]
    if not (isinstance(val, ast.Call) and text(val.func) == 'np.vstack'):
        raise AnalysisError('%s: circle is not a vstack of two components' %
                            fi.where())
    L = Lifter(fi.module, {fi.params[0]: s})
    comps = [L.lift(e) for e in val.args[0].elts]
    speed = sum(sp.diff(cc, s)**2 for cc in comps)
    c.ident('K9', 'circle unit speed', fi.where(), sp.simplify(speed - 1),
            '|gamma\'(s)|^2 = 1')
    c.ident('K9', 'circle period 2 pi', fi.where(),
            sum((cc.subs(s, s + 2 * sp.pi) - cc)**2 for cc in comps),
            'gamma(s + 2 pi) = gamma(s)')
    ci = prog.cls(P, 'Circle')
    init = ci.methods['__init__']
    a = {text(n.targets[0]): text(n.value).replace(' ', '')
         for n in init.node.body if isinstance(n, ast.Assign)}
    c.add('K9', 'Circle pieces', init.where(),
          a.get('pw_start') == '[0,2*np.pi]' and a.get(
              'pw_gamma') == '[circle]',
          'one piece [0, 2 pi] parametrised by circle()',
          construct='Circle: pieces')
    # line: unit direction, returns the length
    fi = prog.func(P, 'line')
    body = {text(n.targets[0]): text(n.value).replace(' ', '')
            for n in fi.node.body if isinstance(n, ast.Assign)}
    okl = body.get('norm') == 'np.linalg.norm(b-a)' and body.get(
        'direct') in ('np.copy(direct.reshape(2,1))', '(b-a)/norm')
    firstd = [text(n.value).replace(' ', '') for n in fi.node.body
              if isinstance(n, ast.Assign) and text(n.targets[0]) == 'direct']
    okl = okl and firstd and firstd[0] == '(b-a)/norm'
    fun = [n for n in fi.node.body if isinstance(n, ast.FunctionDef)]
    okf = len(fun) == 1 and text(fun[0].body[-1].value).replace(
        ' ', '') in ('(x_hat-x_start)*direct+a', 'a+(x_hat-x_start)*direct',
                     'a+direct*(x_hat-x_start)')
    ret = [n for n in fi.node.body if isinstance(n, ast.Return)]
    okr = len(ret) == 1 and text(ret[0].value).replace(' ', '') == \
        '(fun,norm)'
    c.add('K9', 'line unit speed', fi.where(), bool(okl and okf and okr),
          'line(a,b,x_start)(s) = a + (s - x_start) (b-a)/|b-a| and the '
          'returned length is |b-a|: affine, unit speed by construction',
          construct='line: affine unit-speed map')
    # literal polygons: closed, axis parallel, non-zero sides
    for cls in ('UnitSquare', 'PiSquare', 'LShape'):
        init, poly = polygon_of(prog, cls)
        closed = poly[0] == poly[-1]
        axis = all((p[0] == q[0]) != (p[1] == q[1])
                   for p, q in zip(poly, poly[1:]))
        c.add('K9', '%s polygon' % cls, init.where(), closed and axis,
              'vertex list is closed, every side is axis parallel and has '
              'non-zero length: %s' % [tuple(map(str, p)) for p in poly],
              construct='%s: literal polygon' % cls)
    return c
