"""E4 -- panel / interval order analysis of the recursive splitters
(SingleLayerOperator.__integrate, spacetime_integrated_kernel) and the
branch choosers of bilform (C01, C11, C12)."""
import ast

from .absint import (Walker, State, text, to_lin, expand_starred, Lin,
                     cond_dnf, entails, subst)
from .core import AnalysisError

SL = 'src/single_layer.py'
SLX = 'src/single_layer_exact.py'


def sum_terms(node):
    """a + b + c -> [a, b, c]"""
    if isinstance(node, ast.BinOp) and isinstance(node.op, ast.Add):
        return sum_terms(node.left) + sum_terms(node.right)
    return [node]


def scheme_chain(call):
    """self.duff_log_log.mirror_x().integrate(...) ->
    ('duff_log_log', ['mirror_x'])  or None"""
    f = call.func
    if not (isinstance(f, ast.Attribute) and f.attr == 'integrate'):
        return None
    node = f.value
    mirrors = []
    while isinstance(node, ast.Call) and isinstance(
            node.func, ast.Attribute) and node.func.attr.startswith(
                'mirror'):
        mirrors.append(node.func.attr)
        node = node.func.value
    if isinstance(node, ast.Attribute) and text(node.value) == 'self':
        return node.attr, mirrors[::-1]
    return None


class Splitter(Walker):
    split_paths = True

    def __init__(self):
        super().__init__()
        self.rets = []

    def on_return(self, st, state):
        if len(self.func_stack) == 1:
            self.rets.append((st, state.copy()))


def _eq(state, l1, l2):
    return state.entails(('lin', l1 - l2, '=='))


def _lt(state, l1, l2):
    return state.entails(('lin', l1 - l2, '<'))


def _le(state, l1, l2):
    return state.entails(('lin', l1 - l2, '<='))


def check_sym(prog, report):
    """R-sym: constructor arguments of the schemes __integrate uses."""
    ci = prog.cls(SL, 'SingleLayerOperator')
    init = ci.methods['__init__']
    asg = {}
    counts = {}
    for n in ast.walk(init.node):
        if isinstance(n, ast.Assign) and isinstance(
                n.targets[0], ast.Attribute) and text(
                    n.targets[0].value) == 'self':
            asg[n.targets[0].attr] = n.value
            counts[n.targets[0].attr] = counts.get(n.targets[0].attr, 0) + 1
    # writes elsewhere in the class
    other = []
    for mname, fi in ci.methods.items():
        if mname == '__init__':
            continue
        for n in ast.walk(fi.node):
            if isinstance(n, (ast.Assign, ast.AugAssign)):
                for t in (n.targets if isinstance(n, ast.Assign) else
                          [n.target]):
                    if isinstance(t, ast.Attribute) and text(
                            t.value) == 'self' and t.attr in (
                                'duff_log_log', 'log_log', 'log_scheme',
                                'log_scheme_m', 'pw_exact', 'gamma_len',
                                'glue_space'):
                        other.append((mname, t.attr))
    d = asg.get('duff_log_log')
    okd = isinstance(d, ast.Call) and text(d.func) == 'DuffyScheme2D' and \
        text(d.args[0]) == 'self.log_log' and any(
            k.arg == 'symmetric' and isinstance(k.value, ast.Constant)
            and k.value.value is False for k in d.keywords) or (
                isinstance(d, ast.Call) and len(d.args) == 2 and isinstance(
                    d.args[1], ast.Constant) and d.args[1].value is False
                and text(d.args[0]) == 'self.log_log')
    report.check(bool(okd) and not other, 'R-sym', 'duff_log_log',
                 init.where(),
                 'the Duffy scheme shared by all branches is the '
                 'non-symmetric variant over self.log_log (the unit-square '
                 'integrand is symmetric only for identical panels); '
                 'written only in __init__ (other writers: %s)' % other,
                 construct='SingleLayerOperator: duff_log_log construction')
    l = asg.get('log_log')
    okl = isinstance(l, ast.Call) and text(l.func) == 'ProductScheme2D' and \
        [text(a) for a in l.args] in (['self.log_scheme',
                                       'self.log_scheme'],
                                      ['self.log_scheme'])
    report.check(okl, 'R-sym', 'log_log', init.where(),
                 'the base rule is log (x) log with both factors un-mirrored '
                 '(graded towards 0 in both variables: apex (0,0))',
                 construct='SingleLayerOperator: log_log construction')
    ls = asg.get('log_scheme')
    okls = isinstance(ls, ast.Call) and text(
        ls.func) == 'log_quadrature_scheme'
    lm = asg.get('log_scheme_m')
    oklm = lm is not None and text(lm).replace(' ', '') == \
        'self.log_scheme.mirror()'
    report.check(okls and oklm, 'R-sym', 'log_scheme / log_scheme_m',
                 init.where(),
                 'log_scheme is the tabulated log rule (graded at 0), '
                 'log_scheme_m its mirror (graded at 1)',
                 construct='SingleLayerOperator: log schemes')
    gl = asg.get('gamma_len')
    gs = asg.get('glue_space')
    report.check(
        gl is not None and text(gl) == 'self.mesh.gamma_space.gamma_length'
        and gs is not None and text(gs) == 'self.mesh.glue_space', 'R-sym',
        'gamma_len / glue_space', init.where(),
        'the seam data are the curve length and the glue flag of the mesh',
        construct='SingleLayerOperator: seam data')
    report.floor('R-sym', 4)


APEX_OF = {(): (0, 0), ('mirror_x', ): (1, 0), ('mirror_y', ): (0, 1),
           ('mirror_x', 'mirror_y'): (1, 1), ('mirror_y', 'mirror_x'):
           (1, 1)}


def check_integrate(prog, report, rules=('partition', 'precond', 'apex')):
    fi = prog.func(SL, 'SingleLayerOperator.__integrate')
    params = fi.params
    if params[:2] != ['self', 'f'] or len(params) != 6:
        raise AnalysisError('%s: signature changed' % fi.where())
    pa, pb, pc, pd = params[2:]
    w = Splitter()
    w.walk_function(fi.node)
    if not w.rets:
        raise AnalysisError('%s: no returns' % fi.where())
    A0, B0, C0, D0 = (Lin({p: 1}) for p in (pa, pb, pc, pd))
    L = Lin({'self.gamma_len': 1})
    n_leaf = n_rec = n_part = 0
    seen_ret = set()
    for st, state in w.rets:
        terms = sum_terms(st.value)
        rects = []
        where = fi.where(st)
        for t in terms:
            if not isinstance(t, ast.Call):
                raise AnalysisError('%s: non-call term `%s`' %
                                    (where, text(t)[:40]))
            args = [state.lin(a) for a in t.args[1:]]
            if len(args) != 4:
                raise AnalysisError('%s: call without 4 bounds' % where)
            if text(t.args[0]) != params[1]:
                raise AnalysisError('%s: integrand is not passed on' % where)
            fn = text(t.func)
            if fn.endswith('__integrate'):
                kind = 'rec'
            else:
                ch = scheme_chain(t)
                if ch is None:
                    # a temporary holding the (mirrored) rule
                    t2 = ast.Call(func=state.sub(t.func), args=t.args,
                                  keywords=t.keywords)
                    ch = scheme_chain(t2)
                if ch is None:
                    raise AnalysisError('%s: unrecognised leaf `%s`' %
                                        (where, fn))
                kind = ch
            rects.append((kind, args, t))
        tagbase = '__integrate@`%s`' % text(st.value)[:46].replace('\n', ' ')
        # ---- R-partition ------------------------------------------------
        if len(rects) > 1 and 'partition' in rules:
            n_part += 1
            ok, why = _tiles(state, rects, (A0, B0, C0, D0))
            report.check(
                ok, 'R-partition', tagbase, where,
                'the sub-rectangles handed on must tile the parent '
                '[a,b]x[c,d] exactly (agree on three sides, meet on the '
                'fourth, non-degenerate): %s' % why,
                construct='__integrate: partition `%s`' %
                text(st.value).replace('\n', ' ').replace('  ', '')[:80])
        elif len(rects) == 1 and 'partition' in rules:
            a_, b_, c_, d_ = rects[0][1]
            ok = _eq(state, a_, A0) and _eq(state, b_, B0) and _eq(
                state, c_, C0) and _eq(state, d_, D0)
            report.check(ok, 'R-partition', tagbase + ' (whole)', where,
                         'a single leaf must cover the whole rectangle',
                         construct='__integrate: single leaf covers all')
        for kind, (a_, b_, c_, d_), call in rects:
            ctext = text(call).replace('\n', ' ')
            if kind == 'rec':
                n_rec += 1
                if 'precond' not in rules:
                    continue
                ok1 = _lt(state, a_, b_) and _lt(state, c_, d_)
                ok2 = all(
                    entails(case, ('lin', a_ - c_, '<')) or (
                        entails(case, ('lin', a_ - c_, '=='))
                        and entails(case, ('lin', b_ - d_, '<=')))
                    for case in state.cases)
                # progress: the sub-rectangle is strictly smaller
                smaller = not (_eq(state, a_, A0) and _eq(state, b_, B0)
                               and _eq(state, c_, C0) and _eq(state, d_, D0))
                report.check(
                    ok1 and ok2 and smaller, 'R-precond',
                    '__integrate rec `%s`' % ctext[:50], where,
                    'a recursive call must satisfy the callee\'s asserted '
                    'preconditions a<b, c<d, (a,b) <=_lex (c,d) under the '
                    'path facts and be a proper sub-rectangle (non-empty=%s '
                    'ordered=%s proper=%s)' % (ok1, ok2, smaller),
                    construct='__integrate: recursive call `%s`' %
                    ctext.replace(' ', '')[:70])
            else:
                n_leaf += 1
                if 'apex' not in rules:
                    continue
                base, mirrors = kind
                apex = APEX_OF.get(tuple(mirrors))
                if apex is None:
                    raise AnalysisError('%s: mirror chain %s' %
                                        (where, mirrors))
                xs = b_ if apex[0] else a_
                ys = d_ if apex[1] else c_
                ok, why = _apex_ok(state, base, mirrors, a_, b_, c_, d_, xs,
                                   ys, L)
                report.check(
                    ok, 'R-apex', '__integrate leaf `%s`' % ctext[:56],
                    where,
                    'the corner at which the scheme is graded must be the '
                    'point of contact / nearest approach of the two '
                    'parameter intervals on this path: %s' % why,
                    construct='__integrate: leaf `%s.%s` on %s' %
                    (base, '.'.join(mirrors) or 'plain',
                     _shape(state, a_, b_, c_, d_, L)))
    if 'apex' in rules:
        report.floor('R-apex', 10)
    if 'partition' in rules:
        report.floor('R-partition', 7)
    if 'precond' in rules:
        report.floor('R-precond', 9)
    return n_leaf, n_rec, n_part


def _shape(state, a, b, c, d, L):
    """Coarse, refactoring-stable description of the configuration."""
    if _eq(state, a, c) and _eq(state, b, d):
        return 'identical'
    if _eq(state, b, c):
        return 'touching'
    if _eq(state, a, d):
        return 'touching(first after second)'
    if state.entails_bool('self.glue_space') and _eq(
            state, a, Lin()) and _eq(state, d, L):
        return 'seam-touching'
    if _lt(state, b, c):
        return 'disjoint'
    return 'overlapping'


def _tiles(state, rects, parent):
    A0, B0, C0, D0 = parent
    xs = [(r[1][0], r[1][1]) for r in rects]
    ys = [(r[1][2], r[1][3]) for r in rects]
    def same(iv, lo, hi):
        return all(_eq(state, a, lo) and _eq(state, b, hi) for a, b in iv)
    def chain(iv, lo, hi):
        # order by entailment: find a permutation that chains lo..hi
        import itertools
        for perm in itertools.permutations(range(len(iv))):
            cur = lo
            ok = True
            for i in perm:
                a, b = iv[i]
                if not (_eq(state, a, cur) and _lt(state, a, b)):
                    ok = False
                    break
                cur = b
            if ok and _eq(state, cur, hi):
                return True
        return False
    if same(ys, C0, D0) and chain(xs, A0, B0):
        return True, 'x-intervals chain from a to b, y-interval is [c,d]'
    if same(xs, A0, B0) and chain(ys, C0, D0):
        return True, 'y-intervals chain from c to d, x-interval is [a,b]'
    return False, 'sub-rectangles %s do not tile the parent under the ' \
        'path facts %s' % ([(str(r[1][0]), str(r[1][1]), str(r[1][2]),
                             str(r[1][3])) for r in rects],
                           state.facts_text()[:160])


def _apex_ok(state, base, mirrors, a, b, c, d, xs, ys, L):
    zero = Lin()
    glue = state.entails_bool('self.glue_space')
    if base == 'duff_log_log':
        if not mirrors:
            ok = _eq(state, a, c) and _eq(state, b, d)
            return ok, 'un-mirrored Duffy (diagonal singularity) requires ' \
                'identical panels'
        direct = _eq(state, xs, ys)
        seam = glue and ((_eq(state, xs, zero) and _eq(state, ys, L)) or
                         (_eq(state, ys, zero) and _eq(state, xs, L)))
        # the rest of the rectangle must stay away from the diagonal:
        # contact only in that corner
        if direct:
            away = (_le(state, b, c) or _le(state, d, a))
            return away, 'apex (x*,y*) is the shared end point x*=y* and ' \
                'the panels do not overlap otherwise'
        if seam:
            return True, 'apex is the seam point 0 ~ L (glued)'
        return False, 'apex corner x*=%s, y*=%s is not a contact point ' \
            'under %s' % (xs, ys, state.facts_text()[:140])
    if base == 'log_log':
        if not _lt(state, b, c) and not _lt(state, d, a):
            return False, 'product log rule used although the panels are ' \
                'not entailed disjoint'
        g_direct = c - b  # corner (b, c): apex (1, 0)
        g_seam = L - d + a  # corner (a, d): apex (0, 1)
        m = tuple(mirrors)
        if m == ('mirror_x', ):
            ok = all(
                entails(case, ('lin', g_direct - g_seam, '<=')) or any(
                    f == ('bool', 'self.glue_space', False) for f in case)
                for case in state.cases)
            return ok, 'graded towards (b,c): the direct gap c-b is the ' \
                'smaller one or the curve is open'
        if m == ('mirror_y', ):
            ok = all(
                entails(case, ('lin', g_seam - g_direct, '<=')) and any(
                    f == ('bool', 'self.glue_space', True) for f in case)
                for case in state.cases)
            return ok, 'graded towards (a,d): the gap through the seam ' \
                'L-d+a is the smaller one and the curve is glued'
        return False, 'disjoint panels must be graded towards (b,c) or ' \
            '(a,d); found mirrors %s' % (mirrors, )
    return False, 'unknown base scheme %s' % base


# --------------------------------------------------------------------------
# spacetime_integrated_kernel (closed-form path)
# --------------------------------------------------------------------------
def check_exact_splitter(prog, report):
    fi = prog.func(SLX, 'spacetime_integrated_kernel')
    p = fi.params
    if len(p) != 8:
        raise AnalysisError('%s: signature changed' % fi.where())
    ta, tb, sa, sb, xa, xb, ya, yb = p
    w = Splitter()
    st0 = State()
    for s in ('%s < %s' % (xa, xb), '%s < %s' % (ya, yb)):
        st0.assume(ast.parse(s, mode='eval').body)
    w.walk_function(fi.node, st0)
    n = 0
    for st, state in w.rets:
        # the panel is what the four space parameters hold *here* (an
        # in-place exchange of the two intervals is the same as the
        # recursive call with exchanged arguments)
        XA, XB, YA, YB = (state.lin(ast.Name(id=n_, ctx=ast.Load()))
                          for n_ in (xa, xb, ya, yb))
        terms = sum_terms(st.value)
        where = fi.where(st)
        rects = []
        for t in terms:
            if not isinstance(t, ast.Call):
                raise AnalysisError('%s: non-call term' % where)
            fn = text(t.func)
            targs = [text(a) for a in t.args[:4]]
            if targs != [ta, tb, sa, sb]:
                report.violation(
                    'R-translate', 'spacetime_integrated_kernel time args',
                    where, 'the four time end points must be passed on '
                    'unchanged and in order; found %s' % targs,
                    construct='spacetime_integrated_kernel: time args')
            sp_ = [state.lin(a) for a in t.args[4:]]
            rects.append((fn, sp_, t))
        for fn, sp_, call in rects:
            n += 1
            ctext = text(call).replace('\n', ' ')[:60]
            if fn == 'spacetime_integrated_kernel':
                a_, b_, c_, d_ = sp_
                swapped = (_eq(state, a_, YA) and _eq(state, b_, YB) and
                           _eq(state, c_, XA) and _eq(state, d_, XB))
                if swapped and len(rects) == 1:
                    # exchange of the two space intervals: establishes the
                    # ordering precondition
                    ok = all(
                        entails(case, ('lin', YA - XA, '<')) or (
                            entails(case, ('lin', YA - XA, '=='))
                            and entails(case, ('lin', YB - XB, '<')))
                        for case in state.cases)
                    report.check(ok, 'R-precond',
                                 'spacetime_integrated_kernel swap', where,
                                 'the intervals are exchanged exactly when '
                                 '(y) <_lex (x), so the recursion terminates '
                                 'with (x) <=_lex (y)',
                                 construct='spacetime_integrated_kernel: '
                                 'swap')
                    continue
                ok1 = _lt(state, a_, b_) and _lt(state, c_, d_)
                report.check(ok1, 'R-precond',
                             'spacetime_integrated_kernel rec `%s`' % ctext,
                             where, 'sub-intervals are non-empty',
                             construct='spacetime_integrated_kernel: '
                             'recursive call non-empty')
            elif len(rects) > 1:
                # a closed-form leaf inside a sum stands for a sub-rectangle;
                # its placement is covered by the area rule below
                pos = all(_lt(state, Lin(), x_) for x_ in sp_[:1])
                report.check(pos, 'R-translate',
                             'leaf in a sum `%s`' % ctext, where,
                             'first length of a closed-form piece is '
                             'positive', construct='spacetime_integrated_'
                             'kernel: leaf in a sum')
            elif fn == 'spacetime_integrated_kernel_4':
                h, k, l = sp_
                ok = (_eq(state, h, XB - XA) and _eq(state, k, YA - XA)
                      and _eq(state, l, YB - XA) and _lt(state, Lin(), h)
                      and _lt(state, h, k) and _lt(state, k, l))
                report.check(ok, 'R-translate', 'kernel_4 `%s`' % ctext,
                             where,
                             'disjoint panels [0,h]x[k,l], 0<h<k<l: end '
                             'points minus the common origin x_a',
                             construct='spacetime_integrated_kernel: '
                             'kernel_4 geometry')
            elif fn == 'spacetime_integrated_kernel_1':
                (h, ) = sp_
                ok = (_eq(state, h, XB - XA) and _eq(state, XA, YA)
                      and _eq(state, XB, YB))
                report.check(ok, 'R-translate', 'kernel_1 `%s`' % ctext,
                             where, 'identical panels [0,h]^2',
                             construct='spacetime_integrated_kernel: '
                             'kernel_1 geometry')
            elif fn == 'spacetime_integrated_kernel_2':
                h, k = sp_
                ok = (_eq(state, h, XB - XA) and _eq(state, k, YB - YA)
                      and _eq(state, XB, YA))
                report.check(ok, 'R-translate', 'kernel_2 `%s`' % ctext,
                             where, 'touching panels [-h,0]x[0,k]',
                             construct='spacetime_integrated_kernel: '
                             'kernel_2 geometry')
            else:
                raise AnalysisError('%s: unknown callee %s' % (where, fn))
        if len(rects) > 1 and any(
                r[0] != 'spacetime_integrated_kernel' for r in rects):
            # closed-form leaves inside a sum: their position is fixed by
            # R-translate; additivity needs at least the areas to add up
            ok, why = _area_conserved(state, rects, (XA, XB, YA, YB))
            report.check(ok, 'R-partition',
                         'spacetime_integrated_kernel@`%s`' %
                         text(st.value)[:40].replace('\n', ' '), where,
                         'the areas of the pieces handed on must add up to '
                         'the area of the parent rectangle: ' + why,
                         construct='spacetime_integrated_kernel: partition '
                         '(areas)')
        elif len(rects) > 1:
            rr = [('rec', r[1], r[2]) for r in rects]
            ok, why = _tiles(state, rr, (XA, XB, YA, YB))
            report.check(ok, 'R-partition',
                         'spacetime_integrated_kernel@`%s`' %
                         text(st.value)[:40].replace('\n', ' '), where,
                         'sub-rectangles tile the parent: ' + why,
                         construct='spacetime_integrated_kernel: partition')
    return n


# --------------------------------------------------------------------------
# R-binding (bilform)
# --------------------------------------------------------------------------
class BilformWalker(Walker):
    split_paths = True

    def __init__(self):
        super().__init__()
        self.rets = []
        self.lambdas = {}

    def on_stmt(self, st, state):
        if isinstance(st, ast.Assign) and isinstance(
                st.value, ast.Lambda) and isinstance(st.targets[0],
                                                     ast.Name):
            self.lambdas[(st.targets[0].id, id(state))] = None

    def on_return(self, st, state):
        self.rets.append((st, state.copy()))


def check_binding(prog, report):
    fi = prog.func(SL, 'SingleLayerOperator.bilform')
    if fi.params != ['self', 'elem_trial', 'elem_test']:
        raise AnalysisError('%s: bilform parameters are %s' %
                            (fi.where(), fi.params))
    w = BilformWalker()
    w.walk_function(fi.node)
    n_int = n_exact = 0
    for st, state in w.rets:
        v = st.value
        if not isinstance(v, ast.Call):
            continue
        fn = text(v.func)
        where = fi.where(st)
        if fn.endswith('__integrate'):
            n_int += 1
            args = expand_starred(v.args, state)
            F = args[0]
            iv = [text(a) for a in args[1:]]
            if len(iv) != 4 or not isinstance(F, ast.Lambda):
                raise AnalysisError('%s: integrate call not recognised' %
                                    where)
            E = []
            for k in (0, 2):
                t = iv[k]
                if t.endswith('.space_interval[0]') and iv[k + 1] == \
                        t[:-3] + '[1]':
                    E.append(t[:-len('.space_interval[0]')])
                else:
                    E.append(None)
            # which element's gamma is applied to x[k]?
            xv = F.args.args[0].arg
            uses = {}
            for n in ast.walk(F.body):
                if isinstance(n, ast.Call) and len(n.args) == 1 and \
                        isinstance(n.args[0], ast.Subscript) and text(
                            n.args[0].value) == xv and isinstance(
                                n.args[0].slice, ast.Constant):
                    g = text(n.func)
                    if g.endswith('.gamma_space'):
                        uses.setdefault(n.args[0].slice.value, set()).add(
                            g[:-len('.gamma_space')])
            ok = E[0] is not None and E[1] is not None and uses.get(
                0) == {E[0]} and uses.get(1) == {E[1]} and {
                    E[0], E[1]} == {'elem_test', 'elem_trial'}
            report.check(
                ok, 'R-binding', 'bilform integrate over (%s, %s)' %
                (E[0], E[1]), where,
                'coordinate x[k] is fed to the curve of the element whose '
                'space interval is the k-th interval of the integrate call '
                '(x[0]->%s, x[1]->%s; intervals of %s, %s)' %
                (uses.get(0), uses.get(1), E[0], E[1]),
                construct='bilform: coordinate/curve binding')
            # difference gamma_test - gamma_trial or its negative: only
            # squares are taken downstream (R-even), so the sign is free
            # ordering precondition of the callee
            if ok:
                a_, b_, c_, d_ = (to_lin(x) for x in args[1:])
                okp = all(
                    entails(case, ('lin', a_ - c_, '<')) or (
                        entails(case, ('lin', a_ - c_, '=='))
                        and entails(case, ('lin', b_ - d_, '<=')))
                    for case in state.cases)
                report.check(
                    okp, 'R-binding', 'bilform order for (%s, %s)' %
                    (E[0], E[1]), where,
                    'the branch condition establishes the callee\'s '
                    'precondition (a,b) <=_lex (c,d)',
                    construct='bilform: interval order precondition')
            # the time kernel: G_time = double_time_integrated_kernel(
            #    *test.time, *trial.time)
            gt = None
            for n in ast.walk(F.body):
                if isinstance(n, ast.Call) and isinstance(
                        n.func, ast.Call) and text(
                            n.func.func) == 'double_time_integrated_kernel':
                    gt = n.func
            okt = False
            if gt is not None:
                targs = [text(a) for a in gt.args]
                okt = targs == ['elem_test.time_interval[0]',
                                'elem_test.time_interval[1]',
                                'elem_trial.time_interval[0]',
                                'elem_trial.time_interval[1]']
            report.check(
                okt, 'R-binding', 'bilform time kernel roles (%s)' % E[0],
                where,
                'double_time_integrated_kernel receives (test time '
                'interval, trial time interval): the first pair is the '
                'observation interval',
                construct='bilform: time kernel roles')
        elif fn == 'spacetime_integrated_kernel':
            n_exact += 1
            args = [text(a) for a in expand_starred(v.args, state)]
            want = ['elem_test.time_interval[0]',
                    'elem_test.time_interval[1]',
                    'elem_trial.time_interval[0]',
                    'elem_trial.time_interval[1]',
                    'elem_test.space_interval[0]',
                    'elem_test.space_interval[1]',
                    'elem_trial.space_interval[0]',
                    'elem_trial.space_interval[1]']
            alt = want[:4] + want[6:] + want[4:6]
            report.check(
                args in (want, alt), 'R-binding', 'bilform closed-form path '
                'roles', where,
                'spacetime_integrated_kernel receives (test time, trial '
                'time, test space, trial space) -- the space intervals may '
                'be exchanged (the callee orders them), the time intervals '
                'may not', construct='bilform: closed-form path roles')
    if n_int < 2 or n_exact < 1:
        raise AnalysisError('%s: expected 2 quadrature returns and the '
                            'closed-form return (found %d, %d)' %
                            (fi.where(), n_int, n_exact))
    report.floor('R-binding', 7)


def check_even(prog, report):
    """R-even: the spatial argument enters the time-integrated kernels only
    through sum(x**2)."""
    for q, inner in (('double_time_integrated_kernel', 'G'), ('g', None)):
        fi = prog.func(SL, q)
        if inner:
            cands = [n for n in fi.node.body if isinstance(n, ast.FunctionDef)]
            if len(cands) != 1:
                raise AnalysisError('%s: inner function not found' %
                                    fi.where())
            body = cands[0]
            xv = body.args.args[0].arg
        else:
            lam = [n for n in ast.walk(fi.node) if isinstance(n, ast.Lambda)]
            if len(lam) != 1:
                raise AnalysisError('%s: lambda not found' % fi.where())
            body = lam[0]
            xv = lam[0].args.args[0].arg
        occ = [n for n in ast.walk(body) if isinstance(n, ast.Name)
               and n.id == xv and isinstance(n.ctx, ast.Load)]
        good = 0
        for n in ast.walk(body):
            if isinstance(n, ast.Call) and text(n.func) == 'np.sum' and \
                    n.args and text(n.args[0]).replace(' ', '') == \
                    '%s**2' % xv and any(
                        k.arg == 'axis' and isinstance(k.value, ast.Constant)
                        and k.value.value == 0 for k in n.keywords):
                good += 1
        report.check(
            len(occ) == good and good >= 1, 'R-even', q, fi.where(),
            'the spatial argument occurs only as np.sum(x**2, axis=0): the '
            'kernel is even in x, so exchanging test and trial point '
            'evaluates the same number (%d occurrences, %d inside the '
            'square sum)' % (len(occ), good),
            construct=q + ': spatial argument only as |x|^2')
    report.floor('R-even', 2)


def check_straight(prog, report, which=('bilform', 'residual')):
    """R-straight: the switch that routes to the straight-line closed forms
    entails that the shared piece is straight."""
    P = 'src/parametrization.py'
    # (1) every piece of a PiecewisePolygon comes from line()
    ci = prog.cls(P, 'PiecewisePolygon')
    init = ci.methods['__init__']
    src_of = {}
    appended = []
    for n in ast.walk(init.node):
        if isinstance(n, ast.Assign) and isinstance(
                n.targets[0], ast.Tuple) and isinstance(
                    n.value, ast.Call) and text(n.value.func) == 'line':
            src_of[text(n.targets[0].elts[0])] = 'line'
        if isinstance(n, ast.Call) and text(n.func) == 'pw_gamma.append':
            appended.append(text(n.args[0]))
    poly_ok = bool(appended) and all(src_of.get(a) == 'line'
                                     for a in appended)
    sup = [n for n in ast.walk(init.node) if isinstance(n, ast.Call)
           and text(n.func) == 'super().__init__']
    poly_ok = poly_ok and len(sup) == 1 and any(
        k.arg == 'pw_gamma' and text(k.value) == 'pw_gamma'
        for k in sup[0].keywords)
    report.check(poly_ok, 'R-straight', 'PiecewisePolygon pieces', init.where(),
                 'every piece of a PiecewisePolygon is produced by line() '
                 '(an affine unit-speed map)',
                 construct='PiecewisePolygon: pieces from line()')

    def witness(expr):
        """isinstance(<..gamma_space>, PiecewisePolygon) among conjuncts"""
        for c in (expr.values if isinstance(expr, ast.BoolOp) and isinstance(
                expr.op, ast.And) else [expr]):
            if isinstance(c, ast.Call) and text(
                    c.func) == 'isinstance' and len(c.args) == 2 and text(
                        c.args[1]) == 'PiecewisePolygon' and text(
                            c.args[0]).endswith('gamma_space'):
                return text(c.args[0])
        return None

    if 'bilform' in which:
        fi = prog.func(SL, 'SingleLayerOperator.bilform')
        w = BilformWalker()
        w.walk_function(fi.node)
        n = 0
        for st, state in w.rets:
            if isinstance(st.value, ast.Call) and text(
                    st.value.func) == 'spacetime_integrated_kernel':
                n += 1
                same = state.entails_bool(
                    'elem_test.gamma_space is elem_trial.gamma_space') or \
                    state.entails_bool(
                        'elem_trial.gamma_space is elem_test.gamma_space')
                direct = any(
                    state.entails_bool(k) for case in state.cases
                    for f in case if f[0] == 'bool' and f[2]
                    for k in [f[1]]
                    if k.startswith('isinstance(') and 'PiecewisePolygon'
                    in k)
                sw = state.entails_bool('self.pw_exact')
                via_init = False
                if sw:
                    ci2 = prog.cls(SL, 'SingleLayerOperator')
                    ini = ci2.methods['__init__']
                    vals = [m.value for m in ast.walk(ini.node)
                            if isinstance(m, ast.Assign) and text(
                                m.targets[0]) == 'self.pw_exact']
                    wit = witness(vals[0]) if len(vals) == 1 else None
                    via_init = wit in ('mesh.gamma_space',
                                       'self.mesh.gamma_space')
                    # no other writer
                    for fi2 in prog.all_funcs():
                        if fi2 is ini or isinstance(fi2.node, ast.Lambda):
                            continue
                        for m in ast.walk(fi2.node):
                            if isinstance(m, (ast.Assign, ast.AugAssign)):
                                for t in (m.targets if isinstance(
                                        m, ast.Assign) else [m.target]):
                                    if isinstance(
                                            t, ast.Attribute
                                    ) and t.attr == 'pw_exact':
                                        via_init = False
                report.check(
                    same and (direct or via_init) and poly_ok, 'R-straight',
                    'bilform closed-form switch', fi.where(st),
                    'the closed forms integrate along a straight segment: '
                    'the routing condition must entail "same piece" (%s) '
                    'and "the curve is a PiecewisePolygon" (directly: %s; '
                    'through self.pw_exact as set in __init__: %s)' %
                    (same, direct, via_init),
                    construct='bilform: closed-form switch entails '
                    'straightness')
        if n == 0:
            report.note('bilform has no closed-form path any more')
    if 'residual' in which:
        EE = 'src/error_estimator.py'
        fi = prog.func(EE, 'ErrorEstimator.residual')

        class RW(Walker):
            def __init__(s):
                super().__init__()
                s.hits = []

            def on_stmt(s, st, state):
                for n in ast.walk(st) if isinstance(
                        st, (ast.AugAssign, ast.Assign, ast.Expr,
                             ast.Return)) else []:
                    if isinstance(n, ast.Call) and isinstance(
                            n.func, ast.Attribute) and \
                            n.func.attr == 'evaluate_exact':
                        s.hits.append((n, state.copy(), st))

        rw = RW()
        rw.walk_function(fi.node)
        for call, state, st in rw.hits:
            # evaluate_exact(elem_trial, t, x_hat): same piece as the point
            args = [text(a) for a in call.args]
            elem = args[0] if args else '?'
            keys = []
            for tmpl in ('%s.gamma_space is gamma', 'gamma is %s.gamma_space'):
                keys.append(text(state.sub(ast.parse(tmpl % elem,
                                                     mode='eval').body)))
            same = any(state.entails_bool(k) for k in keys)
            direct = all(
                any(f[0] == 'bool' and f[2] and f[1].startswith(
                    'isinstance(') and 'PiecewisePolygon' in f[1] and
                    'gamma_space' in f[1] for f in case)
                for case in state.cases)
            report.check(
                same and direct and poly_ok, 'R-straight',
                'residual closed-form switch', fi.where(st),
                'evaluate_exact (collinear closed form) is used only when '
                'the point lies on the trial element\'s piece (%s) and the '
                'curve is a PiecewisePolygon (%s)' % (same, direct),
                construct='residual: closed-form switch entails '
                'straightness')
        if not rw.hits:
            report.note('residual has no closed-form path any more')


# --------------------------------------------------------------------------
# R-assert: internal assertions of the splitters cannot fire on mesh pairs
# --------------------------------------------------------------------------
class AssertWalker(Walker):
    split_paths = True

    def __init__(self):
        super().__init__()
        self.asserts = []

    def on_stmt(self, st, state):
        if isinstance(st, ast.Assert) and len(self.func_stack) == 1:
            self.asserts.append((st, state.copy()))


def check_asserts(prog, report):
    """Under the interval axioms a mesh supplies (both intervals inside
    [0, L], laminar = nested or interior-disjoint, no element covers the
    whole closed curve, lengths above the numeric floor) every `assert` in
    the body of the two splitters is entailed by the path facts: the
    splitter cannot abort on a pair of mesh elements."""
    from .absint import cond_dnf, covers, fact_key
    for file, q, names, Lname in (
            (SL, 'SingleLayerOperator.__integrate', None, 'self.gamma_len'),
            (SLX, 'spacetime_integrated_kernel', None, None)):
        fi = prog.func(file, q)
        p = fi.params
        if q.endswith('__integrate'):
            a, b, c, d = p[2:]
        else:
            a, b, c, d = p[4:]
        seeds = ['%s < %s' % (a, b), '%s < %s' % (c, d)]
        if Lname:
            seeds += ['0 <= %s' % a, '0 <= %s' % c, '%s <= %s' % (b, Lname),
                      '%s <= %s' % (d, Lname),
                      '(%s - %s) < %s' % (b, a, Lname),
                      '(%s - %s) < %s' % (d, c, Lname),
                      '%s - %s > 1e-7' % (b, a), '%s - %s > 1e-7' % (d, c)]
        lam = ('({b} <= {c}) or ({d} <= {a}) or ({a} <= {c} and {d} <= {b}) '
               'or ({c} <= {a} and {b} <= {d})').format(a=a, b=b, c=c, d=d)
        st0 = State()
        for s_ in seeds + [lam]:
            st0.assume(ast.parse(s_, mode='eval').body)
        w = AssertWalker()
        w.walk_function(fi.node, st0)
        seen = {}
        first_if = min([s_.lineno for s_ in fi.node.body
                        if isinstance(s_, ast.If)] or [10**9])
        for st, state in w.asserts:
            t = text(st.test)
            if st.lineno < first_if and st in fi.node.body:
                continue  # declared preconditions (R-precond / R-binding)
            if 'isclose' in t or '1e-' in t:
                continue  # numeric tolerance asserts are not decided
            dnf = cond_dnf(st.test, state.env)
            ok = all(covers(case, dnf) for case in state.cases)
            key = id(st)
            seen[key] = (seen.get(key, (True, st))[0] and ok, st)
        for ok, st in seen.values():
            report.check(
                ok, 'R-assert', '%s `assert %s`' % (q.split('.')[-1],
                                                    text(st.test)[:40]),
                fi.where(st),
                'the assertion is entailed by the path facts for every '
                'pair of laminar intervals inside [0, L] (mesh elements): '
                'the splitter cannot abort here',
                construct='%s: assert %s' % (q.split('.')[-1],
                                             text(st.test)[:40]))
        if not seen:
            raise AnalysisError('%s: no assertions found' % fi.where())


# --------------------------------------------------------------------------
# thorough: order-type table of __integrate (abstract interpretation over the
# finite domain of interval configurations)
# --------------------------------------------------------------------------
def order_type_table(prog, report):
    import itertools
    fi = prog.func(SL, 'SingleLayerOperator.__integrate')
    pa, pb, pc, pd = fi.params[2:]
    Lx = 'self.gamma_len'
    rel = {
        'identical': ['{a} == {c}', '{b} == {d}'],
        'first contained, left aligned': ['{a} == {c}', '{b} < {d}'],
        'second contained, right aligned': ['{a} < {c}', '{d} == {b}'],
        'second strictly inside first': ['{a} < {c}', '{d} < {b}'],
        'touching': ['{b} == {c}'],
        'overlapping': ['{a} < {c}', '{c} < {b}', '{b} < {d}'],
        'disjoint': ['{b} < {c}'],
    }
    sizes = {'h_x == h_y': '({b} - {a}) - ({d} - {c}) == 0',
             'h_x > h_y': '({b} - {a}) - ({d} - {c}) > 0',
             'h_x < h_y': '({b} - {a}) - ({d} - {c}) < 0'}
    seams = {'seam ends (a=0, d=L)': ['{a} == 0', '{d} == ' + Lx],
             'not both seam ends': None}
    gaps = {'direct gap smaller': '({c} - {b}) < ({L} - {d} + {a})',
            'seam gap smaller or equal': '({c} - {b}) >= ({L} - {d} + {a})'}
    glue = {'glued': True, 'open': False}
    base = ['{a} < {b}', '{c} < {d}', '0 <= {a}', '{d} <= ' + Lx,
            '{b} - {a} > 1e-7', '{d} - {c} > 1e-7',
            '({b} - {a}) + ({d} - {c}) <= ' + Lx]
    fmt = dict(a=pa, b=pb, c=pc, d=pd, L=Lx)
    table = []
    n_classes = 0
    for rname, rfacts in rel.items():
        for sname, sfact in sizes.items():
            if rname == 'identical' and sname != 'h_x == h_y':
                continue
            for mname, mfacts in seams.items():
                for gname, gval in glue.items():
                    gap_opts = gaps.items() if rname == 'disjoint' else [
                        ('-', None)]
                    for pname, pfact in gap_opts:
                        st0 = State()
                        facts = base + rfacts + [sfact] + (mfacts or [])
                        if pfact:
                            facts.append(pfact)
                        for f in facts:
                            st0.assume(ast.parse(f.format(**fmt),
                                                 mode='eval').body)
                        if mfacts is None:
                            st0.assume(ast.parse(
                                '{a} == 0 and {d} == {L}'.format(**fmt),
                                mode='eval').body, neg=True)
                        st0.assume(ast.parse('self.glue_space',
                                             mode='eval').body,
                                   neg=not gval)
                        if not st0.reachable():
                            continue
                        n_classes += 1
                        w = Splitter()
                        w.walk_function(fi.node, st0)
                        rets = {id(st): st for st, _ in w.rets}
                        cls = '%s | %s | %s | %s | %s' % (rname, sname,
                                                          mname, gname,
                                                          pname)
                        ok = len(rets) == 1
                        desc = [text(st.value).replace('\n', ' ')[:70]
                                for st in rets.values()]
                        table.append({'class': cls, 'returns': desc})
                        report.check(
                            ok, 'R-order-types', cls, fi.where(),
                            'the branch ladder is decided by the order '
                            'facts of this configuration class alone and '
                            'ends in exactly one return: %s' % desc,
                            construct='__integrate: order type ' + cls)
    report.extra['order_type_table'] = table
    report.floor('R-order-types', 40)
    return n_classes


def _area_conserved(state, rects, parent):
    import sympy as sp

    def poly(l):
        e = sp.Rational(l.k.numerator, l.k.denominator)
        for a_, v in l.c.items():
            e += sp.Rational(v.numerator, v.denominator) * sp.Symbol(
                a_, real=True)
        return e
    XA, XB, YA, YB = (poly(x) for x in parent)
    total = 0
    for fn, sp_, call in rects:
        v = [poly(x) for x in sp_]
        if fn == 'spacetime_integrated_kernel':
            total += (v[1] - v[0]) * (v[3] - v[2])
        elif fn == 'spacetime_integrated_kernel_1':
            total += v[0]**2
        elif fn in ('spacetime_integrated_kernel_2',
                    'spacetime_integrated_kernel_3'):
            total += v[0] * v[1]
        elif fn == 'spacetime_integrated_kernel_4':
            total += v[0] * (v[2] - v[1])
        else:
            return False, 'unknown piece %s' % fn
    diff = sp.expand(total - (XB - XA) * (YB - YA))
    # use the path equalities (every case must make the difference vanish)
    for case in state.cases:
        d = diff
        for f in case:
            if f[0] == 'lin' and f[2] == '==' and f[1].c:
                v0 = sorted(f[1].c)[0]
                sol = sp.solve(poly(f[1]), sp.Symbol(v0, real=True))
                if sol:
                    d = sp.expand(d.subs(sp.Symbol(v0, real=True), sol[0]))
        if d != 0:
            return False, 'area defect %s under %s' % (
                d, '[' + ', '.join(str(x[1]) for x in case
                                   if x[0] == 'lin' and x[2] == '==') + ']')
    return True, 'sum of areas equals (x_b - x_a)(y_b - y_a)'
