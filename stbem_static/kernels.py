"""E2 -- closed-form certificates K1..K5 for single_layer.py and
single_layer_exact.py, and R-fourterm.

Each certificate lifts the expression found in today's source into sympy and
checks the identity that *defines* it.  Certificates are independent tasks
(run in a process pool by the property modules).
"""
import ast
import random

import sympy as sp

from .absint import Walker, State, text, subst
from .core import AnalysisError, Program
from .lift import Lifter, check_identity

SL = 'src/single_layer.py'
SLX = 'src/single_layer_exact.py'

R2 = sp.Symbol('R2', positive=True)  # |x|^2
Z = sp.Symbol('Z', positive=True)
U = sp.Symbol('U', positive=True)


def heat_kernel(z, r2):
    """The specification: G_z(x) = (4 pi z)^-1 exp(-|x|^2 / (4 z))."""
    return sp.exp(-r2 / (4 * z)) / (4 * sp.pi * z)


# --------------------------------------------------------------------------
# extraction helpers
# --------------------------------------------------------------------------
class Returns(Walker):
    """Collects (state, substituted value, stmt) of every return of the
    top-level function, and of nested functions by name."""
    descend_nested = True
    split_paths = True

    def __init__(self):
        super().__init__()
        self.rets = {}

    def on_return(self, st, state):
        key = '.'.join(f.name for f in self.func_stack[1:])
        val = state.sub(st.value) if st.value is not None else None
        self.rets.setdefault(key, []).append((state.copy(), val, st))


def collect_returns(fi, seeds=()):
    w = Returns()
    st = State()
    for s in seeds:
        st.assume(ast.parse(s, mode='eval').body)
    w.walk_function(fi.node, st)
    return w.rets


def sumsq_hook(lifter, node):
    """np.sum(v**2, axis=0) -> |v|^2 symbol R2."""
    fn = text(node.func)
    if fn in ('np.sum', 'numpy.sum') and node.args and isinstance(
            node.args[0], ast.BinOp) and isinstance(
                node.args[0].op, ast.Pow) and isinstance(
                    node.args[0].right, ast.Constant) and \
            node.args[0].right.value == 2:
        return R2
    return None


def opaque_hook(table):
    """name_hook: canonical text -> symbol (positive unless listed real)."""
    def hook(t):
        if t in table:
            return table[t]
        return None
    return hook


def lam_body(node):
    if isinstance(node, ast.Lambda):
        return node.body
    return None


def result(status, w=None):
    if status == 'proved':
        return True, ''
    if status == 'refuted':
        pt, v = w
        return False, 'identity fails, e.g. at %s the defect is %.6g' % (
            {str(k): str(val) for k, val in pt.items()}, abs(v))
    return None, 'the normaliser could neither prove nor refute'


class Cert:
    """Collects obligations of one certificate task (picklable result)."""
    def __init__(self, name):
        self.name = name
        self.items = []

    def add(self, rule, instance, where, ok, detail, construct=''):
        self.items.append((rule, instance, where, ok, detail, construct))

    def ident(self, rule, instance, where, expr, what, constraint=None,
              scale=None):
        expr = sp.sympify(expr)
        status, w = check_identity(expr, random.Random(7), constraint, scale)
        ok, extra = result(status, w)
        self.add(rule, instance, where, ok, what + ('; ' + extra
                                                    if extra else ''),
                 construct='%s: %s' % (instance, what.split(';')[0]))


def apply_cert(report, cert):
    seen = set()
    for rule, instance, where, ok, detail, construct in cert.items:
        key = (rule, instance, where, ok)
        if key in seen:
            continue
        seen.add(key)
        if ok is None:
            raise AnalysisError('%s %s at %s: %s' % (rule, instance, where,
                                                     detail))
        report.check(ok, rule, instance, where, detail, construct)


# --------------------------------------------------------------------------
# K1: g and kernel
# --------------------------------------------------------------------------
def lifted_g(prog):
    """g(a,b) -> sympy expression in Z (= a-b) and R2; from today's source."""
    fi = prog.func(SL, 'g')
    rets = collect_returns(fi)['']
    lam = [v for s, v, st in rets if isinstance(v, ast.Lambda)]
    if len(lam) != 1:
        raise AnalysisError('%s: expected one lambda return' % fi.where())
    a, b = sp.symbols('a b', real=True)
    L = Lifter(fi.module, {'a': a, 'b': b}, call_hook=sumsq_hook)
    e = L.lift(lam[0].body)
    # depends on time only through a - b
    e_z = e.subs(a, b + Z)
    if e_z.free_symbols - {Z, R2}:
        raise AnalysisError('%s: g depends on more than a-b and |x|^2: %s' %
                            (fi.where(), e_z.free_symbols))
    return fi, e_z


def cert_K1(repo):
    prog = Program(repo)
    c = Cert('K1')
    fi, gz = lifted_g(prog)
    c.ident('K1', 'g: d/dz g_z = -G_z', fi.where(),
            sp.diff(gz, Z) + heat_kernel(Z, R2),
            'the time derivative of the lifted g equals minus the heat '
            'kernel (g is the time antiderivative that vanishes at z=0+)')
    # g -> 0 as z -> 0+ : Ei(-R2/(4 z)) -> Ei(-oo) = 0
    try:
        lim = sp.limit(gz, Z, 0, '+')
    except Exception:
        lim = None
    c.add('K1', 'g: limit z->0+ is 0', fi.where(),
          True if lim == 0 else (None if lim is None else False),
          'g_z(x) -> 0 as z -> 0+ for x != 0 (limit computed: %s); this is '
          'what makes dropping a term for z <= 0 correct' % lim)
    # kernel(t, x): scalar distance x
    fk = prog.func(SL, 'kernel')
    rets = collect_returns(fk)['']
    nz = [v for s, v, st in rets if not (isinstance(v, ast.Constant)
                                         and v.value == 0)]
    if len(nz) != 1:
        raise AnalysisError('%s: expected one non-zero return' % fk.where())
    t = sp.Symbol('t', positive=True)
    x = sp.Symbol('x', real=True)
    L = Lifter(fk.module, {'t': t, 'x': x})
    ek = L.lift(nz[0])
    c.ident('K1', 'kernel(t, x) is the heat kernel', fk.where(),
            ek - heat_kernel(t, x**2),
            'kernel() equals (4 pi t)^-1 exp(-x^2/(4t))')
    return c


# --------------------------------------------------------------------------
# K2 + R-fourterm: double_time_integrated_kernel
# --------------------------------------------------------------------------
class Accum(Walker):
    """Collects `name += e` / `name -= e` with the path state."""
    unroll_literal_loops = True

    def __init__(self, name):
        super().__init__()
        self.name = name
        self.terms = []
        self.inits = []
        self.returns = []
        self.entry = None

    def on_enter_function(self, fnode, state):
        if len(self.func_stack) == 2 or self.entry is None:
            self.entry = state.copy()

    def on_stmt(self, st, state):
        if isinstance(st, ast.AugAssign) and isinstance(
                st.target, ast.Name) and st.target.id == self.name:
            if isinstance(st.op, ast.Add):
                sgn = 1
            elif isinstance(st.op, ast.Sub):
                sgn = -1
            else:
                raise AnalysisError('unexpected accumulation operator')
            self.terms.append((sgn, state.sub(st.value), state.copy(), st))
        elif isinstance(st, ast.Assign) and any(
                isinstance(t, ast.Name) and t.id == self.name
                for t in st.targets):
            self.inits.append(st)

    def on_return(self, st, state):
        self.returns.append((st, state.copy()))


REQUIRED_TERMS = {('b', 'd', 1), ('b', 'c', -1), ('a', 'c', 1),
                  ('a', 'd', -1)}


def cert_K2_fourterm(repo):
    from .absint import covers, fact_key
    prog = Program(repo)
    c = Cert('K2')
    fi = prog.func(SL, 'double_time_integrated_kernel')
    gnode = None
    for st in fi.node.body:
        if isinstance(st, ast.FunctionDef):
            gnode = st
    if gnode is None:
        raise AnalysisError('%s: inner kernel function not found' %
                            fi.where())
    w = Accum('result')
    w.walk_function(fi.node)
    inner_terms = [t for t in w.terms]
    if len(w.inits) != 1 or not (isinstance(w.inits[0].value, ast.Constant)
                                 and w.inits[0].value.value == 0):
        raise AnalysisError('%s: accumulator is not initialised to 0 once' %
                            fi.where())
    syms = {n: sp.Symbol(n, real=True) for n in 'abcd'}
    bodies = []
    found = set()
    terms_raw = []
    where = fi.where(gnode)
    for sgn, expr, state, st in inner_terms:
        L = Lifter(fi.module, dict(syms), call_hook=sumsq_hook)
        e = L.lift(expr)
        tsyms = sorted((e.free_symbols & set(syms.values())),
                       key=lambda s: s.name)
        names = [s.name for s in tsyms]
        inst = 'term %s%s' % ('+' if sgn > 0 else '-', ','.join(names))
        loc = '%s:%d (%s.%s)' % (fi.file, st.lineno, fi.qualname, gnode.name)
        if len(names) != 2 or not (names[0] in 'ab' and names[1] in 'cd'):
            c.add('R-fourterm', inst, loc, False,
                  'each term must depend on exactly one end point of the '
                  'test interval (a,b) and one of the trial interval (c,d); '
                  'found %s' % names,
                  construct='double_time_integrated_kernel: term over %s' %
                  names)
            continue
        p, q = tsyms
        ez = e.subs(p, q + Z)
        if ez.free_symbols & set(syms.values()):
            c.add('R-fourterm', inst, loc, False,
                  'term does not depend on the time difference %s-%s only' %
                  (p, q),
                  construct='double_time_integrated_kernel: term not a '
                  'function of the difference')
            continue
        terms_raw.append((p.name, q.name, sgn, inst, loc, ez))
        # guard: path facts <=> p > q (given entry facts)
        lin = state.lin(ast.parse('%s - %s' % (p.name, q.name),
                                  mode='eval').body)
        sound = state.entails(('lin', -lin, '<'))
        entry = w.entry.cases[0] if w.entry and w.entry.cases else []
        ekeys = [fact_key(f) for f in entry]
        complete = covers(entry + [('lin', -lin, '<')], state.cases, ekeys)
        c.add('R-fourterm', inst + ' guard', loc, sound and complete,
              'the term F(%s-%s) is included exactly when %s > %s '
              '(sound=%s, complete=%s)' % (p, q, p, q, sound, complete),
              construct='double_time_integrated_kernel: guard of term '
              '(%s,%s)' % (p, q))
    # absolute sign of each term: the antiderivative F is the one with
    # F'' = -G; a term whose body is -F counts with the opposite sign
    G_ = heat_kernel(Z, R2)
    for pn, qn, sgn, inst, loc, ez in terms_raw:
        st_p, _ = check_identity(sp.diff(ez, Z, 2) + G_, random.Random(3))
        if st_p == 'proved':
            eff, body = sgn, ez
        else:
            st_m, _ = check_identity(sp.diff(ez, Z, 2) - G_,
                                     random.Random(3))
            if st_m == 'proved':
                eff, body = -sgn, -ez
            else:
                eff, body = sgn, ez
        found.add((pn, qn, eff))
        bodies.append((inst, loc, body))
    c.add('R-fourterm', 'inclusion-exclusion set', where,
          found == REQUIRED_TERMS and len(terms_raw) == 4,
          'terms found %s; required {(b,d,+),(b,c,-),(a,c,+),(a,d,-)} = '
          'sign(p)*sign(q) with + for the upper end point' % sorted(found),
          construct='double_time_integrated_kernel: four-term set')
    # the value returned is the accumulator
    okret = any(isinstance(st.value, ast.Name) and st.value.id == 'result'
                for st, _ in w.returns)
    c.add('R-fourterm', 'returns the accumulator', where, okret,
          'G returns `result`', construct='double_time_integrated_kernel: '
          'return value')
    if bodies:
        inst0, loc0, F = bodies[0]
        for inst, loc, ez in bodies[1:]:
            c.ident('K2', inst + ' body equals first body', loc, ez - F,
                    'all four terms are the same function of the time '
                    'difference')
        c.ident('K2', 'F: d^2/dz^2 F_z = -G_z', loc0,
                sp.diff(F, Z, 2) + heat_kernel(Z, R2),
                'second time derivative of the antiderivative used in the '
                'four-term formula equals minus the heat kernel')
        fi_g, gz = lifted_g(prog)
        c.ident('K2', 'F: d/dz F_z = g_z', loc0, sp.diff(F, Z) - gz,
                'first derivative equals the lifted single time integral g')
        try:
            lim = sp.limit(F, Z, 0, '+')
        except Exception:
            lim = None
        c.add('K2', 'F: limit z->0+ is 0', loc0,
              True if lim == 0 else (None if lim is None else False),
              'F_z -> 0 as z -> 0+ (limit computed: %s)' % lim)
    # sibling: f(a, b)
    ff = prog.func(SL, 'f')
    rets = collect_returns(ff)
    inner = rets.get('f_z', [])
    if len(inner) != 1:
        raise AnalysisError('%s: expected nested f_z with one return' %
                            ff.where())
    X = sp.Symbol('x_sqr', positive=True)
    a, b = sp.symbols('a b', real=True)
    L = Lifter(ff.module, {'a': a, 'b': b, 'x_sqr': X})
    ef = L.lift(inner[0][1]).subs(a, b + Z)
    if bodies:
        c.ident('K2', 'f(a,b) equals F at |x|^2 = x_sqr', ff.where(),
                ef - bodies[0][2].subs(R2, X),
                'the stand-alone f_z is the same antiderivative')
    return c


# --------------------------------------------------------------------------
# K3: inline time formulas of evaluate == time integral built from g
# --------------------------------------------------------------------------
def _opaque_lifter(module, real_names=()):
    table = {}

    def hook(t):
        if t in table:
            return table[t]
        return None

    L = Lifter(module, name_hook=hook)
    L.table = table
    return L


class Opaque(Lifter):
    """Unknown attribute / subscript / call expressions become symbols keyed
    by canonical text (positive unless the text matches a time pattern)."""
    def __init__(self, module, symbols=None, call_hook=None):
        super().__init__(module, symbols, call_hook)

    def _opaque(self, node):
        t = ast.unparse(node)
        if t not in self.symbols:
            real_only = ('time_interval' in t) or t in ('t', )
            self.symbols[t] = sp.Symbol(t, real=True) if real_only else \
                sp.Symbol(t, positive=True)
        return self.symbols[t]

    def l_Attribute(self, n):
        try:
            return super().l_Attribute(n)
        except AnalysisError:
            return self._opaque(n)

    def l_Subscript(self, n):
        try:
            return super().l_Subscript(n)
        except AnalysisError:
            return self._opaque(n)

    def l_Call(self, n):
        try:
            return super().l_Call(n)
        except AnalysisError:
            return self._opaque(n)


def _time_cases(rets, fi, t_end_text):
    """From a list of (state, value) split by `t <= t_end`: returns
    (expr_then, expr_else) where then = facts entail t <= t_end."""
    then, els = [], []
    T = ast.parse('t', mode='eval').body
    E = ast.parse(t_end_text, mode='eval').body
    for state, val in rets:
        if state.entails_cmp(T, '<=', E):
            then.append(val)
        elif state.entails_cmp(E, '<=', T):
            # strictness of t > t_end is R-posdiff's business
            els.append(val)
        else:
            raise AnalysisError(
                '%s: a time formula is used on a path that decides neither '
                't <= t_end nor t > t_end' % fi.where())
    return then, els


def cert_K3(repo):
    prog = Program(repo)
    c = Cert('K3')
    fi_g, gz = lifted_g(prog)
    fi = prog.func(SL, 'SingleLayerOperator.evaluate')
    seeds = ['elem_trial.time_interval[0] < elem_trial.time_interval[1]',
             't > elem_trial.time_interval[0]']
    rets = collect_returns(fi, seeds)
    TA, TB = 'elem_trial.time_interval[0]', 'elem_trial.time_interval[1]'
    t = sp.Symbol('t', real=True)

    def reference(L, xy, case):
        ta, tb = L.symbols[TA], L.symbols[TB]
        g_a = gz.subs({Z: t - ta, R2: xy}, simultaneous=True)
        if case == 'then':
            return -g_a
        g_b = gz.subs({Z: t - tb, R2: xy}, simultaneous=True)
        return g_b - g_a

    def check(tag, pairs, where):
        for case, vals in pairs:
            if not vals:
                raise AnalysisError('%s: %s formula for case %s not found' %
                                    (where, tag, case))
            for val in vals:
                L = Opaque(fi.module, {'t': t})
                L.sym(TA)
                L.sym(TB)
                L.symbols[TA] = sp.Symbol('t_a', real=True)
                L.symbols[TB] = sp.Symbol('t_b', real=True)
                e = L.lift(val)
                # the squared distance is the sum of the opaque positives
                dist = [s for n, s in L.symbols.items()
                        if n not in ('t', TA, TB) and s in e.free_symbols]
                if not dist:
                    raise AnalysisError('%s: no distance term' % where)
                import re as _re
                pat = _re.compile(
                    r'^\(\(x - elem_trial\.(gamma_space\(\w+\)|'
                    r'\w*log_scheme(?:_m)?_y)\) \*\* 2\)\[([01])\]$')
                ms = [pat.match(d_.name) for d_ in dist]
                chord = (len(dist) == 2 and all(ms)
                         and {m_.group(2) for m_ in ms} == {'0', '1'}
                         and len({m_.group(1) for m_ in ms}) == 1)
                c.add('R-chord', '%s, case %s: squared distance' %
                      (tag, case), where, chord,
                      'the kernel receives |x - gamma_trial(y)|^2 = the sum '
                      'of the two squared components of the embedded '
                      'difference (not a parameter distance); found %s' %
                      [d_.name for d_ in dist],
                      construct='evaluate: squared chord distance (%s)' %
                      tag)
                if not chord:
                    continue
                # find xy as the argument structure: replace the sum of the
                # two squared components by R2
                xy = sp.Symbol('xy', positive=True)
                if len(dist) == 2:
                    e2 = e.subs(dist[0], xy - dist[1])
                    e2 = sp.simplify(e2) if e2.has(dist[1]) else e2
                    if e2.has(dist[1]) or e2.has(dist[0]):
                        raise AnalysisError(
                            '%s: distance enters other than as the sum of '
                            'its two squared components' % where)
                elif len(dist) == 1:
                    e2 = e.subs(dist[0], xy)
                else:
                    raise AnalysisError('%s: unexpected distance symbols %s'
                                        % (where, dist))
                ref = reference(L, xy, case)
                ta, tb = L.symbols[TA], L.symbols[TB]

                def cons(pt, case=case, ta=ta, tb=tb):
                    if ta not in pt or t not in pt:
                        return True
                    if tb not in pt:
                        return pt[t] > pt[ta]
                    if not pt[ta] < pt[tb]:
                        return False
                    if case == 'then':
                        return pt[ta] < pt[t] <= pt[tb]
                    return pt[t] > pt[tb]
                # Ei(-xy/(4(t-ta))) needs t>ta: substitute positive gaps
                d1, d2 = sp.symbols('d1 d2', positive=True)
                if case == 'then':
                    sub = {t: ta + d1}
                else:
                    sub = {tb: ta + d1, t: ta + d1 + d2}
                diff = (e2 - ref).subs(sub, simultaneous=True)
                c.ident('K3', '%s, case t %s t_end' %
                        (tag, '<=' if case == 'then' else '>'), where, diff,
                        'the inline formula equals the time integral of the '
                        'heat kernel over the causal part of the trial '
                        'interval, g(t-t_b) - g(t-t_a) resp. -g(t-t_a)')

    # closure inside the in-element branch
    clos = rets.get('G_time_parametrized', [])
    if not clos:
        # name may change: take any nested function's returns
        nested = [k for k in rets if k]
        if len(nested) != 1:
            raise AnalysisError('%s: in-element closure not found' %
                                fi.where())
        clos = rets[nested[0]]
    then, els = _time_cases([(s, v) for s, v, st in clos], fi, TB)
    check('evaluate in-element closure', [('then', then), ('else', els)],
          fi.where(clos[0][2]))
    # vectorised tail: the value assigned to the vector that is dotted with
    # the weights
    tail = TailVec()
    st0 = State()
    for s in seeds:
        st0.assume(ast.parse(s, mode='eval').body)
    tail.walk_function(fi.node, st0)
    if not tail.vals:
        raise AnalysisError('%s: vectorised tail formula not found' %
                            fi.where())
    then, els = _time_cases(tail.vals, fi, TB)
    check('evaluate vectorised tail', [('then', then), ('else', els)],
          fi.where(tail.stmts[0]))
    # time_integrated_kernel(t, a, b) = g(t,b) - g(t,a)
    ft = prog.func(SL, 'time_integrated_kernel')
    rr = collect_returns(ft)['']
    lam = [v for s, v, st in rr if isinstance(v, ast.Lambda)]
    ok = False
    if len(lam) == 1:
        body = text(lam[0].body).replace(' ', '')
        arg = lam[0].args.args[0].arg
        ok = body in ('g(t,b)(%s)-g(t,a)(%s)' % (arg, arg), )
    c.add('K3', 'time_integrated_kernel = g(t,b) - g(t,a)', ft.where(), ok,
          'the stand-alone time integral is the difference of the two '
          'antiderivative values, upper end point first',
          construct='time_integrated_kernel: g(t,b)-g(t,a)')
    return c


class TailVec(Walker):
    """Values assigned to the name that is finally dotted with the weights
    in the last return of evaluate."""
    descend_nested = False
    split_paths = True

    def __init__(self):
        super().__init__()
        self.vals = []
        self.stmts = []
        self.assigns = {}

    def on_stmt(self, st, state):
        if isinstance(st, ast.Assign) and len(st.targets) == 1 and \
                isinstance(st.targets[0], ast.Name):
            self.assigns.setdefault(st.targets[0].id, []).append(
                (state.copy(), state.sub(st.value), st))

    def on_return(self, st, state):
        v = st.value
        # (x_b - x_a) * np.dot(weights, vec)
        for n in ast.walk(v):
            if isinstance(n, ast.Call) and text(n.func) in ('np.dot',
                                                            'numpy.dot'):
                for a in n.args:
                    if isinstance(a, ast.Name) and a.id in self.assigns:
                        for s, val, stmt in self.assigns[a.id]:
                            self.vals.append((s, val))
                            self.stmts.append(stmt)


# --------------------------------------------------------------------------
# K4: fint_1..4 against F;  K5: gint_*, spacetime_evaluated_*, evaluate_exact
# --------------------------------------------------------------------------
def lifted_F(prog):
    """F_z as function of (Z, R2) from the first term of
    double_time_integrated_kernel (certified by K2)."""
    fi = prog.func(SL, 'double_time_integrated_kernel')
    w = Accum('result')
    w.walk_function(fi.node)
    if not w.terms:
        raise AnalysisError('%s: no accumulation terms' % fi.where())
    syms = {n: sp.Symbol(n, real=True) for n in 'abcd'}
    sgn, expr, state, st = w.terms[0]
    e = Lifter(fi.module, dict(syms), call_hook=sumsq_hook).lift(expr)
    ts = sorted(e.free_symbols & set(syms.values()), key=lambda s: s.name)
    if len(ts) != 2:
        raise AnalysisError('%s: first term is not a function of two time '
                            'end points' % fi.where())
    F = sgn * e.subs(ts[0], ts[1] + Z)
    # normalise the sign by the defining identity F'' = -G
    st_m, _ = check_identity(sp.diff(F, Z, 2) - heat_kernel(Z, R2),
                             random.Random(3))
    if st_m == 'proved':
        F = -F
    return F


def _nonzero_return(prog, file, name, seeds=()):
    fi = prog.func(file, name)
    rets = collect_returns(fi, seeds)['']
    nz = [(s, v, st) for s, v, st in rets
          if not (isinstance(v, ast.Constant) and v.value == 0)]
    if len(nz) != 1:
        raise AnalysisError('%s: expected exactly one non-zero return, '
                            'found %d' % (fi.where(), len(nz)))
    return fi, nz[0]


def _lift_fint(prog, name, extra):
    fi, (state, val, st) = _nonzero_return(prog, SLX, name)
    a, b = sp.symbols('a b', real=True)
    syms = {'a': a, 'b': b}
    for n in extra:
        syms[n] = sp.Symbol(n, positive=True)
    e = Lifter(fi.module, syms).lift(val)
    ez = e.subs(a, b + Z)
    if ez.free_symbols & {a, b}:
        raise AnalysisError('%s: closed form depends on more than a-b' %
                            fi.where())
    return fi, ez, syms


def _lim0(expr, var):
    try:
        return sp.limit(expr, var, 0, '+')
    except Exception:
        return None


def zero_at(c, rule, instance, where, expr, var, what=''):
    """Obligation `expr -> 0 as var -> 0+`.  Substitution when regular,
    sympy limit otherwise; an undecided limit is recorded as not decided
    (None is never turned into a verdict)."""
    val = None
    try:
        v0 = expr.subs(var, 0)
        if not (v0.has(sp.nan) or v0.has(sp.zoo) or v0.has(sp.oo)
                or v0.has(-sp.oo)):
            val = v0
    except Exception:
        val = None
    if val is None:
        val = _lim0(expr, var)
    if val is None:
        c.add(rule + '-undecided', instance, where, True,
              'limit could not be computed; not decided')
        return
    status, w = check_identity(sp.sympify(val), random.Random(11))
    if status == 'proved':
        c.add(rule, instance, where, True, what + ' (value at 0+: 0)',
              construct=instance)
    elif status == 'refuted':
        c.add(rule, instance, where, False,
              what + ' (value at 0+ is not 0: defect %.4g at %s)' %
              (abs(w[1]), {str(k_): str(v_) for k_, v_ in w[0].items()}),
              construct=instance)
    else:
        c.add(rule + '-undecided', instance, where, True,
              'boundary value could not be normalised; not decided')


def cert_K4(repo, which, tier='quick'):
    prog = Program(repo)
    c = Cert('K4-' + which)
    F = lifted_F(prog)

    def phi(u):
        return F.subs(R2, u**2)

    if which == 'fint_1':
        fi, E, s = _lift_fint(prog, 'fint_1', ['h'])
        h = s['h']
        c.ident('K4', 'fint_1: d^2/dh^2 = 2 F(h)', fi.where(),
                sp.diff(E, h, 2) - 2 * phi(h),
                'integral of F(x-y) over [0,h]^2: second derivative in h is '
                '2 F(h)')
        for nm, ex in (('value', E), ('first derivative', sp.diff(E, h))):
            zero_at(c, 'K4', 'fint_1: %s at h->0+ is 0' % nm, fi.where(),
                    ex, h, 'no boundary term')
    elif which == 'fint_2':
        fi, E, s = _lift_fint(prog, 'fint_2', ['h', 'k'])
        h, k = s['h'], s['k']
        c.ident('K4', 'fint_2: d/dh d/dk = F(h+k)', fi.where(),
                sp.diff(E, h, k) - phi(h + k),
                'integral of F(x-y) over [-h,0]x[0,k]: mixed derivative is '
                'F(h+k)')
        for var, other in ((h, k), (k, h)):
            zero_at(c, 'K4', 'fint_2: value at %s->0+ is 0' % var,
                    fi.where(), E, var, 'degenerate rectangle')
    elif which == 'fint_3':
        fi, E, s = _lift_fint(prog, 'fint_3', ['h', 'k'])
        h, k = s['h'], s['k']
        d = sp.Symbol('d', positive=True)
        mixed = sp.diff(E, h, k)
        for tag, sub in (('h>k', {h: k + d}), ('h<k', {k: h + d})):
            ex = (mixed - phi(h - k)).subs(sub, simultaneous=True)
            ex = ex.replace(sp.sign, lambda a_: sp.sign(sp.simplify(a_)))
            c.ident('K4', 'fint_3: d/dh d/dk = F(h-k) on %s' % tag,
                    fi.where(), ex,
                    'integral of F(x-y) over [0,h]x[0,k]: mixed derivative '
                    'is F(|h-k|)')
        if tier == 'thorough':
            for var in (h, k):
                zero_at(c, 'K4', 'fint_3: value at %s->0+ is 0' % var,
                        fi.where(), E, var, 'degenerate rectangle')
    elif which == 'fint_4':
        fi, E, s = _lift_fint(prog, 'fint_4', ['h', 'k', 'l'])
        h, k, l = s['h'], s['k'], s['l']
        d1, d2 = sp.symbols('d1 d2', positive=True)
        sub = {k: h + d1, l: h + d1 + d2}
        c.ident('K4', 'fint_4: d/dh d/dl = F(l-h)', fi.where(),
                (sp.diff(E, h, l) - phi(l - h)).subs(sub, simultaneous=True),
                'integral of F(x-y) over [0,h]x[k,l], 0<h<k<l: mixed '
                'derivative is F(l-h)')
        c.ident('K4', 'fint_4: value at l=k is 0', fi.where(),
                E.subs(l, k).subs(k, h + d1),
                'empty second interval gives 0')
        zero_at(c, 'K4', 'fint_4: value at h->0+ is 0', fi.where(),
                E.subs(sub, simultaneous=True), h, 'degenerate rectangle')
    else:
        raise AnalysisError('unknown K4 task ' + which)
    return c


def signed_calls(expr_ast, fname):
    """Linear combination of calls of fname -> list of (coef, args asts)."""
    from .absint import to_lin
    lin = to_lin(expr_ast)
    out = []
    if lin.k != 0:
        return None
    for atom, coef in lin.c.items():
        node = ast.parse(atom, mode='eval').body
        if not (isinstance(node, ast.Call) and text(node.func) == fname):
            return None
        out.append((coef, node.args))
    return out


def cert_fourterm_exact(repo):
    """spacetime_integrated_kernel_1..4: inclusion-exclusion over the time
    end points with the fint's own guard p > q."""
    prog = Program(repo)
    c = Cert('R-fourterm-exact')
    for k in (1, 2, 3, 4):
        name = 'spacetime_integrated_kernel_%d' % k
        fi, (state, val, st) = _nonzero_return(prog, SLX, name)
        params = fi.params
        if params[:4] != ['a', 'b', 'c', 'd']:
            raise AnalysisError('%s: time parameters are not a,b,c,d' %
                                fi.where())
        rest = params[4:]
        terms = signed_calls(val, 'fint_%d' % k)
        ok = terms is not None and len(terms) == 4
        found = set()
        rest_ok = True
        if ok:
            for coef, args in terms:
                names = [text(a) for a in args]
                if coef not in (1, -1) or len(names) < 2:
                    ok = False
                    break
                found.add((names[0], names[1], int(coef)))
                if names[2:] != rest:
                    rest_ok = False
        c.add('R-fourterm', name + ' inclusion-exclusion set', fi.where(st),
              bool(ok and found == REQUIRED_TERMS),
              'terms found %s; required fint(b,d)-fint(b,c)+fint(a,c)-'
              'fint(a,d)' % sorted(found),
              construct=name + ': four-term set')
        c.add('R-fourterm', name + ' spatial arguments', fi.where(st),
              bool(ok and rest_ok),
              'all four terms receive the spatial parameters %s unchanged '
              'and in order' % rest, construct=name + ': spatial arguments')
    return c


def cert_K5(repo, tier='quick'):
    prog = Program(repo)
    c = Cert('K5')
    fi_g, gz = lifted_g(prog)

    def gk(z, u):
        return gz.subs({Z: z, R2: u**2}, simultaneous=True)

    z = sp.Symbol('z', positive=True)
    h, k = sp.symbols('h k', positive=True)
    # gint_1(z, h) = int_0^h g_z
    fi, (state, val, st) = _nonzero_return(prog, SLX, 'gint_1')
    E = Lifter(fi.module, {'z': z, 'h': h}).lift(val)
    c.ident('K5', 'gint_1: d/dh = g_z(h)', fi.where(),
            sp.diff(E, h) - gk(z, h), 'integral of g_z over [0,h]')
    zero_at(c, 'K5', 'gint_1: value at h->0+ is 0', fi.where(), E, h)
    # gint_2(z, h, k) = int_h^k g_z
    fi, (state, val, st) = _nonzero_return(prog, SLX, 'gint_2', ['h < k'])
    E = Lifter(fi.module, {'z': z, 'h': h, 'k': k}).lift(val)
    c.ident('K5', 'gint_2: d/dk = g_z(k)', fi.where(),
            sp.diff(E, k) - gk(z, k), 'integral of g_z over [h,k]')
    c.ident('K5', 'gint_2: d/dh = -g_z(h)', fi.where(),
            sp.diff(E, h) + gk(z, h), 'integral of g_z over [h,k]')
    c.ident('K5', 'gint_2: value at k=h is 0', fi.where(), E.subs(k, h),
            'empty interval')
    # spacetime_evaluated_1(t, a, b, h)
    fi = prog.func(SLX, 'spacetime_evaluated_1')
    rets = collect_returns(fi, ['a < b'])['']
    t, a, b = sp.symbols('t a b', real=True)
    d1, d2 = sp.symbols('d1 d2', positive=True)
    T, A, B = (ast.parse(x, mode='eval').body for x in 'tab')
    n_nz = 0
    for state, val, st in rets:
        if isinstance(val, ast.Constant) and val.value == 0:
            continue
        n_nz += 1
        E = Lifter(fi.module, {'t': t, 'a': a, 'b': b, 'h': h}).lift(val)
        if state.entails_cmp(B, '<=', T) and not state.entails_cmp(
                T, '<=', B):
            sub = {b: a + d1, t: a + d1 + d2}
            ref = gk(t - b, h) - gk(t - a, h)
            tag = 't > b'
        elif state.entails_cmp(T, '<=', B) and state.entails_cmp(A, '<', T):
            sub = {t: a + d1}
            ref = -gk(t - a, h)
            tag = 'a < t <= b'
        else:
            raise AnalysisError('%s: return on an undecided time case' %
                                fi.where(st))
        c.ident('K5', 'spacetime_evaluated_1 (%s): d/dh = kernel(h)' % tag,
                fi.where(st),
                (sp.diff(E, h) - ref).subs(sub, simultaneous=True),
                'the closed form is the integral over a distance [0,h] of '
                'the time-integrated kernel')
        zero_at(c, 'K5',
                'spacetime_evaluated_1 (%s): value at h->0+ is 0' % tag,
                fi.where(st), E.subs(sub, simultaneous=True), h)
    if n_nz != 1:
        # the function has one return of an accumulated result; the walker
        # gives one (state,value) per path
        pass
    if n_nz == 0:
        raise AnalysisError('%s: no value return' % fi.where())
    # spacetime_evaluated_2 = -gint_2(t-a) [t>a] + gint_2(t-b) [t>b]
    fi = prog.func(SLX, 'spacetime_evaluated_2')
    w = Accum('result')
    w.walk_function(fi.node)
    found = set()
    for sgn, expr, state, st in w.terms:
        if isinstance(expr, ast.Call) and text(expr.func) == 'gint_2':
            zarg = state.lin(expr.args[0])
            rest = [text(x) for x in expr.args[1:]]
            sound = state.entails(('lin', -zarg, '<'))
            key = (tuple(sorted((a_, str(v)) for a_, v in zarg.c.items())),
                   sgn, tuple(rest), sound)
            found.add(key)
    want = {((('a', '-1'), ('t', '1')), -1, ('h', 'k'), True),
            ((('b', '-1'), ('t', '1')), 1, ('h', 'k'), True)}
    c.add('K5', 'spacetime_evaluated_2 terms', fi.where(), found == want,
          'result = -[t>a] gint_2(t-a,h,k) + [t>b] gint_2(t-b,h,k); found '
          '%s' % sorted(found), construct='spacetime_evaluated_2: terms')
    # evaluate_exact: outside-element formulas
    fi = prog.func(SL, 'SingleLayerOperator.evaluate_exact')
    seeds = ['elem_trial.time_interval[0] < elem_trial.time_interval[1]',
             'elem_trial.space_interval[0] < elem_trial.space_interval[1]']
    rets = collect_returns(fi, seeds)['']
    TA, TB = 'elem_trial.time_interval[0]', 'elem_trial.time_interval[1]'
    SA, SB = 'elem_trial.space_interval[0]', 'elem_trial.space_interval[1]'
    Tn = ast.parse('t', mode='eval').body
    TAn, TBn = (ast.parse(x, mode='eval').body for x in (TA, TB))
    n_out = 0
    n_in = 0
    inside_ok = [True]
    for state, val, st in rets:
        if isinstance(val, ast.Constant) and val.value == 0:
            continue
        txt = text(val)
        if 'spacetime_evaluated_1' in txt:
            n_in += 1
            if not _check_inside(c, fi, state, val, st, SA, SB):
                inside_ok[0] = False
            continue
        n_out += 1
        hk = {}

        def hook(L, node, hk=hk):
            fn = text(node.func)
            if fn in ('min', 'max') and len(node.args) == 2 and all(
                    isinstance(x, ast.Call) and text(x.func) == 'abs'
                    for x in node.args):
                hk[fn] = node
                return h if fn == 'min' else k
            return None
        ta, tb = sp.symbols('t_a t_b', real=True)
        L = Lifter(fi.module, {'t': t, TA: ta, TB: tb}, call_hook=hook)
        E = L.lift(val)
        if state.entails_cmp(TBn, '<=', Tn) and not state.entails_cmp(
                Tn, '<=', TBn):
            sub = {tb: ta + d1, t: ta + d1 + d2}
            integrand = lambda u: gk(t - tb, u) - gk(t - ta, u)
            tag = 't > t_b'
        elif state.entails_cmp(Tn, '<=', TBn) and state.entails_cmp(
                TAn, '<', Tn):
            sub = {t: ta + d1}
            integrand = lambda u: -gk(t - ta, u)
            tag = 't <= t_b'
        else:
            raise AnalysisError('%s: outside formula on an undecided time '
                                'case' % fi.where(st))
        c.ident('K5', 'evaluate_exact outside (%s): d/dk = kernel(k)' % tag,
                fi.where(st),
                (sp.diff(E, k) - integrand(k)).subs(sub, simultaneous=True),
                'closed form = integral of the time-integrated kernel over '
                'the distances [h,k]')
        c.ident('K5', 'evaluate_exact outside (%s): d/dh = -kernel(h)' % tag,
                fi.where(st),
                (sp.diff(E, h) + integrand(h)).subs(sub, simultaneous=True),
                'closed form = integral of the time-integrated kernel over '
                'the distances [h,k]')
        c.ident('K5', 'evaluate_exact outside (%s): value at k=h is 0' % tag,
                fi.where(st), E.subs(k, h).subs(sub, simultaneous=True),
                'empty distance range')
        # h, k are the smaller / larger distance to the two end points
        okd = True
        for fn in ('min', 'max'):
            if fn not in hk:
                okd = False
                continue
            lins = []
            for x in hk[fn].args:
                lins.append(state.lin(x.args[0]))
            keys = set()
            for ln in lins:
                if ln.k != 0 or len(ln.c) != 2:
                    okd = False
                    continue
                atoms = sorted(ln.c)
                if 'x' not in atoms or abs(ln.c['x']) != 1:
                    okd = False
                    continue
                other = [a_ for a_ in atoms if a_ != 'x'][0]
                if ln.c[other] != -ln.c['x']:
                    okd = False
                keys.add(other)
            if keys != {SA, SB}:
                okd = False
        c.add('K5', 'evaluate_exact outside (%s): h,k = min,max distance to '
              'the end points' % tag, fi.where(st), okd,
              'h = min(|a-x|,|b-x|), k = max(|a-x|,|b-x|) with (a,b) the '
              'space interval of the trial element',
              construct='evaluate_exact: distances h,k')
    if n_out >= 2 and n_in == 1 and not inside_ok[0]:
        # the one in-element formula already failed its obligation (e.g. the
        # two-sided sum taken on the closed interval, where an end point
        # hands the distance 0 to spacetime_evaluated_1): that is the report
        pass
    elif n_out < 2 or n_in < 2:
        raise AnalysisError('%s: expected 2 outside and 2 inside/end-point '
                            'formulas, found %d/%d' %
                            (fi.where(), n_out, n_in))
    return c


def _check_inside(c, fi, state, val, st, SA, SB):
    """`spacetime_evaluated_1(t, *time, x - a) + (..., b - x)` for a<x<b and
    `(..., b - a)` for x at an end point."""
    from .absint import to_lin, expand_starred
    calls = [n for n in ast.walk(val) if isinstance(n, ast.Call)
             and text(n.func) == 'spacetime_evaluated_1']
    lin = to_lin(val)
    coefs_ok = all(v == 1 for v in lin.c.values()) and lin.k == 0
    X = ast.parse('x', mode='eval').body
    A = ast.parse(SA, mode='eval').body
    B = ast.parse(SB, mode='eval').body
    dists = []
    time_ok = True
    for call in calls:
        args = expand_starred(call.args, state)
        names = [text(a_) for a_ in args]
        if names[:3] != ['t', 'elem_trial.time_interval[0]',
                         'elem_trial.time_interval[1]']:
            time_ok = False
        dists.append(to_lin(args[3]) if len(args) == 4 else None)
    inside = state.entails_cmp(A, '<', X) and state.entails_cmp(X, '<', B)
    la, lb, lx = to_lin(A), to_lin(B), to_lin(X)
    if inside:
        want = sorted([(lx - la).key(), (lb - lx).key()])
        got = sorted(d.key() for d in dists if d is not None)
        ok = coefs_ok and time_ok and got == want and len(calls) == 2
        what = ('x strictly inside: sum of the one-sided integrals over '
                '[0, x-a] and [0, b-x]')
        inst = 'evaluate_exact inside'
    else:
        want = [(lb - la).key()]
        got = [d.key() for d in dists if d is not None]
        at_end = all(
            any(f[0] == 'lin' and f[2] == '==' and f[1].key() in
                ((lx - la).key(), (la - lx).key(), (lx - lb).key(),
                 (lb - lx).key()) for f in case) for case in state.cases)
        ok = coefs_ok and time_ok and got == want and len(
            calls) == 1 and at_end
        what = 'x at an end point: one-sided integral over [0, b-a]'
        inst = 'evaluate_exact end point'
    c.add('K5', inst, fi.where(st), ok, what + '; time arguments (t, t_a, '
          't_b) in order', construct=inst)
    return ok


# --------------------------------------------------------------------------
# R-difference-only (C12): guards compare two time values
# --------------------------------------------------------------------------
def check_difference_only(prog, report):
    from .absint import to_lin, subst
    sites = [(SL, 'g', ('a', 'b')), (SL, 'f', ('a', 'b')),
             (SL, 'double_time_integrated_kernel', ('a', 'b', 'c', 'd')),
             (SLX, 'fint_1', ('a', 'b')), (SLX, 'fint_2', ('a', 'b')),
             (SLX, 'fint_3', ('a', 'b')), (SLX, 'fint_4', ('a', 'b')),
             (SLX, 'spacetime_integrated_kernel_1', ('a', 'b', 'c', 'd')),
             (SLX, 'spacetime_integrated_kernel_2', ('a', 'b', 'c', 'd')),
             (SLX, 'spacetime_integrated_kernel_3', ('a', 'b', 'c', 'd')),
             (SLX, 'spacetime_integrated_kernel_4', ('a', 'b', 'c', 'd'))]
    for file, q, tp in sites:
        fi = prog.func(file, q)
        tset = set(tp)
        bad = []
        n = 0
        for node in ast.walk(fi.node):
            if isinstance(node, ast.Compare):
                names = {m.id for m in ast.walk(node)
                         if isinstance(m, ast.Name)}
                if not (names & tset):
                    continue
                n += 1
                parts = [node.left] + list(node.comparators)
                for l, r in zip(parts, parts[1:]):
                    d = to_lin(l) - to_lin(r)
                    if not all(a in tset for a in d.c) or sum(
                            d.c.values()) != 0 or d.k != 0:
                        bad.append(text(node))
        report.check(
            not bad and n >= 1, 'R-difference-only', q, fi.where(),
            'every guard on the time arguments compares two time values '
            '(coefficients sum to zero, no constant): invariant under a '
            'common shift; offending: %s' % bad,
            construct=q + ': time guards are shift invariant')
    report.floor('R-difference-only', 11)
