"""E2 -- ast -> sympy lifter and identity checking.

A closed-form expression is lifted from the syntax tree into a sympy term and
compared with the mathematical object it is documented to be (a differential
identity, a limit).  sympy is used as a normaliser (differentiate, expand,
cancel to 0); mpmath evaluation of the *lifted term* at rational points gives
a witness when an identity fails.
"""
import ast
import random
from fractions import Fraction

import sympy as sp
from mpmath import mp

from .core import AnalysisError

PI_NAMES = {'pi', 'np.pi', 'math.pi', 'numpy.pi'}

FUNCS = {
    'exp': sp.exp, 'np.exp': sp.exp, 'math.exp': sp.exp,
    'sqrt': sp.sqrt, 'np.sqrt': sp.sqrt, 'math.sqrt': sp.sqrt,
    'erf': sp.erf, 'erfc': sp.erfc, 'math.erf': sp.erf,
    'math.erfc': sp.erfc,
    'expi': sp.Ei,
    'exp1': lambda x: -sp.Ei(-x),
    'abs': sp.Abs, 'np.abs': sp.Abs, 'np.absolute': sp.Abs,
    'np.sign': sp.sign,
    'log': sp.log, 'np.log': sp.log, 'math.log': sp.log,
    'sin': sp.sin, 'np.sin': sp.sin, 'math.sin': sp.sin,
    'cos': sp.cos, 'np.cos': sp.cos, 'math.cos': sp.cos,
    'float': lambda x: x,
    'np.asarray': lambda x: x,
    'np.array': lambda x: x,
}


class Lifter:
    def __init__(self, module=None, symbols=None, call_hook=None,
                 name_hook=None, other_modules=()):
        self.module = module
        self.symbols = dict(symbols or {})
        self.call_hook = call_hook
        self.name_hook = name_hook
        self._const_cache = {}

    def sym(self, name, **assume):
        if name not in self.symbols:
            self.symbols[name] = sp.Symbol(name, **(assume or {'real': True}))
        return self.symbols[name]

    def lift(self, node):
        m = getattr(self, 'l_' + type(node).__name__, None)
        if m is None:
            raise AnalysisError('cannot lift %s `%s`' %
                                (type(node).__name__, ast.unparse(node)[:80]))
        return m(node)

    def l_Constant(self, n):
        v = n.value
        if isinstance(v, bool):
            raise AnalysisError('bool constant in arithmetic')
        if isinstance(v, int):
            return sp.Integer(v)
        if isinstance(v, float):
            fr = Fraction(repr(v)) if 'e' not in repr(v) and 'inf' not in \
                repr(v) else Fraction(v)
            return sp.Rational(fr.numerator, fr.denominator)
        if isinstance(v, complex):
            fr = Fraction(repr(v.imag))
            return sp.I * sp.Rational(fr.numerator, fr.denominator)
        raise AnalysisError('cannot lift constant %r' % (v, ))

    def l_Name(self, n):
        if self.name_hook is not None:
            r = self.name_hook(n.id)
            if r is not None:
                return r
        if n.id in self.symbols:
            return self.symbols[n.id]
        if n.id in PI_NAMES:
            return sp.pi
        if self.module is not None and n.id in self.module.consts:
            if n.id not in self._const_cache:
                self._const_cache[n.id] = self.lift(self.module.consts[n.id])
            return self._const_cache[n.id]
        raise AnalysisError('free name `%s` has no symbol' % n.id)

    def l_Attribute(self, n):
        t = ast.unparse(n)
        if t in PI_NAMES:
            return sp.pi
        if n.attr == 'real':
            return sp.re(self.lift(n.value))
        if self.name_hook is not None:
            r = self.name_hook(t)
            if r is not None:
                return r
        if t in self.symbols:
            return self.symbols[t]
        raise AnalysisError('attribute `%s` has no symbol' % t)

    def l_Subscript(self, n):
        t = ast.unparse(n)
        if self.name_hook is not None:
            r = self.name_hook(t)
            if r is not None:
                return r
        if t in self.symbols:
            return self.symbols[t]
        raise AnalysisError('subscript `%s` has no symbol' % t)

    def l_UnaryOp(self, n):
        v = self.lift(n.operand)
        if isinstance(n.op, ast.USub):
            return -v
        if isinstance(n.op, ast.UAdd):
            return v
        raise AnalysisError('unary op')

    def l_BinOp(self, n):
        l, r = self.lift(n.left), self.lift(n.right)
        if isinstance(n.op, ast.Add):
            return l + r
        if isinstance(n.op, ast.Sub):
            return l - r
        if isinstance(n.op, ast.Mult):
            return l * r
        if isinstance(n.op, ast.Div):
            return l / r
        if isinstance(n.op, ast.Pow):
            return l**r
        raise AnalysisError('cannot lift operator in `%s`' %
                            ast.unparse(n)[:60])

    def l_Call(self, n):
        if self.call_hook is not None:
            r = self.call_hook(self, n)
            if r is not None:
                return r
        if isinstance(n.func, ast.Lambda) and not n.keywords and len(
                n.args) == len(n.func.args.args):
            from .absint import subst
            m = {p.arg: a for p, a in zip(n.func.args.args, n.args)}
            return self.lift(subst(n.func.body, m))
        if isinstance(n.func, ast.Name) and self.module is not None and \
                n.func.id in self.module.funcs and not n.keywords:
            from .absint import simple_function_as_lambda, subst
            lam = simple_function_as_lambda(
                self.module.funcs[n.func.id].node) if isinstance(
                    self.module.funcs[n.func.id].node,
                    ast.FunctionDef) else None
            if lam is not None and len(lam.args.args) == len(n.args):
                m = {p.arg: a for p, a in zip(lam.args.args, n.args)}
                return self.lift(subst(lam.body, m))
        fn = ast.unparse(n.func)
        if fn in ('fsum', 'math.fsum', 'sum') and len(n.args) == 1 and \
                isinstance(n.args[0], (ast.List, ast.Tuple)):
            return sp.Add(*[self.lift(e) for e in n.args[0].elts])
        if fn in FUNCS and len(n.args) == 1 and not n.keywords:
            return FUNCS[fn](self.lift(n.args[0]))
        if fn in ('min', 'max') and len(n.args) == 2:
            a, b = self.lift(n.args[0]), self.lift(n.args[1])
            return (sp.Min if fn == 'min' else sp.Max)(a, b)
        raise AnalysisError('cannot lift call `%s`' % ast.unparse(n)[:80])

    def l_Tuple(self, n):
        return tuple(self.lift(e) for e in n.elts)

    l_List = l_Tuple


# --------------------------------------------------------------------------
# zero testing
# --------------------------------------------------------------------------
def numeric_value(expr, point, dps=40):
    mp.dps = dps
    try:
        v = expr.xreplace(point)
        v = sp.N(v, dps)
        if v.has(sp.nan) or v.has(sp.zoo) or v.free_symbols:
            return None
        return complex(v) if not v.is_real else float(v)
    except Exception:
        return None


def random_point(symbols, rng, positive=True, lo=Fraction(1, 5), hi=3):
    pt = {}
    for s in symbols:
        num = rng.randint(int(lo * 97), int(hi * 97))
        pt[s] = sp.Rational(num, 97)
    return pt


def nonzero_witness(expr, rng, tries=4, constraint=None, scale=None):
    """A rational point where the lifted expression is definitely not zero
    (|value| > 1e-20 relative to scale), or None."""
    syms = sorted(expr.free_symbols, key=lambda s: s.name)
    for _ in range(tries * 5):
        pt = random_point(syms, rng)
        if constraint is not None and not constraint(pt):
            continue
        v = numeric_value(expr, pt)
        if v is None:
            continue
        mag = abs(v)
        ref = 1.0
        if scale is not None:
            sv = numeric_value(scale, pt)
            if sv is not None and abs(sv) > 0:
                ref = abs(sv)
        if mag > 1e-20 * max(ref, 1e-30):
            return pt, v
        tries -= 1
        if tries <= 0:
            break
    return None


def prove_zero(expr, budget=('expand', 'simplify')):
    """Symbolic normalisation to 0.  Returns True / False (could not)."""
    if expr == 0:
        return True
    e = expr
    try:
        e1 = sp.expand(e)
        if e1 == 0:
            return True
        e2 = sp.expand(sp.powsimp(sp.expand(e1, power_exp=False),
                                  force=True))
        if e2 == 0:
            return True
        e3 = sp.together(e2)
        num, _ = sp.fraction(e3)
        num = sp.expand(sp.powsimp(sp.expand(num), force=True))
        if num == 0:
            return True
        e4 = sp.simplify(num)
        if e4 == 0:
            return True
    except Exception:
        return False
    return False


def check_identity(expr, rng=None, constraint=None, scale=None):
    """-> ('proved', None) | ('refuted', (point, value)) | ('unknown', None)
    """
    rng = rng or random.Random(12345)
    if expr == 0:
        return 'proved', None
    w = nonzero_witness(expr, rng, constraint=constraint, scale=scale)
    if w is not None:
        return 'refuted', w
    if prove_zero(expr):
        return 'proved', None
    return 'unknown', None


# --------------------------------------------------------------------------
# arithmetic equality of two source expressions, opaque atoms by text
# --------------------------------------------------------------------------
class OpaqueLifter(Lifter):
    """Every attribute / subscript / call that is not arithmetic becomes a
    real symbol keyed by its canonical text; np.dot(a, b) is a symmetric
    function of its two arguments; `@` is an ordered product."""
    def _atom(self, node):
        t = ast.unparse(node)
        if t not in self.symbols:
            self.symbols[t] = sp.Symbol('«%s»' % t, real=True)
        return self.symbols[t]

    def l_Name(self, n):
        try:
            return super().l_Name(n)
        except AnalysisError:
            return self._atom(n)

    def l_Attribute(self, n):
        t = ast.unparse(n)
        if t in PI_NAMES:
            return sp.pi
        if n.attr == 'T':
            return self.lift(n.value)
        return self._atom(n)

    def l_Subscript(self, n):
        return self._atom(n)

    def l_Call(self, n):
        fn = ast.unparse(n.func)
        if fn in ('np.dot', 'numpy.dot') and len(n.args) == 2:
            a, b = self.lift(n.args[0]), self.lift(n.args[1])
            args = sorted([a, b], key=sp.srepr)
            return sp.Function('dot')(*args)
        if fn in ('np.sqrt', 'math.sqrt', 'sqrt', 'abs', 'np.abs',
                  'float', 'np.asarray', 'np.array') and len(n.args) == 1:
            return super().l_Call(n)
        return self._atom(n)

    def l_BinOp(self, n):
        if isinstance(n.op, ast.MatMult):
            l, r = self.lift(n.left), self.lift(n.right)
            return sp.Function('matmul')(l, r)
        return super().l_BinOp(n)


def same_expr(node, expected_src):
    """Are the two expressions equal as arithmetic terms over their opaque
    atoms (commutativity, associativity, distribution, x*x == x**2 ...)?
    `node` is an ast node, `expected_src` python source."""
    L = OpaqueLifter()
    try:
        a = L.lift(node)
        b = L.lift(ast.parse(expected_src, mode='eval').body)
    except AnalysisError:
        return ast.dump(node) == ast.dump(
            ast.parse(expected_src, mode='eval').body)
    try:
        return sp.simplify(a - b) == 0
    except Exception:
        return False


def same_any(node, *expected):
    return node is not None and any(same_expr(node, e) for e in expected)
