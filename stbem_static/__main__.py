import argparse
import importlib
import os
import sys
import time
import traceback

from .core import AnalysisError, Program, Report, finish, DEFAULT_REPO
from .core import load_known as core_load_known
from .core import _match_known as core_match_known


def main(argv=None):
    ap = argparse.ArgumentParser(prog='stbem_static')
    ap.add_argument('prop')
    ap.add_argument('--tier', default=os.environ.get('VERIF_TIER', 'quick'),
                    choices=['quick', 'thorough'])
    ap.add_argument('--repo', default=os.environ.get('STBEM_REPO',
                                                     DEFAULT_REPO),
                    help='tree to analyse (self-test only; checks use /repo)')
    ap.add_argument('--replay', default=None,
                    help='replay file: re-run the property and show only the '
                    'instance it names')
    args = ap.parse_args(argv)
    prop = args.prop.upper()
    seed = int(os.environ.get('VERIF_SEED', '0') or 0)
    t0 = time.time()
    try:
        try:
            mod = importlib.import_module('.props.' + prop.lower(),
                                          __package__)
        except ModuleNotFoundError as e:
            if e.name and e.name.endswith(prop.lower()):
                raise AnalysisError('no rule set implemented for %s' % prop)
            raise
        from .lints import check_resolution
        prog = Program(args.repo)
        report = Report(prop, args.tier)
        gave_up = None
        try:
            mod.run(prog, report, args.tier)
        except AnalysisError as e:
            gave_up = e
        # premise of every rule: in the modules this property's rules
        # consulted, a qualified name resolves to the one definition read
        check_resolution(prog, report, only=set(prog.consulted))
        trouble = gave_up is not None or any(
            o.status == 'violation' for o in report.obs)
        if trouble and prog.assert_changed:
            # Some functions are their reference versions plus added
            # assertions.  Re-run with those analysed in the reference
            # shape: if the trouble disappears it came from the unfamiliar
            # shape, and what remains open is whether an added assertion can
            # fail -- not a verdict.
            prog2 = Program(args.repo, assume_added_asserts=True)
            report2 = Report(prop, args.tier)
            gave_up2 = None
            try:
                mod.run(prog2, report2, args.tier)
            except AnalysisError as e:
                gave_up2 = e
            check_resolution(prog2, report2, only=set(prog2.consulted))
            known = core_load_known()
            open2 = [o for o in report2.obs if o.status == 'violation'
                     and core_match_known(o, prop, known) is None]
            if gave_up2 is None and not open2:
                (rel, q), (added, _) = sorted(prog.assert_changed.items())[0]
                raise AnalysisError(
                    '%s:%s is the reference function plus added assertions '
                    '(%s); the rules are satisfied on the reference shape, '
                    'whether an added assertion can fail is not decided' %
                    (rel, q, '; '.join(added[:3])))
            prog, report, gave_up = prog2, report2, gave_up2
        if gave_up is None and not any(o.status == 'violation'
                                       for o in report.obs):
            from .depcone import unexamined_changes
            un = unexamined_changes(prog, prop)
            if un:
                rel, q, chain = un[0]
                gave_up = AnalysisError(
                    '%s:%s differs from the reference version, is not '
                    'provably equivalent to it, and is not examined by any '
                    'rule of this property although the examined code '
                    'depends on it (%s)%s' % (
                        rel, q, chain, '; %d more' % (len(un) - 1)
                        if len(un) > 1 else ''))
        if gave_up is not None:
            # an extractor gave up part-way.  If rules that did run already
            # found violations, report those (exit 1); otherwise this is not
            # a verdict (exit 2).
            if not any(o.status == 'violation' for o in report.obs):
                raise gave_up
            report.note('analysis incomplete: %s' % gave_up)
            print('ANALYSIS-INCOMPLETE property=%s: %s' % (prop, gave_up))
            report.floors.clear()
        rc = finish(report, prog, mod.LEVEL, t0, seed, mod.META)
        if rc == 0 and any(n.startswith('analysis incomplete')
                           for n in report.notes):
            # all violations were known findings but the run is incomplete
            print('ANALYSIS-ERROR property=%s: incomplete analysis' % prop)
            rc = 2
        if args.replay:
            import json
            want = json.load(open(args.replay))['finding']
            hit = [o for o in report.obs if o.rule == want['rule']
                   and o.instance == want['instance']]
            for o in hit:
                print('REPLAY %s %s at %s: %s -- %s' %
                      (o.rule, o.instance, o.where, o.status, o.detail))
            if not hit:
                print('REPLAY: instance no longer exists')
        return rc
    except BrokenPipeError:
        # stdout was closed by the reader (e.g. `| head`); the evidence file
        # is already written, keep the verdict
        try:
            sys.stdout = open(os.devnull, 'w')
        except Exception:
            pass
        return getattr(report, 'rc', 2) if 'report' in dir() else 2
    except AnalysisError as e:
        print('ANALYSIS-ERROR property=%s: %s' % (prop, e))
        return 2
    except Exception:
        traceback.print_exc()
        print('ANALYSIS-ERROR property=%s: internal exception (see traceback)'
              % prop)
        return 2


if __name__ == '__main__':
    sys.exit(main())
