import argparse
import importlib
import os
import sys
import time
import traceback

from .core import AnalysisError, Program, Report, finish, DEFAULT_REPO


def main(argv=None):
    ap = argparse.ArgumentParser(prog='stbem_static')
    ap.add_argument('prop')
    ap.add_argument('--tier', default=os.environ.get('VERIF_TIER', 'quick'),
                    choices=['quick', 'thorough'])
    ap.add_argument('--repo', default=os.environ.get('STBEM_REPO',
                                                     DEFAULT_REPO),
                    help='tree to analyse (self-test only; checks use /repo)')
    ap.add_argument('--replay', default=None,
                    help='replay file: re-run the property and show only the '
                    'instance it names')
    args = ap.parse_args(argv)
    prop = args.prop.upper()
    seed = int(os.environ.get('VERIF_SEED', '0') or 0)
    t0 = time.time()
    try:
        try:
            mod = importlib.import_module('.props.' + prop.lower(),
                                          __package__)
        except ModuleNotFoundError as e:
            if e.name and e.name.endswith(prop.lower()):
                raise AnalysisError('no rule set implemented for %s' % prop)
            raise
        prog = Program(args.repo)
        report = Report(prop, args.tier)
        try:
            mod.run(prog, report, args.tier)
        except AnalysisError as e:
            # an extractor gave up part-way.  If rules that did run already
            # found violations, report those (exit 1); otherwise this is not
            # a verdict (exit 2).
            if not any(o.status == 'violation' for o in report.obs):
                raise
            report.note('analysis incomplete: %s' % e)
            print('ANALYSIS-INCOMPLETE property=%s: %s' % (prop, e))
            report.floors.clear()
        rc = finish(report, prog, mod.LEVEL, t0, seed, mod.META)
        if rc == 0 and any(n.startswith('analysis incomplete')
                           for n in report.notes):
            # all violations were known findings but the run is incomplete
            print('ANALYSIS-ERROR property=%s: incomplete analysis' % prop)
            rc = 2
        if args.replay:
            import json
            want = json.load(open(args.replay))['finding']
            hit = [o for o in report.obs if o.rule == want['rule']
                   and o.instance == want['instance']]
            for o in hit:
                print('REPLAY %s %s at %s: %s -- %s' %
                      (o.rule, o.instance, o.where, o.status, o.detail))
            if not hit:
                print('REPLAY: instance no longer exists')
        return rc
    except BrokenPipeError:
        # stdout was closed by the reader (e.g. `| head`); the evidence file
        # is already written, keep the verdict
        try:
            sys.stdout = open(os.devnull, 'w')
        except Exception:
            pass
        return getattr(report, 'rc', 2) if 'report' in dir() else 2
    except AnalysisError as e:
        print('ANALYSIS-ERROR property=%s: %s' % (prop, e))
        return 2
    except Exception:
        traceback.print_exc()
        print('ANALYSIS-ERROR property=%s: internal exception (see traceback)'
              % prop)
        return 2


if __name__ == '__main__':
    sys.exit(main())
