"""Runs certificate tasks (kernels.cert_*) in a process pool."""
import multiprocessing as mp
import os
import traceback

from .core import AnalysisError
from .kernels import apply_cert


def _run(task):
    fn, args = task
    try:
        return ('ok', fn(*args))
    except AnalysisError as e:
        return ('analysis-error', '%s%s: %s' % (fn.__name__, args[1:], e))
    except Exception:
        return ('analysis-error', '%s%s: %s' % (fn.__name__, args[1:],
                                                traceback.format_exc()[-800:]))


def run_tasks(report, tasks, jobs=None):
    """tasks: list of (function, args).  Results are applied in order."""
    jobs = jobs or min(len(tasks), os.cpu_count() or 4, 16)
    if jobs <= 1 or len(tasks) == 1:
        results = [_run(t) for t in tasks]
    else:
        ctx = mp.get_context('fork')
        with ctx.Pool(jobs) as pool:
            results = pool.map(_run, tasks, 1)
    for status, payload in results:
        if status != 'ok':
            raise AnalysisError(payload)
        apply_cert(report, payload)
