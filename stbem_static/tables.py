"""E1 -- literal quadrature tables.

Reads the if/elif chains of src/quadrature_rules.py, takes every numeric
literal *from its source characters* and checks the moment conditions of the
advertised function class in mpmath interval arithmetic.
"""
import ast
from fractions import Fraction

from mpmath import iv, mp

from .core import AnalysisError

RULES_FILE = 'src/quadrature_rules.py'

FAMILIES = {
    # function name -> (family tag, exported key list or None)
    'log_quadrature_rule': ('log', 'LOG_QUAD_RULES'),
    'log_log_quadrature_rule': ('log_log', 'LOG_LOG_QUAD_RULES'),
    'sqrt_quadrature_rule': ('sqrt', 'SQRT_QUAD_RULES'),
    'sqrtinv_quadrature_rule': ('sqrtinv', 'SQRTINV_QUAD_RULES'),
    'gauss_sqrtinv_quadrature_rule': ('gauss_sqrtinv', None),
    'gauss_x_quadrature_rule': ('gauss_x', None),
    'gauss_log_quadrature_rule': ('gauss_log', None),
}


class Rule:
    def __init__(self, func, key, lineno):
        self.func = func
        self.key = key
        self.lineno = lineno
        self.returned = False
        self.nodes_txt = None
        self.weights_txt = None
        self.problem = None
        self.merged = False

    @property
    def name(self):
        return '%s[%s]' % (self.func, self.key if not isinstance(
            self.key, tuple) else ','.join(str(k) for k in self.key))


def _literal_text(mod_lines, node):
    """Source characters of a numeric literal (with optional sign)."""
    sign = ''
    while isinstance(node, ast.UnaryOp) and isinstance(
            node.op, (ast.USub, ast.UAdd)):
        if isinstance(node.op, ast.USub):
            sign = '' if sign == '-' else '-'
        node = node.operand
    if not (isinstance(node, ast.Constant) and isinstance(
            node.value, (int, float)) and not isinstance(node.value, bool)):
        return None
    if node.lineno != node.end_lineno:
        return None
    txt = mod_lines[node.lineno - 1][node.col_offset:node.end_col_offset]
    return sign + txt.replace('_', '')


def _key_of(test, keyvars):
    """`lvls == (a, b)` / `N == 3` -> python key."""
    if not (isinstance(test, ast.Compare) and len(test.ops) == 1
            and isinstance(test.ops[0], ast.Eq)):
        return None
    l, r = test.left, test.comparators[0]
    if isinstance(r, ast.Name) and not isinstance(l, ast.Name):
        l, r = r, l
    if not (isinstance(l, ast.Name) and l.id in keyvars):
        return None
    try:
        return ast.literal_eval(r)
    except Exception:
        return None


def extract_rules(prog):
    """-> {func name: (FuncInfo, [Rule], else_ok)}"""
    mod = prog.module(RULES_FILE)
    lines = mod.src.split('\n')
    out = {}
    for fname in FAMILIES:
        fi = prog.func(RULES_FILE, fname)
        params = fi.params
        keyvars = set(params)
        chain = None
        for st in fi.node.body:
            if isinstance(st, ast.Assign) and len(st.targets) == 1 and \
                    isinstance(st.targets[0], ast.Name):
                # lvls = (N_poly, N_poly_log)
                v = st.value
                if isinstance(v, ast.Tuple) and all(
                        isinstance(e, ast.Name) and e.id in params
                        for e in v.elts) and [e.id for e in v.elts] == params:
                    keyvars.add(st.targets[0].id)
                else:
                    raise AnalysisError(
                        '%s: unrecognised key construction `%s`' %
                        (fi.where(st), ast.unparse(st)))
            elif isinstance(st, ast.If):
                if chain is not None:
                    raise AnalysisError('%s: second if-chain' % fi.where(st))
                chain = st
            elif isinstance(st, ast.Expr) and isinstance(
                    st.value, ast.Constant) and isinstance(
                        st.value.value, str):
                pass
            else:
                raise AnalysisError('%s: unrecognised statement `%s`' %
                                    (fi.where(st), ast.unparse(st)[:60]))
        if chain is None:
            raise AnalysisError('%s: no if/elif chain' % fi.where())
        rules = []
        node = chain
        else_ok = False
        while True:
            key = _key_of(node.test, keyvars)
            if key is None:
                raise AnalysisError('%s: unrecognised branch test `%s`' %
                                    (fi.where(node), ast.unparse(node.test)))
            r = Rule(fname, key, node.lineno)
            _read_branch(r, node.body, lines)
            rules.append(r)
            if len(node.orelse) == 1 and isinstance(node.orelse[0], ast.If):
                node = node.orelse[0]
                continue
            # final else: must not return a value silently
            if not node.orelse:
                else_ok = False
            else:
                else_ok = all(_is_abort(s) for s in node.orelse[-1:])
            break
        out[fname] = (fi, rules, else_ok)
    return out


def _is_abort(st):
    if isinstance(st, ast.Raise):
        return True
    if isinstance(st, ast.Assert):
        t = st.test
        return isinstance(t, ast.Constant) and not t.value
    return False


def _read_branch(rule, body, lines):
    if len(body) != 1:
        rule.problem = 'branch has %d statements' % len(body)
        return
    st = body[0]
    if isinstance(st, ast.Return):
        rule.returned = True
        val = st.value
    elif isinstance(st, ast.Expr):
        rule.returned = False
        val = st.value
    else:
        rule.problem = 'branch is neither return nor expression'
        return
    if not (isinstance(val, ast.Tuple) and len(val.elts) == 2):
        rule.problem = 'value is not a pair (nodes, weights)'
        return
    seqs = []
    for part in val.elts:
        if not isinstance(part, (ast.Tuple, ast.List)):
            rule.problem = 'nodes/weights is not a literal tuple'
            return
        txts = []
        for e in part.elts:
            t = _literal_text(lines, e)
            if t is None and isinstance(e, ast.BinOp) and isinstance(
                    e.op, (ast.Sub, ast.Add)) and _literal_text(
                        lines, e.left) is not None and _literal_text(
                            lines, e.right) is not None:
                # `a -b` / `a +b`: two signed literals with the comma lost
                rule.problem = ('merged entries `%s`: two literals joined '
                                'by a sign, the separating comma is missing'
                                % ast.unparse(e))
                rule.merged = True
                return
            if t is None:
                rule.problem = 'non-literal entry `%s`' % ast.unparse(e)
                return
            txts.append(t)
        seqs.append(txts)
    rule.nodes_txt, rule.weights_txt = seqs


# --------------------------------------------------------------------------
# moments
# --------------------------------------------------------------------------
def harmonic(n):
    return sum(Fraction(1, i) for i in range(1, n + 1))


def moment_classes(family, key, n_nodes):
    """-> list of (label, phi kind, k, exact Fraction).  phi kinds:
       'mono' x^k, 'log' x^k log x, 'log1m' x^k log(1-x), 'sqrt' x^k sqrt x,
       'isqrt' x^k / sqrt x."""
    out = []
    if family in ('log', 'log_log'):
        P, L = key
        for k in range(0, P + 1):
            out.append(('x^%d' % k, 'mono', k, Fraction(1, k + 1)))
        for k in range(0, L + 1):
            out.append(('x^%d log x' % k, 'log', k, Fraction(-1,
                                                             (k + 1)**2)))
        if family == 'log_log':
            for k in range(0, L + 1):
                out.append(('x^%d log(1-x)' % k, 'log1m', k,
                            -harmonic(k + 1) / (k + 1)))
    elif family == 'sqrt':
        P, S = key
        for k in range(0, P + 1):
            out.append(('x^%d' % k, 'mono', k, Fraction(1, k + 1)))
        for k in range(0, S + 1):
            out.append(('x^%d sqrt x' % k, 'sqrt', k, Fraction(2, 2 * k + 3)))
    elif family == 'sqrtinv':
        P, S = key
        for k in range(0, P + 1):
            out.append(('x^%d' % k, 'mono', k, Fraction(1, k + 1)))
        for k in range(0, S + 1):
            out.append(('x^%d/sqrt x' % k, 'isqrt', k, Fraction(2,
                                                                2 * k + 1)))
    elif family == 'gauss_sqrtinv':
        for k in range(0, 2 * n_nodes):
            out.append(('int x^%d x^-1/2' % k, 'mono', k,
                        Fraction(2, 2 * k + 1)))
    elif family == 'gauss_x':
        for k in range(0, 2 * n_nodes):
            out.append(('int x^%d x' % k, 'mono', k, Fraction(1, k + 2)))
    elif family == 'gauss_log':
        for k in range(0, 2 * n_nodes):
            out.append(('int x^%d log x' % k, 'mono', k,
                        Fraction(-1, (k + 1)**2)))
    else:
        raise AnalysisError('unknown family ' + family)
    return out


def advertised_degree(family, key, n_nodes):
    """Polynomial degree of exactness (against the family's weight) that the
    key advertises -- used by the constructor-map check."""
    if family.startswith('gauss'):
        return 2 * n_nodes - 1
    return key[0]


def residuals(rule, family, digits, as_double):
    """Max relative residual over the advertised class, as an upper bound
    (interval arithmetic).  Returns (max_rel_upper, worst_label, n_moments,
    lower bound of the worst)."""
    iv.dps = digits
    if as_double:
        xs = [iv.mpf(float(t)) for t in rule.nodes_txt]
        ws = [iv.mpf(float(t)) for t in rule.weights_txt]
    else:
        xs = [_iv_from_text(t) for t in rule.nodes_txt]
        ws = [_iv_from_text(t) for t in rule.weights_txt]
    n = len(xs)
    classes = moment_classes(family, rule.key, n)
    need = set(c[1] for c in classes)
    fac = {}
    if 'log' in need:
        fac['log'] = [iv.log(x) for x in xs]
    if 'log1m' in need:
        fac['log1m'] = [iv.log(1 - x) for x in xs]
    if 'sqrt' in need:
        fac['sqrt'] = [iv.sqrt(x) for x in xs]
    if 'isqrt' in need:
        fac['isqrt'] = [1 / iv.sqrt(x) for x in xs]
    kmax = max(c[2] for c in classes)
    pows = [[iv.mpf(1)] * n]
    for k in range(1, kmax + 1):
        prev = pows[-1]
        pows.append([prev[i] * xs[i] for i in range(n)])
    worst_hi, worst_lo, worst_label = 0, 0, ''
    for label, kind, k, exact in classes:
        pk = pows[k]
        if kind == 'mono':
            terms = [ws[i] * pk[i] for i in range(n)]
        else:
            fk = fac[kind]
            terms = [ws[i] * pk[i] * fk[i] for i in range(n)]
        s = iv.mpf(0)
        for t in terms:
            s += t
        ex = iv.mpf(exact.numerator) / iv.mpf(exact.denominator)
        rel = abs((s - ex) / ex)
        hi, lo = float(mp.mpf(rel.b)), float(mp.mpf(rel.a))
        if hi > worst_hi:
            worst_hi, worst_lo, worst_label = hi, lo, label
    return worst_hi, worst_label, len(classes), worst_lo


def _iv_from_text(t):
    fr = Fraction(t)
    return iv.mpf(fr.numerator) / iv.mpf(fr.denominator)


def shape_facts(rule):
    """nodes strictly inside (0,1), weights of one sign, equal lengths --
    decided exactly on the rationals of the literals."""
    xs = [Fraction(t) for t in rule.nodes_txt]
    ws = [Fraction(t) for t in rule.weights_txt]
    inside = all(0 < x < 1 for x in xs)
    onesign = all(w > 0 for w in ws) or all(w < 0 for w in ws)
    return len(xs) == len(ws), inside, onesign, len(xs)


# --------------------------------------------------------------------------
# independent regeneration of the classical Gauss families (thorough tier)
# --------------------------------------------------------------------------
def gauss_from_moments(moment, n, digits=80):
    """n-point Gauss rule for the measure with the given moments m_k,
    k = 0..2n-1 (exact Fractions), via the Hankel/Cholesky (Golub-Welsch)
    recurrence in exact rational arithmetic followed by an mpmath eigen
    solve.  Returns (nodes, weights) as mpf lists sorted by node."""
    from mpmath import matrix, eigsy
    mp.dps = digits
    m = [moment(k) for k in range(2 * n + 1)]
    # modified Chebyshev algorithm in exact rationals
    sigma_prev = [Fraction(0)] * (2 * n + 1)
    sigma = list(m)
    a = [m[1] / m[0]]
    b = [m[0]]
    for k in range(1, n):
        new = [Fraction(0)] * (2 * n + 1)
        for l in range(k, 2 * n - k):
            new[l] = sigma[l + 1] - a[k - 1] * sigma[l] - (
                b[k - 1] * sigma_prev[l] if k > 1 else 0)
        a.append(new[k + 1] / new[k] - sigma[k] / sigma[k - 1])
        b.append(new[k] / sigma[k - 1])
        sigma_prev, sigma = sigma, new
    J = matrix(n, n)
    for i in range(n):
        J[i, i] = mp.mpf(a[i].numerator) / a[i].denominator
    for i in range(1, n):
        bi = mp.mpf(b[i].numerator) / b[i].denominator
        J[i, i - 1] = J[i - 1, i] = mp.sqrt(bi)
    E, Q = eigsy(J)
    mu0 = mp.mpf(m[0].numerator) / m[0].denominator
    pairs = sorted((E[i], mu0 * Q[0, i]**2) for i in range(n))
    return [p[0] for p in pairs], [p[1] for p in pairs]
