"""E6/R-stale -- handle provenance in refinement drivers (C02, C06, C19).

A linear abstract interpretation of each driver body: every list variable
carries a provenance record (snapshot of the leaves / children returned by a
pass / snapshot re-resolved through .children), the refinement *epoch* at
which it was taken and the axis it is sorted by.  A loop that hands its
elements to refine_time / refine_space must iterate a collection whose
members are provably still leaves (classes S1..S4 of DESIGN.md A.2).
"""
import ast

from .absint import text
from .core import AnalysisError

M = 'src/mesh.py'
AX = {'refine_time': 0, 'refine_space': 1}
AXNAME = {0: 'time', 1: 'space'}

# loops on a fresh mesh whose levels are all equal (no closure can fire)
EXCEPTIONS = {
    ('src/mesh.py', 'MeshParametrized.__init__'):
    'minimum-elements guard runs on the freshly built tensor mesh: all '
    'levels are equal within each pass',
    ('example.py', '<main>'):
    'L-shape pre-refinement runs on the freshly built mesh: all levels '
    'equal',
}


class Prov:
    def __init__(self, kind, epoch, sorted_ax=None, src=None, pass_ax=None,
                 pass_epoch=None):
        self.kind = kind  # 'snapshot' | 'children' | 'reresolved' | 'empty'
        #                   | 'unknown' | 'pair' (direct return of a refine)
        self.epoch = epoch  # epoch at which members were known to be leaves
        self.sorted_ax = sorted_ax
        self.src = src
        self.pass_ax = pass_ax
        self.pass_epoch = pass_epoch

    def copy(self):
        return Prov(self.kind, self.epoch, self.sorted_ax, self.src,
                    self.pass_ax, self.pass_epoch)

    def __repr__(self):
        return '%s@%s sorted=%s' % (self.kind, self.epoch, self.sorted_ax)


def key_axis(key):
    """lambda e: e.level_time -> 0 ; e.levels[1] -> 1 ; else None"""
    if not isinstance(key, ast.Lambda):
        return None
    b = key.body
    if isinstance(b, ast.Attribute):
        return {'level_time': 0, 'level_space': 1}.get(b.attr)
    if isinstance(b, ast.Subscript) and isinstance(
            b.value, ast.Attribute) and b.value.attr == 'levels' and \
            isinstance(b.slice, ast.Constant):
        return b.slice.value if b.slice.value in (0, 1) else None
    return None


def is_leaves(expr):
    """self.leaf_elements / mesh.leaf_elements (optionally list(...))."""
    if isinstance(expr, ast.Call) and text(expr.func) == 'list' and \
            len(expr.args) == 1:
        expr = expr.args[0]
    return isinstance(expr, ast.Attribute) and expr.attr == 'leaf_elements'


def refine_call(node):
    """-> (axis, arg ast) if node is X.refine_time(e) / refine_space(e) /
    refine_axis(e, k)"""
    if isinstance(node, ast.Call) and isinstance(node.func, ast.Attribute):
        if node.func.attr in AX and len(node.args) == 1:
            return AX[node.func.attr], node.args[0]
        if node.func.attr == 'refine_axis' and len(node.args) == 2 and \
                isinstance(node.args[1], ast.Constant):
            return node.args[1].value, node.args[0]
    return None


def refine_calls_in(stmts):
    out = []
    for st in stmts:
        for n in ast.walk(st):
            rc = refine_call(n)
            if rc is not None:
                out.append((rc[0], rc[1], n))
    return out


class Driver:
    def __init__(self, report, fi, rule='R-stale'):
        self.report = report
        self.fi = fi
        self.rule = rule
        self.env = {}
        self.epoch = 0
        self.last_pass = None  # (axis, epoch_before, ok)
        self.n_loops = 0
        self.exception = EXCEPTIONS.get((fi.file, fi.qualname))

    # -- expression provenance -------------------------------------------
    def prov_of(self, expr):
        if is_leaves(expr):
            return Prov('snapshot', self.epoch)
        if isinstance(expr, ast.Call) and text(expr.func) == 'sorted':
            base = self.prov_of(expr.args[0]).copy()
            ax = None
            rev = False
            for kw in expr.keywords:
                if kw.arg == 'key':
                    ax = key_axis(kw.value)
                if kw.arg == 'reverse' and not (isinstance(
                        kw.value, ast.Constant) and not kw.value.value):
                    rev = True
            base.sorted_ax = None if rev else ax
            return base
        if isinstance(expr, ast.Call) and text(expr.func) == 'list' and \
                len(expr.args) == 1:
            return self.prov_of(expr.args[0]).copy()
        if isinstance(expr, ast.Name):
            return self.env.get(expr.id, Prov('unknown', None))
        if isinstance(expr, ast.Subscript) and isinstance(
                expr.value, ast.Name) and isinstance(expr.slice,
                                                     ast.Constant):
            return self.env.get('%s[%s]' % (expr.value.id, expr.slice.value),
                                Prov('unknown', None))
        if isinstance(expr, ast.Attribute) and expr.attr == 'roots':
            return Prov('snapshot', self.epoch if self.epoch == 0 else None)
        if isinstance(expr, (ast.List, ast.Tuple)) and not expr.elts:
            return Prov('empty', self.epoch)
        if isinstance(expr, ast.ListComp) and len(expr.generators) == 1:
            g = expr.generators[0]
            base = self.prov_of(g.iter).copy()
            if isinstance(expr.elt, ast.Name) and isinstance(
                    g.target, ast.Name) and expr.elt.id == g.target.id:
                base.sorted_ax = None
                return base
            # [c for e in X for c in ...] etc: unknown unless recognised
        rc = refine_call(expr)
        if rc is not None:
            return Prov('pair', self.epoch, pass_ax=rc[0])
        return Prov('unknown', None)

    # -- statements --------------------------------------------------------
    def run(self, stmts):
        for st in stmts:
            self.stmt(st)

    def stmt(self, st):
        if isinstance(st, ast.Assign) and len(st.targets) == 1:
            tgt = st.targets[0]
            if isinstance(tgt, ast.Name):
                v = st.value
                if isinstance(v, ast.List) and v.elts and all(
                        isinstance(e, ast.List) and not e.elts
                        for e in v.elts):
                    for i in range(len(v.elts)):
                        self.env['%s[%d]' % (tgt.id, i)] = Prov('empty',
                                                                self.epoch)
                    self.env[tgt.id] = Prov('unknown', None)
                else:
                    self.env[tgt.id] = self.prov_of(v)
            return
        if isinstance(st, ast.Expr) and isinstance(st.value, ast.Call):
            c = st.value
            if isinstance(c.func, ast.Attribute) and c.func.attr == 'sort':
                name = self._coll_name(c.func.value)
                if name is not None and name in self.env:
                    ax, rev = None, False
                    for kw in c.keywords:
                        if kw.arg == 'key':
                            ax = key_axis(kw.value)
                        if kw.arg == 'reverse' and not (isinstance(
                                kw.value, ast.Constant)
                                and not kw.value.value):
                            rev = True
                    self.env[name].sorted_ax = None if rev else ax
                return
            rc = refine_call(c)
            if rc is not None:
                # a bare refinement outside a loop: advances the epoch
                self.epoch += 1
                self.last_pass = None
            return
        if isinstance(st, ast.For):
            self.loop(st)
            return
        if isinstance(st, ast.While):
            # every iteration starts from scratch: names assigned inside are
            # re-established inside
            self.run(st.body)
            return
        if isinstance(st, ast.If):
            calls = refine_calls_in([st])
            if calls and not any(isinstance(n, ast.For) for n in ast.walk(st)):
                self.epoch += 1
            self.run(st.body)
            self.run(st.orelse)
            return
        if isinstance(st, (ast.With, ast.Try)):
            self.run(st.body)
            return

    def _coll_name(self, node):
        if isinstance(node, ast.Name):
            return node.id
        if isinstance(node, ast.Subscript) and isinstance(
                node.value, ast.Name) and isinstance(node.slice,
                                                     ast.Constant):
            return '%s[%s]' % (node.value.id, node.slice.value)
        return None

    def loop(self, st):
        calls = refine_calls_in(st.body)
        it_prov = self.prov_of(st.iter)
        var = st.target.id if isinstance(st.target, ast.Name) else None
        if calls:
            self.pass_loop(st, calls, it_prov, var)
            return
        # a collecting loop: appends / extends into tracked lists
        for n in ast.walk(st):
            if isinstance(n, ast.Call) and isinstance(
                    n.func, ast.Attribute) and n.func.attr in ('append',
                                                                'extend'):
                name = self._coll_name(n.func.value)
                dyn = None
                if name is None and isinstance(
                        n.func.value, ast.Subscript) and isinstance(
                            n.func.value.value, ast.Name):
                    dyn = n.func.value.value.id  # marked[refine_axis]
                arg = n.args[0] if n.args else None
                prov = self._collected(st, n, arg, it_prov, var)
                targets = [name] if name is not None else [
                    k for k in self.env if dyn and k.startswith(dyn + '[')]
                for t in targets:
                    cur = self.env.get(t)
                    if cur is None or cur.kind == 'empty':
                        self.env[t] = prov.copy()
                    elif cur.kind != prov.kind or cur.epoch != prov.epoch:
                        if not (cur.kind == 'reresolved'
                                and prov.kind == 'reresolved'):
                            self.env[t] = Prov('unknown', None)

    def _collected(self, loop, call, arg, it_prov, var):
        """Provenance of what a collecting loop puts into a list."""
        # X.append(elem) / X.append(elems[i]) with elems a snapshot
        if isinstance(arg, ast.Name) and arg.id == var:
            # possibly the S3 idiom: under `if elem.children` the other
            # branch extends with the children
            if self._is_reresolve(loop, var):
                return Prov('reresolved', self.epoch, src=it_prov)
            p = it_prov.copy()
            p.sorted_ax = None
            return p
        if isinstance(arg, ast.Name):
            # element taken out of a tuple the loop unpacks
            if isinstance(loop.target, ast.Tuple):
                pos = [i for i, e in enumerate(loop.target.elts)
                       if isinstance(e, ast.Name) and e.id == arg.id]
                if pos:
                    p = it_prov.copy()
                    if p.kind == 'unknown' and isinstance(loop.iter,
                                                          ast.Name):
                        p = self.carrier_prov(loop.iter.id, pos[0]).copy()
                    p.sorted_ax = None
                    return p
        if isinstance(arg, ast.Subscript) and isinstance(arg.value,
                                                         ast.Name):
            p = self.env.get(arg.value.id, Prov('unknown', None)).copy()
            p.sorted_ax = None
            return p
        if isinstance(arg, ast.Attribute) and arg.attr == 'children' and \
                isinstance(arg.value, ast.Name) and arg.value.id == var:
            if self._is_reresolve(loop, var):
                return Prov('reresolved', self.epoch, src=it_prov)
        if isinstance(arg, ast.Tuple):
            # errs entries (val, elem, axis): elements of a snapshot
            return Prov('unknown', None)
        return Prov('unknown', None)

    def carrier_prov(self, name, pos):
        """`name` is a list of tuples built by comprehensions over
        zip(..., SNAPSHOT); provenance of tuple position `pos`."""
        provs = []
        for n in ast.walk(self.fi.node):
            val = None
            if isinstance(n, ast.Assign) and any(
                    isinstance(t, ast.Name) and t.id == name
                    for t in n.targets):
                val = n.value
            elif isinstance(n, ast.AugAssign) and isinstance(
                    n.target, ast.Name) and n.target.id == name and \
                    isinstance(n.op, ast.Add):
                val = n.value
            if val is None:
                continue
            if not (isinstance(val, ast.ListComp) and isinstance(
                    val.elt, ast.Tuple) and len(val.generators) == 1
                    and pos < len(val.elt.elts)):
                return Prov('unknown', None)
            g = val.generators[0]
            e = val.elt.elts[pos]
            if not (isinstance(e, ast.Name) and isinstance(
                    g.target, ast.Tuple) and isinstance(g.iter, ast.Call)
                    and text(g.iter.func) == 'zip'):
                return Prov('unknown', None)
            j = [i for i, t in enumerate(g.target.elts)
                 if isinstance(t, ast.Name) and t.id == e.id]
            if not j or j[0] >= len(g.iter.args):
                return Prov('unknown', None)
            provs.append(self.prov_of(g.iter.args[j[0]]))
        if not provs or any(p.kind != 'snapshot' or p.epoch != provs[0].epoch
                            for p in provs):
            return Prov('unknown', None)
        return provs[0]

    def _is_reresolve(self, loop, var):
        """for e in Y: if e.children: X.extend(e.children) else: X.append(e)
        """
        if len(loop.body) != 1 or not isinstance(loop.body[0], ast.If):
            return False
        iff = loop.body[0]
        if text(iff.test) != '%s.children' % var:
            return False
        def one_call(body, attr, argtext):
            return len(body) == 1 and isinstance(
                body[0], ast.Expr) and isinstance(
                    body[0].value, ast.Call) and isinstance(
                        body[0].value.func, ast.Attribute) and \
                body[0].value.func.attr == attr and text(
                    body[0].value.args[0]) == argtext
        return one_call(iff.body, 'extend', var + '.children') and \
            one_call(iff.orelse, 'append', var)

    # -- the rule ----------------------------------------------------------
    def pass_loop(self, st, calls, it_prov, var):
        self.n_loops += 1
        axes = {c[0] for c in calls}
        where = self.fi.where(st)
        inst = '%s loop over `%s` -> %s' % (
            self.fi.qualname, text(st.iter)[:40],
            '/'.join('refine_' + AXNAME[a] for a in sorted(axes)))
        construct = '%s: refine_%s loop over %s' % (
            self.fi.qualname, '/'.join(AXNAME[a] for a in sorted(axes)),
            text(st.iter)[:40])
        # every refine call must take the loop variable itself (or the
        # direct children returned by a refine call in the loop header)
        nested = isinstance(st.iter, ast.Call) and refine_call(st.iter)
        if len(axes) != 1:
            raise AnalysisError('%s: refinement loop mixes axes' % where)
        ax = axes.pop()
        arg_ok = all(isinstance(c[1], ast.Name) and c[1].id == var
                     for c in calls)
        if not arg_ok:
            raise AnalysisError('%s: refine call does not take the loop '
                                'variable' % where)
        # no skip: the refine call is unconditional in the loop body
        skip = any(isinstance(n, (ast.Continue, ast.Break))
                   for s in st.body for n in ast.walk(s))
        cond = not any(
            isinstance(s, (ast.Expr, ast.Assign, ast.AugAssign))
            and any(refine_call(n) for n in ast.walk(s)) for s in st.body)
        # also collect children returned by the pass
        collected = None
        for s in st.body:
            for n in ast.walk(s):
                if isinstance(n, ast.Call) and isinstance(
                        n.func, ast.Attribute) and n.func.attr == 'extend' \
                        and n.args and refine_call(n.args[0]):
                    collected = self._coll_name(n.func.value)
        ok, cls, why = self.classify(it_prov, ax, nested)
        if self.exception and not ok:
            ok, cls, why = True, 'exception', self.exception
        if (skip or cond) and not (self.exception and cond):
            # a conditional refinement inside the loop is only accepted in
            # the table exceptions (filter of a fresh mesh)
            ok = False
            why = 'the refine call is conditional / the loop can skip ' \
                'elements'
        self.report.check(
            ok, self.rule, inst, where,
            ('class %s: %s' % (cls, why)) if ok else
            ('no leaf-ness argument applies: %s (collection: %r)' %
             (why, it_prov)), construct=construct)
        before = self.epoch
        self.epoch += 1
        self.last_pass = (ax, before, ok, it_prov)
        if collected is not None:
            self.env[collected] = Prov('children', self.epoch, None,
                                       pass_ax=ax, pass_epoch=before)

    def classify(self, p, ax, nested):
        name = AXNAME[ax]
        if nested:
            rax = nested[0]
            if rax == 1 - ax:
                return True, 'S2', ('the two siblings returned by one '
                                    'bisection in the other axis have equal '
                                    'levels')
            return False, '-', 'loop over the result of a refinement in ' \
                'the same axis'
        if p.kind == 'pair':
            return True, 'S2', 'direct return of one bisection'
        if p.kind == 'snapshot':
            if p.epoch is None or p.epoch != self.epoch:
                return False, '-', (
                    'snapshot of the leaves was taken before an intervening '
                    'refinement pass and is not re-resolved through '
                    '.children')
            if p.sorted_ax != ax:
                return False, '-', (
                    'snapshot is not sorted ascending by the %s level (the '
                    'closure of an earlier call may bisect a coarser member '
                    'that is still waiting)' % name)
            return True, 'S1', 'fresh snapshot sorted ascending by %s ' \
                'level' % name
        if p.kind == 'children':
            lp = self.last_pass
            if p.pass_ax != 1 - ax or p.epoch != self.epoch:
                return False, '-', 'children of a pass in the same axis or ' \
                    'not of the immediately preceding pass'
            if p.sorted_ax != ax:
                return False, '-', 'returned children are not sorted by ' \
                    'the %s level' % name
            return True, 'S2', 'children returned by the preceding %s ' \
                'pass, sorted by %s level' % (AXNAME[1 - ax], name)
        if p.kind == 'reresolved':
            src = p.src
            lp = self.last_pass
            if src is None or src.kind != 'snapshot' or lp is None:
                return False, '-', 're-resolved from an unknown collection'
            # source snapshot must be current as of just before the
            # immediately preceding pass, which was in the other axis
            if lp[0] != 1 - ax or src.epoch != lp[1] or \
                    p.epoch != self.epoch:
                return False, '-', (
                    're-resolution does not bridge exactly the preceding '
                    'pass in the other axis')
            if p.sorted_ax != ax:
                return False, '-', 're-resolved list is not sorted by the ' \
                    '%s level' % name
            return True, 'S3', ('pre-pass snapshot re-resolved through '
                                '.children after the %s pass, sorted by %s '
                                'level' % (AXNAME[1 - ax], name))
        return False, '-', 'collection of unknown provenance'


DRIVERS = [
    (M, 'Mesh.refine'),
    (M, 'Mesh.uniform_refine'),
    (M, 'Mesh.uniform_refine_space'),
    (M, 'Mesh.dorfler_refine_isotropic'),
    (M, 'Mesh.dorfler_refine_anisotropic'),
    (M, 'Mesh.refine_grading'),
    (M, 'MeshParametrized.__init__'),
    ('example.py', '<main>'),
]


def check_drivers(prog, report, only=None, rule='R-stale'):
    total = 0
    for file, q in DRIVERS:
        if only is not None and q not in only:
            continue
        fi = prog.func(file, q)
        d = Driver(report, fi, rule)
        d.run(fi.node.body)
        if d.n_loops == 0:
            raise AnalysisError('%s: no refinement loop found in a driver' %
                                fi.where())
        total += d.n_loops
    return total


def all_refine_loops_known(prog, report):
    """Any function outside the driver table that loops over elements and
    refines them is reported (a new driver must be classified)."""
    known = {(f, q) for f, q in DRIVERS}
    for fi in prog.all_funcs():
        if (fi.file, fi.qualname) in known or fi.parent is not None:
            continue
        if fi.qualname in ('Mesh.refine_axis', 'Mesh.refine_time',
                           'Mesh.refine_space', 'InitialMesh.refine',
                           'InitialMesh.uniform_refine',
                           'InitialMesh.refine_msh_bdr'):
            continue
        for n in ast.walk(fi.node) if not isinstance(
                fi.node, ast.Lambda) else []:
            if isinstance(n, (ast.For, ast.While)) and refine_calls_in(
                    n.body):
                report.violation(
                    'R-stale', '%s unclassified refinement loop' %
                    fi.qualname, fi.where(n),
                    'a loop outside the driver table B.3 refines elements; '
                    'its collection has no leaf-ness argument on file',
                    construct='%s: unclassified refinement loop' %
                    fi.qualname)
