"""E3 -- causality and time-difference discipline (C04, C01, C03, C07).

R-exit-sound / R-exit-complete / R-posdiff over the frozen site table B.1 of
DESIGN.md.  Roles are bound by parameter name; every query is an entailment
in the linear fact domain of absint.
"""
import ast
import re

from .absint import (Walker, State, to_lin, text, subst, simplify_subscript,
                     Lin)
from .core import AnalysisError
from .flow import own_nodes

SL = 'src/single_layer.py'
SLX = 'src/single_layer_exact.py'
EE = 'src/error_estimator.py'
IP = 'src/initial_potential.py'

TEST_END = 'elem_test.time_interval[1]'
TRIAL_START = 'elem_trial.time_interval[0]'

# (file, qualname, kind, T, S, time parameter names, seed preconditions)
SITES = [
    (SL, 'kernel', 'leaf', 't', '0', ('t', ), ()),
    (SL, 'g', 'leaf', 'a', 'b', ('a', 'b'), ()),
    (SL, 'f', 'leaf', 'a', 'b', ('a', 'b'), ()),
    (SL, 'SingleLayerOperator.bilform', 'api', TEST_END, TRIAL_START, (),
     ()),
    (SL, 'SingleLayerOperator.potential', 'api', 't', TRIAL_START, ('t', ),
     ()),
    (SL, 'SingleLayerOperator.evaluate', 'api', 't', TRIAL_START, ('t', ),
     ('elem_trial.time_interval[0] < elem_trial.time_interval[1]', )),
    (SL, 'SingleLayerOperator.evaluate_exact', 'api', 't', TRIAL_START,
     ('t', ),
     ('elem_trial.time_interval[0] < elem_trial.time_interval[1]', )),
    (SLX, 'fint_1', 'leaf', 'a', 'b', ('a', 'b'), ()),
    (SLX, 'fint_2', 'leaf', 'a', 'b', ('a', 'b'), ()),
    (SLX, 'fint_3', 'leaf', 'a', 'b', ('a', 'b'), ()),
    (SLX, 'fint_4', 'leaf', 'a', 'b', ('a', 'b'), ()),
    (SLX, 'spacetime_evaluated_1', 'leaf', 't', 'a', ('t', 'a', 'b'),
     ('a < b', )),
]

# functions whose time differences are examined without an exit rule
POSDIFF_ONLY = [
    (SL, 'double_time_integrated_kernel', ('a', 'b', 'c', 'd'), ()),
    (SLX, 'spacetime_evaluated_2', ('t', 'a', 'b'), ('a < b', )),
    (SLX, 'gint_1', ('z', ), ('z > 0', )),
    (SLX, 'gint_2', ('z', ), ('z > 0', )),
    (IP, 'time_integrated_kernel', ('a', 'b'), ('0 <= a', 'a < b')),
]

# pre-filters: loops that skip acausal pairs before calling an API function
PREFILTERS = [
    (SL, 'MP_SL_matrix_col', 'bilform'),
    (EE, 'ErrorEstimator.residual.residual', 'evaluate'),
]

# parameters documented strictly positive: (callee name, param index)
POSITIVE_PARAMS = {'gint_1': (0, ), 'gint_2': (0, )}

API_ROLES = {
    # callee attribute name -> (T builder, S builder) from bound arguments
    'bilform': (('elem_test', '.time_interval[1]'),
                ('elem_trial', '.time_interval[0]')),
    'evaluate': (('t', ''), ('elem_trial', '.time_interval[0]')),
    'evaluate_exact': (('t', ''), ('elem_trial', '.time_interval[0]')),
    'potential': (('t', ''), ('elem_trial', '.time_interval[0]')),
}

TIME_ATOM_RE = re.compile(r'\.time_interval\[\d\]$')


def parse_expr(s):
    return ast.parse(s, mode='eval').body


def is_zero_value(node, module):
    """`0`, `0.0`, or a module function whose body is `return 0`."""
    if node is None:
        return False
    if isinstance(node, ast.Constant) and isinstance(
            node.value, (int, float)) and not isinstance(
                node.value, bool) and node.value == 0:
        return True
    if isinstance(node, ast.Name) and node.id in module.funcs:
        body = [s for s in module.funcs[node.id].node.body
                if not (isinstance(s, ast.Expr) and isinstance(
                    s.value, ast.Constant))]
        if len(body) == 1 and isinstance(body[0], ast.Return):
            return is_zero_value(body[0].value, module)
    return False


def stmt_exprs(st):
    """Expressions evaluated by the statement itself (not nested bodies)."""
    if isinstance(st, (ast.Return, ast.Expr)):
        return [st.value] if st.value is not None else []
    if isinstance(st, ast.Assign):
        return [st.value]
    if isinstance(st, ast.AugAssign):
        return [st.value]
    if isinstance(st, ast.AnnAssign):
        return [st.value] if st.value is not None else []
    if isinstance(st, (ast.If, ast.While)):
        return [st.test]
    if isinstance(st, ast.For):
        return [st.iter]
    if isinstance(st, ast.Assert):
        return [st.test]
    return []


class TimeWalker(Walker):
    """Checks one site."""
    unroll_literal_loops = True
    def __init__(self, report, fi, kind, T, S, time_params, rules):
        super().__init__()
        self.report = report
        self.fi = fi
        self.kind = kind
        self.T = parse_expr(T) if T else None
        self.S = parse_expr(S) if S else None
        self.time_params = set(time_params)
        self.rules = rules
        self.n_zero = 0
        self.n_nonzero = 0
        self.n_sinks = 0

    # -- helpers -----------------------------------------------------------
    def is_time_atom(self, atom):
        base = atom.split('#')[0]
        return base in self.time_params or bool(TIME_ATOM_RE.search(atom))

    def _ts(self, state):
        return state.lin(self.T), state.lin(self.S)

    def where(self, node):
        q = self.fi.qualname
        if len(self.func_stack) > 1:
            q += '.' + '.'.join(f.name for f in self.func_stack[1:])
        return '%s:%d (%s)' % (self.fi.file, getattr(node, 'lineno', 0), q)

    # -- hooks -------------------------------------------------------------
    def on_return(self, st, state):
        if self.T is None or len(self.func_stack) > 1:
            return
        t, s = self._ts(state)
        inst = '%s return `%s`' % (self.fi.qualname,
                                   text(st.value)[:50] if st.value else '')
        if is_zero_value(st.value, self.fi.module):
            self.n_zero += 1
            if 'sound' in self.rules:
                ok = state.entails(('lin', t - s, '<='))
                self.report.check(
                    ok, 'R-exit-sound', inst, self.where(st),
                    'a zero exit must imply T <= S (T=%s, S=%s); path '
                    'facts: %s' % (text(self.T), text(self.S),
                                   state.facts_text()[:200]),
                    construct='%s: zero exit not implied acausal' %
                    self.fi.qualname)
        else:
            self.n_nonzero += 1
            if 'complete' in self.rules:
                ok = state.entails(('lin', s - t, '<'))
                self.report.check(
                    ok, 'R-exit-complete', inst, self.where(st),
                    'a kernel value may only be returned where the path '
                    'facts entail T > S (T=%s, S=%s): the zero exits must '
                    'cover all of T <= S; path facts: %s' %
                    (text(self.T), text(self.S), state.facts_text()[:200]),
                    construct='%s: non-zero return reachable with T <= S' %
                    self.fi.qualname)

    def on_exit_fallthrough(self, fnode, state):
        if self.T is None or len(self.func_stack) > 1:
            return
        if 'complete' in self.rules:
            # falling off the end returns None: only acceptable if the path
            # facts are contradictory with causality handled elsewhere
            self.report.violation(
                'R-exit-complete', '%s falls off the end' % self.fi.qualname,
                self.where(fnode),
                'a path reaches the end of the function without returning '
                'a value; facts: %s' % state.facts_text()[:200],
                construct='%s: falls off the end' % self.fi.qualname)

    def on_stmt(self, st, state):
        if 'posdiff' not in self.rules:
            return
        for e in stmt_exprs(st):
            self.scan_expr(e, state, st)

    def scan_expr(self, e, state, st):
        lam_env = {k: v for k, v in state.env.items()
                   if isinstance(v, ast.Lambda)}
        if lam_env and any(isinstance(n, ast.Call) and isinstance(
                n.func, ast.Name) and n.func.id in lam_env
                for n in ast.walk(e)):
            # a local helper: its body is scanned at each call site with
            # the actual arguments
            from .absint import beta_reduce, subst
            e = beta_reduce(subst(e, lam_env))
        for n in ast.walk(e):
            if isinstance(n, ast.BinOp) and isinstance(n.op, ast.Div):
                self.sink(n.right, state, st, 'denominator', strict=True)
            elif isinstance(n, ast.BinOp) and isinstance(n.op, ast.Pow):
                ex = n.right
                neg = isinstance(ex, ast.UnaryOp) and isinstance(
                    ex.op, ast.USub)
                frac_ = isinstance(ex, ast.BinOp) and isinstance(
                    ex.op, ast.Div)
                if neg:
                    self.sink(n.left, state, st, 'negative power base',
                              strict=True)
                elif frac_:
                    self.sink(n.left, state, st, 'fractional power base',
                              strict=False)
            elif isinstance(n, ast.Call):
                fn = text(n.func)
                if fn in ('sqrt', 'np.sqrt', 'math.sqrt') and n.args:
                    self.sink(n.args[0], state, st, 'sqrt argument',
                              strict=False)
                short = fn.split('.')[-1]
                if short in POSITIVE_PARAMS:
                    for i in POSITIVE_PARAMS[short]:
                        if i < len(n.args):
                            self.sink(n.args[i], state, st,
                                      'argument %d of %s (documented > 0)' %
                                      (i, short), strict=True, one_sign=True)

    def sink(self, expr, state, st, what, strict, one_sign=False):
        lin = state.lin(expr)
        atoms = lin.atoms()
        if not atoms or not all(self.is_time_atom(a) for a in atoms):
            return
        self.n_sinks += 1
        inst = '%s %s `%s`' % (self.fi.qualname, what, text(expr)[:40])
        if strict:
            pos = state.entails(('lin', -lin, '<'))
            neg = (not one_sign) and state.entails(('lin', lin, '<'))
            ok = pos or neg
            need = 'strictly positive' if one_sign else \
                'of one strict sign'
        else:
            ok = state.entails(('lin', -lin, '<='))
            need = 'non-negative'
        self.report.check(
            ok, 'R-posdiff', inst, self.where(st),
            'time difference %s must be %s on every path reaching it; '
            'path facts: %s' % (lin, need, state.facts_text()[:200]),
            construct='%s: %s `%s` not %s' %
            (self.fi.qualname, what, text(state.sub(expr))[:60], need))


def run_sites(prog, report, which=('sound', 'complete', 'posdiff'),
              files=None):
    """Apply the exit and positivity rules to the site table."""
    for file, q, kind, T, S, tparams, seeds in SITES:
        if files is not None and file not in files:
            continue
        fi = prog.func(file, q)
        rules = set(which)
        w = TimeWalker(report, fi, kind, T, S, tparams, rules)
        st = State()
        for s in seeds:
            st.assume(parse_expr(s))
        w.walk_function(fi.node, st)
        if ('sound' in rules or 'complete' in rules):
            if w.n_zero == 0:
                raise AnalysisError(
                    '%s: no zero exit found (causality guard vanished or '
                    'not recognised)' % fi.where())
            if w.n_nonzero == 0 and kind != 'pre':
                raise AnalysisError('%s: no value-returning path found' %
                                    fi.where())
    if 'posdiff' in which:
        for file, q, tparams, seeds in POSDIFF_ONLY:
            if files is not None and file not in files:
                continue
            fi = prog.func(file, q)
            w = TimeWalker(report, fi, 'posdiff', None, None, tparams,
                           {'posdiff'})
            st = State()
            for s in seeds:
                st.assume(parse_expr(s))
            w.walk_function(fi.node, st)
            if w.n_sinks == 0:
                raise AnalysisError('%s: no time-difference sink found' %
                                    fi.where())


# --------------------------------------------------------------------------
# pre-filters
# --------------------------------------------------------------------------
class PreWalker(Walker):
    def __init__(self, prog, report, fi, api):
        super().__init__()
        self.prog = prog
        self.report = report
        self.fi = fi
        self.api = api
        self.n = 0

    def on_loop_exit_stmt(self, st, state):
        if not isinstance(st, ast.Continue) or not self.loop_stack:
            return
        loop = self.loop_stack[-1]
        # API calls in the same loop body, after the guard
        calls = [n for n in ast.walk(loop) if isinstance(n, ast.Call)
                 and isinstance(n.func, ast.Attribute)
                 and n.func.attr in API_ROLES
                 and getattr(n, 'lineno', 0) >= st.lineno]
        if not calls:
            return
        for call in calls:
            roles = bind_api_roles(self.prog, call)
            if roles is None:
                raise AnalysisError('%s: cannot bind roles of `%s`' %
                                    (self.fi.where(call), text(call)[:60]))
            T, S = roles
            t, s = state.lin(T), state.lin(S)
            self.n += 1
            ok = state.entails(('lin', t - s, '<='))
            self.report.check(
                ok, 'R-exit-sound',
                '%s skip before %s' % (self.fi.qualname, call.func.attr),
                '%s:%d (%s)' % (self.fi.file, st.lineno, self.fi.qualname),
                'a pair/point may be skipped only if T <= S for the call it '
                'guards (T=%s, S=%s); path facts: %s' %
                (text(T), text(S), state.facts_text()[:200]),
                construct='%s: skip not implied acausal for %s' %
                (self.fi.qualname, call.func.attr))
        # skipped stores must leave zero behind
        self._zero_storage(loop, st)

    def _zero_storage(self, loop, cont):
        fnode = self.func_stack[-1]
        for n in ast.walk(loop):
            if isinstance(n, ast.Assign) and getattr(
                    n, 'lineno', 0) > cont.lineno:
                for tgt in n.targets:
                    if isinstance(tgt, ast.Subscript) and isinstance(
                            tgt.value, ast.Name):
                        name = tgt.value.id
                        init = None
                        for f in self.func_stack[::-1]:
                            for m in ast.walk(f):
                                if isinstance(m, ast.Assign) and any(
                                        isinstance(t, ast.Name)
                                        and t.id == name
                                        for t in m.targets):
                                    init = m.value
                            if init is not None:
                                break
                        ok = isinstance(init, ast.Call) and text(
                            init.func) in ('np.zeros', 'numpy.zeros')
                        self.report.check(
                            ok, 'R-zero-storage',
                            '%s %s[...]' % (self.fi.qualname, name),
                            '%s:%d (%s)' % (self.fi.file, n.lineno,
                                            self.fi.qualname),
                            'storage whose store is skipped for acausal '
                            'pairs must be created by np.zeros')


def bind_api_roles(prog, call):
    """(T ast, S ast) for a call of bilform/evaluate/... using the callee's
    parameter names in today's source."""
    attr = call.func.attr
    fi = prog.func(SL, 'SingleLayerOperator.' + attr)
    params = fi.params[1:]  # drop self
    bound = {}
    for p, a in zip(params, call.args):
        bound[p] = a
    for kw in call.keywords:
        bound[kw.arg] = kw.value
    (tp, tsuf), (sp_, ssuf) = API_ROLES[attr]
    if tp not in bound or sp_ not in bound:
        return None
    T = parse_expr('(%s)%s' % (text(bound[tp]), tsuf))
    S = parse_expr('(%s)%s' % (text(bound[sp_]), ssuf))
    return T, S


class FilterWalker(Walker):
    """Loops that iterate a *filtered* copy of the trial list: an element
    dropped by the filter is skipped for every point of the call, so the
    negated filter condition must imply T <= S for the API call it guards.
    """
    def __init__(self, prog, report, fi):
        super().__init__()
        self.prog = prog
        self.report = report
        self.fi = fi
        self.n = 0

    def on_stmt(self, st, state):
        if not isinstance(st, ast.For):
            return
        it = state.sub(st.iter)
        if not (isinstance(it, ast.ListComp) and it.generators
                and it.generators[0].ifs):
            return
        calls = [n for n in ast.walk(st) if isinstance(n, ast.Call)
                 and isinstance(n.func, ast.Attribute)
                 and n.func.attr in API_ROLES]
        if not calls:
            return
        g = it.generators[0]
        # map comprehension names -> loop names by position
        def flat(t):
            return [text(e) for e in t.elts] if isinstance(
                t, ast.Tuple) else [text(t)]
        elt_names = flat(it.elt)
        loop_names = flat(st.target)
        if len(elt_names) != len(loop_names):
            raise AnalysisError('%s: filtered list shape not recognised' %
                                self.fi.where(st))
        ren = {c: ast.Name(id=l, ctx=ast.Load())
               for c, l in zip(elt_names, loop_names)}
        # state inside the loop body (loop variables renamed by the walker)
        inner = state.copy()
        for n in loop_names:
            inner.forget(n)
        for cond in g.ifs:
            cond2 = subst(subst(cond, ren), inner.env)
            for call in calls:
                roles = bind_api_roles(self.prog, call)
                if roles is None:
                    raise AnalysisError('%s: cannot bind roles' %
                                        self.fi.where(call))
                # the point time is bound inside the loop nest: give it a
                # fresh symbol unrelated to anything outside
                T, S = roles
                dropped = inner.copy().assume(cond2, neg=True)
                tl = to_lin(subst(subst(T, {'t': ast.Name(
                    id='t#point', ctx=ast.Load())}), inner.env))
                sl = to_lin(subst(S, inner.env))
                ok = dropped.entails(('lin', tl - sl, '<='))
                self.n += 1
                self.report.check(
                    ok, 'R-exit-sound',
                    '%s filter before %s' % (self.fi.qualname,
                                             call.func.attr),
                    self.fi.where(st),
                    'trial elements removed by the filter `%s` are skipped '
                    'for every point of the call: that is sound only if '
                    'the negated condition implies T <= S for each point '
                    '(T=%s, S=%s)' % (text(cond), text(T), text(S)),
                    construct='%s: filter on the trial list not implied '
                    'acausal' % self.fi.qualname)


def run_prefilters(prog, report):
    for file, q, api in PREFILTERS:
        fi = prog.func(file, q)
        fw = FilterWalker(prog, report, fi)
        top = fi
        while top.parent is not None:
            top = top.parent
        fw.walk_function(top.node)
        w = PreWalker(prog, report, fi, api)
        w.walk_function(fi.node)
        # a vanished pre-filter is an equivalent program (the callee is
        # complete); nothing to demand
        if w.n == 0:
            report.note('%s: no causality pre-filter present (fine: the '
                        'callee is complete)' % fi.where())
