"""E7 -- sign conventions (R-signs) and driver index spaces (C03, C20)."""
import ast

from .absint import text
from .core import AnalysisError

EX = 'example.py'
EE = 'src/error_estimator.py'
HH = 'src/h_h2_error_estimator.py'
HI = 'src/hierarchical_error_estimator.py'

ZERO = {}


def _add(a, b, s=1):
    out = dict(a)
    for k, v in b.items():
        out[k] = out.get(k, 0) + s * v
        if out[k] == 0:
            del out[k]
    return out


class LinAcc:
    """Linear forms in the atoms V (single layer), M0 (initial potential),
    g (Dirichlet data) of the variables of one function body.  Conditionals
    of the kind `if M0:` are followed with the condition assumed true (the
    coefficient a term has when it is present)."""
    def __init__(self, fi, classify):
        self.fi = fi
        self.classify = classify
        self.env = {}

    def form(self, e):
        c = self.classify(e, self)
        if c is not None:
            return c
        if isinstance(e, ast.Constant) and e.value == 0:
            return {}
        if isinstance(e, ast.Call) and text(e.func) in (
                'np.squeeze', 'float', 'np.asarray', 'np.array', 'np.real',
                'np.ravel') and len(e.args) >= 1:
            return self.form(e.args[0])
        if isinstance(e, ast.Call) and isinstance(
                e.func, ast.Attribute) and e.func.attr in (
                    'item', 'squeeze', 'flatten', 'ravel', 'copy') and \
                not e.args:
            return self.form(e.func.value)
        if isinstance(e, ast.Attribute) and e.attr in ('real', 'T'):
            return self.form(e.value)
        if isinstance(e, ast.Call) and text(e.func) in ('np.zeros',
                                                        'np.zeros_like'):
            return {}
        if isinstance(e, ast.Name):
            if e.id in self.env:
                return self.env[e.id]
            return None
        if isinstance(e, ast.Subscript):
            return self.form(e.value)
        if isinstance(e, ast.UnaryOp) and isinstance(e.op, ast.USub):
            f = self.form(e.operand)
            return None if f is None else {k: -v for k, v in f.items()}
        if isinstance(e, ast.BinOp):
            if isinstance(e.op, (ast.Add, ast.Sub)):
                l, r = self.form(e.left), self.form(e.right)
                if l is None or r is None:
                    return None
                return _add(l, r, 1 if isinstance(e.op, ast.Add) else -1)
            if isinstance(e.op, ast.Mult):
                l, r = self.form(e.left), self.form(e.right)
                # coefficient * term: keep the term's form
                if l is None and r is not None:
                    return r
                if r is None and l is not None:
                    return l
            if isinstance(e.op, ast.MatMult):
                l, r = self.form(e.left), self.form(e.right)
                if l is not None and r is None:
                    return l
                if r is not None and l is None:
                    return r
        return None

    def run(self, stmts):
        for st in stmts:
            if isinstance(st, ast.Assign) and len(st.targets) == 1:
                tgt = st.targets[0]
                name = text(tgt.value) if isinstance(
                    tgt, ast.Subscript) else text(tgt)
                f = self.form(st.value)
                if f is not None:
                    self.env[name] = f
                elif name in self.env and not isinstance(tgt,
                                                         ast.Subscript):
                    del self.env[name]
            elif isinstance(st, ast.AugAssign):
                tgt = st.target
                name = text(tgt.value) if isinstance(
                    tgt, ast.Subscript) else text(tgt)
                f = self.form(st.value)
                if f is not None and isinstance(st.op, (ast.Add, ast.Sub)):
                    cur = self.env.get(name, {})
                    self.env[name] = _add(
                        cur, f, 1 if isinstance(st.op, ast.Add) else -1)
            elif isinstance(st, (ast.If, ast.For, ast.While, ast.With)):
                self.run(st.body)
                # else-branches of presence tests do not contribute
            elif isinstance(st, ast.Try):
                self.run(st.body)


def proportional(f, ref):
    """f == lambda * ref with lambda != 0, on the atoms present in f; every
    atom of f must be in ref."""
    if not f:
        return False
    lam = None
    for k, v in f.items():
        if k not in ref:
            return False
        r = v / ref[k]
        if lam is None:
            lam = r
        elif r != lam:
            return False
    return lam is not None and lam != 0


REF = {'V': 1, 'M0': 1, 'g': -1}


def _classify_driver(e, acc):
    if isinstance(e, ast.Call):
        fn = text(e.func)
        if fn.endswith('.linform_vector'):
            return {'M0': 1}
        if fn in ('g_linform', 'self.g'):
            return {'g': 1}
        if fn.endswith('.bilform_matrix'):
            return {'V': 1}
    return None


def check_signs(prog, report, which=('driver', 'hh2', 'hier', 'residual')):
    if 'driver' in which:
        fi = prog.func(EX, '<main>')
        acc = LinAcc(fi, _classify_driver)
        acc.run(fi.node.body)
        # Phi = np.linalg.solve(mat, rhs)
        solve = _find_solve(fi.node)
        ok, detail = False, 'solve not found'
        if solve is not None:
            m, r = (acc.form(a) for a in solve.args)
            if m is not None and r is not None:
                form = _add(m, r, -1)
                ok = proportional(form, REF) and set(form) == set(REF)
                detail = 'V Phi - rhs = %s' % form
        report.check(ok, 'R-signs', 'driver linear system',
                     fi.where(solve) if solve is not None else fi.where(),
                     'mat Phi = rhs with rhs = -<M0 u0, 1> + <g, 1>: the '
                     'solved relation is proportional to V + M0 - g; ' +
                     detail, construct='example: sign of the linear system')
    if 'hh2' in which:
        fi = prog.func(HH, 'HH2ErrorEstimator.estimate')
        acc = LinAcc(fi, _classify_driver)
        acc.run(fi.node.body)
        solve = _find_solve(fi.node)
        ok, detail = False, 'solve not found'
        if solve is not None:
            m, r = (acc.form(a) for a in solve.args)
            if m is not None and r is not None:
                form = _add(m, r, -1)
                ok = proportional(form, REF) and set(form) == set(REF)
                detail = 'V Phi_fine - rhs = %s (all three terms must be present when both data are given)' % form
        report.check(ok, 'R-signs', 'h-h/2 fine system', fi.where(),
                     'the fine system has the same sign convention as the '
                     'driver; ' + detail,
                     construct='HH2ErrorEstimator: sign of the fine system')
    if 'hier' in which:
        fi = prog.func(HI, 'HierarchicalErrorEstimator.estimate')

        def cls(e, acc):
            c = _classify_driver(e, acc)
            return c
        acc = LinAcc(fi, cls)
        acc.run(fi.node.body)
        # abs(rhs_estim - V_estim)
        ok, detail = False, 'residual combination not found'
        for n in ast.walk(fi.node):
            if isinstance(n, ast.Call) and text(n.func) in ('abs',
                                                            'np.abs'):
                f = acc.form(n.args[0])
                if f is not None and 'V' in f:
                    ok = proportional(f, REF) and set(f) == set(REF)
                    detail = '|%s|' % f
        report.check(ok, 'R-signs', 'hierarchical residual functional',
                     fi.where(),
                     'the two-level residual <data - V Phi, psi> combines '
                     'g, M0 and V proportionally to V + M0 - g; ' + detail,
                     construct='HierarchicalErrorEstimator: residual '
                     'functional')
    if 'residual' in which:
        fi = prog.func(EE, 'ErrorEstimator.residual.residual')

        def cls(e, acc):
            if isinstance(e, ast.Call):
                fn = text(e.func)
                if fn.endswith('.evaluate') or fn.endswith(
                        '.evaluate_exact'):
                    return {'V': 1}
                if fn == 'M0u0':
                    return {'M0': 1}
                if fn == 'g':
                    return {'g': 1}
            return None
        acc = LinAcc(fi, cls)
        acc.run(fi.node.body)
        f = acc.env.get('result')
        ok = f is not None and f == REF
        report.check(ok, 'R-signs', 'pointwise residual', fi.where(),
                     'r = V Phi + M0u0 - g exactly (the residual itself, '
                     'not a multiple); found %s' % f,
                     construct='ErrorEstimator.residual: sign convention')
        # each trial element enters with its own coefficient Phi[j]
        okc = False
        for n in ast.walk(fi.node):
            if isinstance(n, ast.For) and isinstance(
                    n.iter, ast.Call) and text(
                        n.iter.func) == 'enumerate' and isinstance(
                            n.target, ast.Tuple):
                j, e = (text(t_) for t_ in n.target.elts)
                if text(n.iter.args[0]) != 'elems':
                    continue
                terms = [m for m in ast.walk(n) if isinstance(m, ast.AugAssign)
                         and text(m.target) == 'VPhi']
                good = [m for m in terms if isinstance(
                    m.value, ast.BinOp) and isinstance(
                        m.value.op, ast.Mult) and 'Phi[%s]' % j in (
                            text(m.value.left), text(m.value.right))
                        and isinstance(m.op, ast.Add) and any(
                            isinstance(q, ast.Call) and q.args and text(
                                q.args[0]) == e for q in ast.walk(m.value))]
                okc = bool(terms) and len(good) == len(terms)
        report.check(okc, 'R-signs', 'residual density coefficients',
                     fi.where(),
                     'V Phi = sum_j Phi[j] * (V 1_j)(t, x): coefficient j '
                     'multiplies the evaluation of trial element j of the '
                     'same list', construct='ErrorEstimator.residual: '
                     'Phi[j] * evaluate(elem_j)')


def _find_solve(fnode):
    for n in ast.walk(fnode):
        if isinstance(n, ast.Call) and text(n.func) in (
                'np.linalg.solve', 'numpy.linalg.solve',
                'scipy.linalg.solve') and len(n.args) == 2:
            return n
    return None


def check_driver_index(prog, report):
    """example.<main>: matrix, load, solution and estimators all range over
    the same element list of the iteration."""
    fi = prog.func(EX, '<main>')
    loop = None
    for n in fi.node.body:
        if isinstance(n, ast.For) and any(
                isinstance(m, ast.Call) and text(m.func).endswith(
                    '.bilform_matrix') for m in ast.walk(n)):
            loop = n
    if loop is None:
        raise AnalysisError('%s: adaptive loop not found' % fi.where())
    lists = [m for m in loop.body if isinstance(m, ast.Assign) and text(
        m.value) == 'list(mesh.leaf_elements)']
    if len(lists) != 1:
        raise AnalysisError('%s: element snapshot of the iteration not '
                            'found' % fi.where(loop))
    L = text(lists[0].targets[0])
    re_assigned = [m for m in ast.walk(loop) if isinstance(m, ast.Assign)
                   and any(text(t_) == L for t_ in m.targets)]
    uses = []
    for m in ast.walk(loop):
        if not isinstance(m, ast.Call):
            continue
        fn = text(m.func)
        if fn.endswith('.bilform_matrix'):
            a = [text(x) for x in m.args[:2]] + [
                text(k.value) for k in m.keywords
                if k.arg in ('elems_test', 'elems_trial')]
            uses.append(('bilform_matrix', a[:2] == [L, L], m))
        elif fn.endswith('.linform_vector'):
            a = [text(k.value) for k in m.keywords if k.arg == 'elems'] + [
                text(x) for x in m.args[:1]]
            uses.append(('linform_vector', a[:1] == [L], m))
        elif fn == 'g_linform':
            uses.append(('g_linform', [text(x) for x in m.args] == [L], m))
        elif fn.endswith('.residual'):
            uses.append(('residual', [text(x) for x in m.args[:2]] ==
                         [L, 'Phi'], m))
        elif fn.endswith('.estimate') and len(m.args) >= 2:
            uses.append((fn, [text(x) for x in m.args[:2]] == [L, 'Phi'],
                         m))
        elif fn.endswith('.estimate_weighted_l2') or fn.endswith(
                '.estimate_sobolev'):
            uses.append((fn, text(m.args[0]) == L, m))
    for name, ok, m in uses:
        report.check(ok and len(re_assigned) == 1, 'R-index',
                     'driver %s over the iteration list' % name,
                     fi.where(m),
                     'matrix, load vector, solution and estimators range '
                     'over the same snapshot `%s` of the leaves' % L,
                     construct='example: %s uses the iteration list' % name)
    if len(uses) < 6:
        raise AnalysisError('%s: driver calls not recognised (%d)' %
                            (fi.where(loop), len(uses)))
    solve = _find_solve(loop)
    ok = solve is not None and [text(a) for a in solve.args] == ['mat',
                                                                  'rhs']
    report.check(ok, 'R-index', 'driver solve(mat, rhs)',
                 fi.where(solve) if solve else fi.where(loop),
                 'Phi solves mat Phi = rhs with mat rows = test',
                 construct='example: solve arguments')


# --------------------------------------------------------------------------
# R-scalar on the residual: data callables return rank 0 into result[i]
# --------------------------------------------------------------------------
def shipped_data_ranks(prog):
    """Rank of the value returned by every shipped M0u0 / g when called as
    the residual calls them: (t: rank 0, xy: rank 2 (2x1 array))."""
    from .quadtree import RankEval
    PR = 'problems.py'
    m = prog.module(PR)
    out = {'M0u0': {}, 'g': {}}
    for q, fi in m.funcs.items():
        if q.endswith('.M0u0'):
            ev = RankEval(fi, None)
            ev.env = {fi.params[0]: {0}, fi.params[1]: {2}}
            ret = None
            for st in fi.node.body:
                if isinstance(st, ast.Assign):
                    for t_ in st.targets:
                        ev.assign(t_, st.value)
                elif isinstance(st, ast.Return):
                    ret = ev.rank(st.value)
            out['M0u0'][q] = ret
    fi = prog.func(PR, 'problem_helper')
    for n in ast.walk(fi.node):
        if isinstance(n, ast.Assign) and isinstance(
                n.targets[0], ast.Subscript) and isinstance(
                    n.targets[0].slice, ast.Constant) and \
                n.targets[0].slice.value == 'g' and isinstance(
                    n.value, ast.Lambda):
            lam = n.value
            ev = RankEval(fi, None)
            ev.env = {lam.args.args[0].arg: {0}, lam.args.args[1].arg: {2}}
            out['g']['g@%d' % n.lineno] = ev.rank(lam.body)
    return out


def check_residual_ranks(prog, report):
    from .quadtree import RankEval
    fi = prog.func(EE, 'ErrorEstimator.residual.residual')
    ranks = shipped_data_ranks(prog)
    if not ranks['M0u0'] or not ranks['g']:
        raise AnalysisError('problems.py: shipped data not found')
    for name in ('M0u0', 'g'):
        rs = ranks[name]
        if any(r is None for r in rs.values()):
            raise AnalysisError('rank of shipped %s undetermined: %s' %
                                (name, rs))
        worst = set().union(*rs.values())
        stores = [n for n in ast.walk(fi.node) if isinstance(
            n, (ast.AugAssign, ast.Assign)) and any(
                isinstance(m, ast.Call) and text(m.func) == name
                for m in ast.walk(n.value))]
        if not stores:
            raise AnalysisError('%s: use of %s not found' %
                                (fi.where(), name))
        for st in stores:
            tgt = st.target if isinstance(st, ast.AugAssign) else \
                st.targets[0]
            ev = RankEval(fi, None)
            ev.hooks = {name: worst}
            r = ev.rank(st.value)
            scalar_slot = isinstance(tgt, ast.Subscript)
            report.check(
                r is not None and (not scalar_slot or r == {0}), 'R-scalar',
                'residual stores %s' % name, fi.where(st),
                'a value added to the scalar slot result[i] must have rank '
                '0: NumPy >= 2 refuses to store a 1-element array of rank '
                '>= 1 into an array element.  The shipped %s return rank %s '
                'for a 2x1 point (%s); after the wrapping at this site the '
                'rank is %s' % (name, sorted(worst),
                                {k: sorted(v) for k, v in rs.items()},
                                sorted(r) if r else r),
                construct='ErrorEstimator.residual: rank of %s stored into '
                'result[i]' % name)



def check_stale_loop_names(prog, report, sites):
    """A for-loop target that rebinds a parameter (or a closure argument) of
    the enclosing function holds the *last* item after the loop; reading the
    name after the loop as if it still were the argument broadcasts that one
    item.  sites: [(file, qualname)]"""
    n = 0
    for file, q in sites:
        fi = prog.func(file, q)
        funcs = [fi.node] + [m for m in ast.walk(fi.node) if isinstance(
            m, (ast.FunctionDef, ast.AsyncFunctionDef)) and m is not fi.node]
        for fn in funcs:
            params = {a.arg for a in fn.args.args + fn.args.kwonlyargs}

            def scan(stmts):
                nonlocal n
                for i, st in enumerate(stmts):
                    if isinstance(st, ast.For):
                        n += 1
                        rebound = {m.id for m in ast.walk(st.target)
                                   if isinstance(m, ast.Name)} & params
                        later = set()
                        for s2 in stmts[i + 1:]:
                            for m in ast.walk(s2):
                                if isinstance(m, ast.Name) and isinstance(
                                        m.ctx, ast.Load):
                                    later.add(m.id)
                        stale = sorted(rebound & later)
                        report.check(
                            not stale, 'R-scalar',
                            '%s loop over `%s`' % (
                                q.split('.')[-1], text(st.iter)[:40]),
                            fi.where(st),
                            'loop targets that shadow arguments (%s) are '
                            'not read after the loop%s' % (
                                sorted(rebound) or 'none',
                                ': %s holds the last item there' % stale
                                if stale else ''),
                            construct='%s: argument read after a loop that '
                            'rebinds it' % q.split('.')[-1])
                    for f in ('body', 'orelse', 'finalbody'):
                        sub = getattr(st, f, None)
                        if isinstance(sub, list) and sub and isinstance(
                                sub[0], ast.stmt) and not isinstance(
                                    st, (ast.FunctionDef,
                                         ast.AsyncFunctionDef)):
                            scan(sub)
            scan(fn.body)
    return n
