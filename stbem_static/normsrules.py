"""C14 -- Slobodeckij seminorm quadratures (norms.py): availability of the
requested rules, singular-measure identities, two-piece Duffy rule, layout."""
import ast

import sympy as sp

from . import tables
from .absint import text
from .core import AnalysisError
from .lift import Lifter, same_any
from .quadalg import CtorEval, Arr, Stack, U, integrate_cube, monomials

N = 'src/norms.py'
Q = 'src/quadrature.py'


def init_env(prog):
    """Symbolic evaluation of Slobodeckij.__init__: returns dict of the
    self.* attributes as Arr/Stack/list values plus the base schemes."""
    ci = prog.cls(N, 'Slobodeckij')
    fi = ci.methods['__init__']
    env = {}
    attrs = {}
    bases = {}
    calls = {}
    for st in fi.node.body:
        if isinstance(st, ast.If):
            continue
        if not isinstance(st, ast.Assign) or len(st.targets) != 1:
            continue
        tgt, val = st.targets[0], st.value
        name = text(tgt)
        if isinstance(val, ast.Call) and text(val.func) in (
                'ProductScheme2D', 'QuadScheme2D'):
            if text(val.func) == 'ProductScheme2D':
                bases[name] = [text(a) for a in val.args]
                continue
        if isinstance(val, ast.Call) and text(val.func).endswith(
                '_quadrature_scheme'):
            calls[name] = (text(val.func), [text(a) for a in val.args])
            continue
        # array expressions over a 2-D base
        base = None
        for b in bases:
            if any(isinstance(n, ast.Name) and n.id == b
                   for n in ast.walk(val)):
                base = b
        ce = CtorEval(fi, base or '_none_', 2)
        try:
            v = ce.ev(val, env)
        except AnalysisError:
            continue
        if isinstance(tgt, ast.Name):
            env[tgt.id] = v
            if base:
                env['__base__' + tgt.id] = base
        elif isinstance(tgt, ast.Attribute) and text(tgt.value) == 'self':
            attrs[tgt.attr] = (v, st)
    # the QuadScheme2D of the two-piece rule
    for st in fi.node.body:
        if isinstance(st, ast.Assign) and isinstance(
                st.value, ast.Call) and text(
                    st.value.func) == 'QuadScheme2D':
            a = st.value.args
            attrs[st.targets[0].attr] = ((env.get(text(a[0])),
                                          env.get(text(a[1]))), st)
    return fi, attrs, bases, calls


def check_availability(prog, report):
    """Every order the property names maps to a returned, verified rule."""
    ext = tables.extract_rules(prog)
    ok_rules = {}
    for fname in ('gauss_sqrtinv_quadrature_rule',
                  'gauss_x_quadrature_rule'):
        fi, rules, _ = ext[fname]
        fam = tables.FAMILIES[fname][0]
        for r in rules:
            if r.problem:
                raise AnalysisError('%s: %s' % (r.name, r.problem))
            same, inside, onesign, n = tables.shape_facts(r)
            hi, label, nm, lo = tables.residuals(r, fam, 60, True)
            good = r.returned and same and inside and onesign and hi < 1e-13
            ok_rules[(fname, r.key)] = (good, n, r)
            report.check(
                good, 'E1-rule', r.name,
                '%s:%d (%s)' % (fi.file, r.lineno, fname),
                'rule is returned, has equally many nodes and weights '
                'inside (0,1) with one-sign weights and is exact for its '
                'weight to degree %d in double precision (max rel residual '
                '%.1e)' % (2 * n - 1, hi), construct=r.name + ': usable')
    # constructor maps order -> key: N = (N_poly + 1) // 2
    for cname, rname, orders in (
            ('gauss_sqrtinv_quadrature_scheme',
             'gauss_sqrtinv_quadrature_rule', range(1, 24, 2)),
            ('gauss_x_quadrature_scheme', 'gauss_x_quadrature_rule',
             range(1, 22, 2))):
        fi = prog.func(Q, cname)
        keyexpr = None
        for st in fi.node.body:
            if isinstance(st, ast.Assign) and text(st.targets[0]) == 'N':
                keyexpr = st.value
        if keyexpr is None:
            raise AnalysisError('%s: key expression not found' % fi.where())
        from .props.c05 import _int_eval
        for order in orders:
            key = _int_eval(keyexpr, {fi.params[0]: order})
            ent = ok_rules.get((rname, key))
            ok = ent is not None and ent[0] and 2 * ent[1] - 1 >= order
            report.check(
                ok, 'E1-available', '%s(%d)' % (cname, order), fi.where(),
                'order %d is served by key %s: a returned rule exact to '
                'degree >= %d' % (order, key, order),
                construct='%s: order %d' % (cname, order))
    report.floor('E1-available', 23)
    return ok_rules


def check_single_binding(prog, report):
    """In the three seminorm routines the interval end points and the length
    h = b - a are bound once: a conditional rebinding (an exchange of the end
    points, a sign flip of h) changes what the prefactor h**p and the affine
    map mean on part of the inputs."""
    for q in ('Slobodeckij.seminorm_h_1_4', 'Slobodeckij.seminorm_h_1_2',
              'Slobodeckij.seminorm_h_1_2_pw'):
        fi = prog.func(N, q)
        fixed = set(fi.params) - {'self'}
        fixed |= {'h', 'h_1', 'h_2'}
        seen = set()
        bad = []
        for st in ast.walk(fi.node):
            if isinstance(st, (ast.FunctionDef, ast.Lambda)) and \
                    st is not fi.node:
                continue
            tg = []
            if isinstance(st, ast.Assign):
                tg = st.targets
            elif isinstance(st, (ast.AugAssign, ast.AnnAssign)):
                tg = [st.target]
            for t in tg:
                for m in ast.walk(t):
                    if isinstance(m, ast.Name) and m.id in fixed:
                        if m.id in fi.params or m.id in seen:
                            bad.append((st, m.id))
                        seen.add(m.id)
        report.check(
            not bad, 'R-singular-measure', q.split('.')[-1] +
            ' binds its interval once',
            fi.where(bad[0][0]) if bad else fi.where(),
            'end points and length are never rebound%s' % (
                (': `%s` rebinds %s' % (text(bad[0][0])[:40], bad[0][1]))
                if bad else ''),
            construct=q.split('.')[-1] + ': interval rebound')


def check_singular_measure(prog, report):
    check_single_binding(prog, report)
    fi, attrs, bases, calls = init_env(prog)
    u, v = U[0], U[1]
    h = sp.Symbol('h', positive=True)
    # ---- H^{1/4} ----------------------------------------------------------
    if 'semi_1_4_xy' not in attrs or 'semi_1_4_weights' not in attrs:
        raise AnalysisError('%s: H^1/4 attributes not found' % fi.where())
    xy, st1 = attrs['semi_1_4_xy']
    w, st2 = attrs['semi_1_4_weights']
    b14 = [b for b, a in bases.items() if a in (
        ['self.gauss_sqrtinv', 'self.gauss_sqrtinv'],
        ['self.gauss_sqrtinv'])]
    ok_base = len(b14) == 1 and calls.get('self.gauss_sqrtinv', ('', ))[0] \
        == 'gauss_sqrtinv_quadrature_scheme'
    report.check(ok_base, 'R-singular-measure', 'H^1/4 base rule',
                 fi.where(st1),
                 'the base rule is the tensor product of the 1/sqrt-weight '
                 'Gauss rule with itself', construct='Slobodeckij: H^1/4 '
                 'base rule')
    sq = prog.func(N, 'Slobodeckij.seminorm_h_1_4')
    a = {text(n.targets[0]): text(n.value).replace(' ', '')
         for n in ast.walk(sq.node) if isinstance(n, ast.Assign)
         and len(n.targets) == 1}
    ret = [n for n in ast.walk(sq.node) if isinstance(n, ast.Return)]
    Ls = Lifter(sq.module, {'h': h, 'DOT': sp.Symbol('DOT')},
                call_hook=lambda L, n: sp.Symbol('DOT') if text(
                    n.func) == 'np.dot' else None)
    rexp = Ls.lift(ret[0].value) if len(ret) == 1 else None
    p = None
    if rexp is not None:
        p = sp.simplify(sp.log(rexp / sp.Symbol('DOT')) / sp.log(h)) \
            if rexp.has(h) else 0
    struct = (a.get('h') == 'b-a'
              and a.get('x') == 'a+h*self.gauss_sqrtinv.points'
              and a.get('xy') == 'a+h*self.semi_1_4_xy'
              and a.get('fx') == 'np.repeat(f(x),len(x))'
              and a.get('fxy') in ('np.asarray(f(xy))', 'f(xy)')
              and len(ret) == 1 and 'np.dot((fx-fxy)**2,self.semi_1_4_'
              'weights)' in text(ret[0].value).replace(' ', ''))
    report.check(struct, 'R-singular-measure', 'H^1/4 evaluation structure',
                 sq.where(),
                 'f at s = a + h u (repeated per row, matching the tensor '
                 'layout) and at t = a + h T2(u,v); squared difference '
                 'dotted with the stored weights; a only in the affine map, '
                 'b only through h = b - a',
                 construct='seminorm_h_1_4: structure')
    if isinstance(xy, Arr) and isinstance(w, Arr) and p is not None:
        T = (u, xy.poly)
        det = sp.Abs(sp.Matrix([[sp.diff(c, q) for q in (u, v)]
                                for c in T]).det())
        dist = sp.simplify(sp.Abs(T[0] - T[1]))
        kernel = dist**sp.Rational(-3, 2)
        lhs = 2 * kernel * det  # symmetric double integral over t < s
        builtin = u**sp.Rational(-1, 2) * v**sp.Rational(-1, 2)
        rhs = builtin * w.poly
        okm = sp.simplify(lhs / rhs - 1) == 0 and w.w == 1
        okp = sp.simplify(p - sp.Rational(1, 2)) == 0
        report.check(
            okm, 'R-singular-measure', 'H^1/4 measure identity',
            fi.where(st2),
            '2 |s-t|^(-3/2) |det DT| = (built-in weight u^-1/2 v^-1/2) * '
            '(explicit factor %s) for T(u,v) = (u, %s)' % (w.poly, xy.poly),
            construct='Slobodeckij: H^1/4 measure identity')
        report.check(
            okp, 'R-singular-measure', 'H^1/4 scaling exponent', sq.where(),
            'the interval length enters as h^(2 - 3/2) = h^(1/2); found '
            'h^%s' % p, construct='seminorm_h_1_4: power of h')
    else:
        raise AnalysisError('%s: H^1/4 map/weights not recognised' %
                            fi.where())
    # ---- H^{1/2}, same piece ------------------------------------------------
    xy2, st3 = attrs['semi_1_2_xy']
    w2, st4 = attrs['semi_1_2_weights']
    b12 = [b for b, a_ in bases.items()
           if a_ == ['self.gauss_x', 'self.gauss_leg']]
    ok_base = len(b12) == 1 and calls.get('self.gauss_x', ('', ))[0] == \
        'gauss_x_quadrature_scheme' and calls.get(
            'self.gauss_leg', ('', ))[0] == 'gauss_quadrature_scheme' and \
        calls['self.gauss_x'][1] == calls['self.gauss_leg'][1]
    report.check(ok_base, 'R-singular-measure', 'H^1/2 base rule',
                 fi.where(st3),
                 'x-weight Gauss rule (x) Gauss-Legendre, both of the same '
                 'requested order (so both have (N+1)//2 nodes and the '
                 'repeat count len(x) of the evaluation equals the tensor '
                 'layout\'s len(y))', construct='Slobodeckij: H^1/2 base '
                 'rule')
    sq2 = prog.func(N, 'Slobodeckij.seminorm_h_1_2')
    rt = [n for n in ast.walk(sq2.node) if isinstance(n, ast.Return)]
    a2 = {}
    for n in ast.walk(sq2.node):
        if isinstance(n, ast.Assign) and len(n.targets) == 1:
            a2.setdefault(text(n.targets[0]), []).append(
                text(n.value).replace(' ', ''))
    okr = len(rt) == 1 and same_any(
        rt[0].value,
        '2 * h**2 * np.dot((fx - fxy)**2 / xy_sqr, self.semi_1_2_weights)')
    oks = (a2.get('h') == ['b-a']
           and a2.get('x_hat') == ['a+h*self.gauss_x.points']
           and a2.get('xy_hat') == ['a+h*self.semi_1_2_xy']
           and sorted(a2.get('xy_sqr', [])) == sorted([
               '(np.repeat(x,len(x))-xy)**2',
               'np.sum((np.repeat(x,len(x_hat),axis=1)-xy)**2,axis=0)'])
           and sorted(a2.get('fx', [])) == sorted([
               'np.repeat(f(x),len(x))',
               'np.repeat(f(x_hat,gamma),len(x_hat))'])
           and sorted(a2.get('fxy', [])) == sorted([
               'np.asarray(f(xy))', 'np.asarray(f(xy_hat,gamma))'])
           and sorted(a2.get('x', [])) == sorted(['x_hat', 'gamma(x_hat)'])
           and sorted(a2.get('xy', [])) == sorted(['xy_hat',
                                                   'gamma(xy_hat)']))
    report.check(okr and oks, 'R-singular-measure',
                 'H^1/2 evaluation structure', sq2.where(),
                 'flat and curve-aware branch are the same expression up to '
                 'the squared distance ((x-y)^2 resp. |gamma(x)-gamma(y)|^2, '
                 'equal on a line() piece by K9); result 2 h^2 sum w '
                 '(f(s)-f(t))^2 / dist^2 (return=%s structure=%s)' %
                 (okr, oks), construct='seminorm_h_1_2: structure')
    if isinstance(xy2, Arr) and isinstance(w2, Arr):
        T = (u, xy2.poly)
        det = sp.Abs(sp.Matrix([[sp.diff(c, q) for q in (u, v)]
                                for c in T]).det())
        okm = sp.simplify(det / u - 1) == 0 and sp.simplify(
            w2.poly - 1) == 0 and w2.w == 1
        report.check(
            okm, 'R-singular-measure', 'H^1/2 measure identity',
            fi.where(st3),
            '|det DT| = u is exactly the built-in weight of the x-weight '
            'Gauss rule for T(u,v) = (u, %s); no explicit factor; the '
            'distance is computed from the mapped points themselves' %
            xy2.poly, construct='Slobodeckij: H^1/2 measure identity')
    # ---- two-piece rule -----------------------------------------------------
    pw, st5 = attrs.get('semi_1_2_pw', ((None, None), None))
    pts, wts = pw
    if not (isinstance(pts, list) and len(pts) == 2 and all(
            isinstance(p_, Stack) for p_ in pts) and isinstance(wts,
                                                                Stack)):
        raise AnalysisError('%s: two-piece rule not recognised' % fi.where())
    K = len(pts[0].parts)
    maps = [(pts[0].parts[k].poly, pts[1].parts[k].poly) for k in range(K)]
    okj = K == 2 and len(wts.parts) == 2 and all(
        w_.w == 1 and sp.simplify(w_.poly - 1) == 0 for w_ in wts.parts)
    for k, T in enumerate(maps):
        det = sp.Abs(sp.Matrix([[sp.diff(c, q) for q in (u, v)]
                                for c in T]).det())
        okj = okj and sp.simplify(det / u - 1) == 0
    report.check(okj, 'R-jac', 'two-piece rule Jacobians', fi.where(st5),
                 'both maps have |det DT| = u, the built-in weight of the '
                 'x-weight Gauss rule; maps %s' % maps,
                 construct='Slobodeckij: two-piece Jacobians')
    # collapse at the corner (1, 0): x_hat = b_1 meets y_hat = a_2
    okc = all(sp.simplify(T[0].subs(u, 0) - 1) == 0 and sp.simplify(
        T[1].subs(u, 0)) == 0 for T in maps)
    report.check(okc, 'R-singular-measure', 'two-piece apex', fi.where(st5),
                 'both maps collapse (u = 0) at the corner (1, 0) of the '
                 'unit square, i.e. at x_hat = b_1, y_hat = a_2 where the '
                 'two pieces meet', construct='Slobodeckij: two-piece apex')
    nbad = 0
    nm = 0
    for exps in monomials(2, 6):
        tot = 0
        for T in maps:
            tot += integrate_cube(T[0]**exps[0] * T[1]**exps[1] * u, 2)
        nm += 1
        if sp.simplify(tot - sp.Rational(1, (exps[0] + 1) *
                                          (exps[1] + 1))) != 0:
            nbad += 1
    report.check(nbad == 0, 'R-pushforward', 'two-piece rule', fi.where(st5),
                 'the two images tile the unit square with density 1: %d '
                 'monomial moments up to degree 6 compared exactly' % nm,
                 construct='Slobodeckij: two-piece push-forward')
    # seminorm_h_1_2_pw structure
    sq3 = prog.func(N, 'Slobodeckij.seminorm_h_1_2_pw')
    src = [text(s).replace(' ', '') for s in sq3.node.body]
    okp = ('result=self.seminorm_h_1_2(f,a_1,b_1,gamma_1)' in src
           and 'result+=self.seminorm_h_1_2(f,a_2,b_2,gamma_2)' in src
           and 'result+=2*self.semi_1_2_pw.integrate(slo,a_1,b_1,a_2,b_2)'
           in src and 'returnresult' in src)
    slo = [n for n in sq3.node.body if isinstance(n, ast.FunctionDef)]
    oks = False
    if len(slo) == 1:
        b = {text(n.targets[0]): text(n.value).replace(' ', '')
             for n in slo[0].body if isinstance(n, ast.Assign)}
        r = [n for n in slo[0].body if isinstance(n, ast.Return)]
        oks = (b.get('x_hat') == 'xy[0]' and b.get('y_hat') == 'xy[1]'
               and b.get('x') == 'gamma_1(x_hat)'
               and b.get('y') == 'gamma_2(y_hat)'
               and b.get('xy_sqr') == 'np.sum((x-y)**2,axis=0)'
               and len(r) == 1 and text(r[0].value).replace(' ', '') ==
               '(f(x_hat,gamma_1)-f(y_hat,gamma_2))**2/xy_sqr')
    report.check(okp and oks, 'R-singular-measure', 'two-piece seminorm',
                 sq3.where(),
                 '|f|^2 over the union = the two one-piece terms + 2 * the '
                 'cross term with Euclidean distance between the pieces, '
                 'coordinate 0 on piece 1 and coordinate 1 on piece 2',
                 construct='seminorm_h_1_2_pw: structure')
    report.floor('R-singular-measure', 9)


def check_order_defaults(prog, report):
    """Slobodeckij.__init__: the H^1/4 rule is built from N_poly_1_4, the
    H^1/2 rules from N_poly_1_2, which defaults to N_poly_1_4 only when it
    is None."""
    from .absint import Walker, State
    ci = prog.cls(N, 'Slobodeckij')
    fi = ci.methods['__init__']
    if fi.params[1:3] != ['N_poly_1_4', 'N_poly_1_2']:
        raise AnalysisError('%s: parameters renamed' % fi.where())

    class W(Walker):
        split_paths = True

        def __init__(s_):
            super().__init__()
            s_.calls = []

        def on_stmt(s_, st, state):
            if isinstance(st, ast.Assign) and isinstance(
                    st.value, ast.Call) and text(st.value.func).endswith(
                        '_quadrature_scheme'):
                s_.calls.append((text(st.targets[0]),
                                 text(state.sub(st.value.args[0])),
                                 state.copy(), st))

    w = W()
    w.walk_function(fi.node)
    want = {'self.gauss_sqrtinv': 'N_poly_1_4', 'self.gauss_leg':
            'N_poly_1_2', 'self.gauss_x': 'N_poly_1_2'}
    seen = set()
    for tgt, arg, state, st in w.calls:
        if tgt not in want:
            continue
        seen.add(tgt)
        none_case = state.entails_bool('N_poly_1_2 is None')
        exp = want[tgt]
        if exp == 'N_poly_1_2' and none_case:
            exp = 'N_poly_1_4'
        report.check(
            arg == exp, 'R-orders', 'Slobodeckij %s order (%s)' %
            (tgt, 'default' if none_case else 'explicit'), fi.where(st),
            'the rule is built with the order requested for it: %s (an '
            'explicitly given H^1/2 order is used as given; only None '
            'falls back to the H^1/4 order); found `%s`' % (exp, arg),
            construct='Slobodeckij.__init__: order of %s' % tgt)
    if seen != set(want):
        raise AnalysisError('%s: rule constructions not found (%s)' %
                            (fi.where(), sorted(seen)))
