"""E6/E7 -- virtual children, coefficient patterns, index spaces of the
h-h/2 and hierarchical estimators (C11, C20)."""
import ast

from .absint import text
from .core import AnalysisError

HI = 'src/hierarchical_error_estimator.py'
HH = 'src/h_h2_error_estimator.py'


def virtual_children(prog):
    """-> (fi, list of 4 rectangles ((t_lo,t_hi),(x_lo,x_hi)) in ordinal
    coordinates 0/1/2, gamma args)"""
    fi = prog.func(HI, 'DummyElement.uniform_refinement')
    fn = fi.node
    # corner names from the unpacking  v0, v1, v2, v3 = elem.vertices
    corners = None
    for n in ast.walk(fn):
        if isinstance(n, ast.Assign) and isinstance(
                n.targets[0], ast.Tuple) and text(
                    n.value).endswith('.vertices') and len(
                        n.targets[0].elts) == 4:
            corners = [text(e) for e in n.targets[0].elts]
    if corners is None:
        raise AnalysisError('%s: corner unpacking not found' % fi.where())
    pos = {corners[0]: (0, 0), corners[1]: (0, 2), corners[2]: (2, 2),
           corners[3]: (2, 0)}
    # midpoints: Vertex(t=(va.t + vb.t)/2, x=(va.x + vb.x)/2, idx=-1)
    for n in ast.walk(fn):
        if isinstance(n, ast.Assign) and isinstance(
                n.value, ast.Call) and text(n.value.func) == 'Vertex':
            kw = {k.arg: text(k.value).replace(' ', '')
                  for k in n.value.keywords}
            import re
            mt = re.fullmatch(r'\((\w+)\.t\+(\w+)\.t\)/2', kw.get('t', ''))
            mx = re.fullmatch(r'\((\w+)\.x\+(\w+)\.x\)/2', kw.get('x', ''))
            if not (mt and mx) or {mt.group(1), mt.group(2)} != {
                    mx.group(1), mx.group(2)}:
                raise AnalysisError('%s: midpoint vertex not recognised' %
                                    fi.where(n))
            a, b = mt.group(1), mt.group(2)
            if a not in pos or b not in pos:
                raise AnalysisError('%s: midpoint of unknown vertices' %
                                    fi.where(n))
            pos[text(n.targets[0])] = ((pos[a][0] + pos[b][0]) // 2,
                                       (pos[a][1] + pos[b][1]) // 2)
    children = None
    for n in ast.walk(fn):
        if isinstance(n, ast.Assign) and text(
                n.targets[0]) == 'children' and isinstance(
                    n.value, ast.List):
            children = n
    if children is None or len(children.value.elts) != 4:
        raise AnalysisError('%s: list of four children not found' %
                            fi.where())
    out = []
    gam = []
    for c in children.value.elts:
        if not (isinstance(c, ast.Call)
                and text(c.func) == 'DummyElement'):
            raise AnalysisError('%s: child constructor' % fi.where(c))
        kw = {k.arg: k.value for k in c.keywords}
        vs = kw.get('vertices', c.args[0] if c.args else None)
        g = kw.get('gamma_space', c.args[1] if len(c.args) > 1 else None)
        vv = [text(e) for e in vs.elts]
        if any(v not in pos for v in vv):
            raise AnalysisError('%s: unknown vertex in child' % fi.where(c))
        out.append([pos[v] for v in vv])
        gam.append(text(g) if g is not None else None)
    return fi, children, out, gam


def check_virtual_children(prog, report):
    fi, node, kids, gam = virtual_children(prog)
    rects = []
    for i, v in enumerate(kids):
        # DummyElement geometry: time_interval = (v[0].t, v[2].t),
        # space_interval = (v[0].x, v[2].x); orientation as Element
        ok = (v[0][0] == v[1][0] and v[1][1] == v[2][1] and v[2][0] == v[3][0]
              and v[3][1] == v[0][1] and v[0][0] < v[2][0]
              and v[0][1] < v[1][1])
        report.check(
            ok, 'R-children', 'virtual child %d orientation' % i,
            fi.where(node),
            'vertices in the order (t0,x0),(t0,x1),(t1,x1),(t1,x0); got %s'
            % v, construct='DummyElement.uniform_refinement: child '
            'orientation')
        rects.append(((v[0][0], v[2][0]), (v[0][1], v[2][1])))
    want = [((0, 1), (0, 1)), ((0, 1), (1, 2)), ((1, 2), (0, 1)),
            ((1, 2), (1, 2))]
    report.check(
        sorted(rects) == sorted(want), 'R-children',
        'virtual children tile the parent', fi.where(node),
        'the four quarters are the four dyadic quarters of the parent; got '
        '%s' % rects, construct='DummyElement.uniform_refinement: tiling')
    report.check(
        rects == want, 'R-children', 'virtual children order',
        fi.where(node),
        'fixed order: (early,left), (early,right), (late,left), '
        '(late,right) -- the sign patterns and np.repeat rely on it; got %s'
        % rects, construct='DummyElement.uniform_refinement: child order')
    # gamma inherited
    src = {text(n.targets[0]): text(n.value) for n in ast.walk(fi.node)
           if isinstance(n, ast.Assign) and isinstance(n.targets[0],
                                                       ast.Name)}
    okg = all(g is not None and src.get(g, g).endswith('.gamma_space')
              for g in gam)
    report.check(okg, 'R-children', 'virtual children piece', fi.where(node),
                 'every quarter sits on the parent\'s piece',
                 construct='DummyElement.uniform_refinement: piece')
    # DummyElement intervals from vertices 0 and 2
    ci = prog.cls(HI, 'DummyElement')
    init = ci.methods['__init__']
    a = {text(n.targets[0]): text(n.value).replace(' ', '')
         for n in init.node.body if isinstance(n, ast.Assign)}
    oki = a.get('self.time_interval') == \
        '(self.vertices[0].t,self.vertices[2].t)' and a.get(
            'self.space_interval') == \
        '(self.vertices[0].x,self.vertices[2].x)'
    report.check(oki, 'R-children', 'DummyElement intervals', init.where(),
                 'time/space interval from the corners 0 and 2',
                 construct='DummyElement.__init__: intervals')
    report.floor('R-children', 8)
    return rects
