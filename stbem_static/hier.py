"""E6/E7 -- virtual children, coefficient patterns, index spaces of the
h-h/2 and hierarchical estimators (C11, C20)."""
import ast

from .absint import text
from .core import AnalysisError
from .lift import same_any

HI = 'src/hierarchical_error_estimator.py'
HH = 'src/h_h2_error_estimator.py'


def virtual_children(prog):
    """-> (fi, list of 4 rectangles ((t_lo,t_hi),(x_lo,x_hi)) in ordinal
    coordinates 0/1/2, gamma args)"""
    fi = prog.func(HI, 'DummyElement.uniform_refinement')
    fn = fi.node
    # corner names from the unpacking  v0, v1, v2, v3 = elem.vertices
    corners = None
    for n in ast.walk(fn):
        if isinstance(n, ast.Assign) and isinstance(
                n.targets[0], ast.Tuple) and text(
                    n.value).endswith('.vertices') and len(
                        n.targets[0].elts) == 4:
            corners = [text(e) for e in n.targets[0].elts]
    if corners is None:
        raise AnalysisError('%s: corner unpacking not found' % fi.where())
    pos = {corners[0]: (0, 0), corners[1]: (0, 2), corners[2]: (2, 2),
           corners[3]: (2, 0)}
    # midpoints: Vertex(t=(va.t + vb.t)/2, x=(va.x + vb.x)/2, idx=-1)
    for n in ast.walk(fn):
        if isinstance(n, ast.Assign) and isinstance(
                n.value, ast.Call) and text(n.value.func) == 'Vertex':
            kw = {k.arg: text(k.value).replace(' ', '')
                  for k in n.value.keywords}
            import re
            mt = re.fullmatch(r'\((\w+)\.t\+(\w+)\.t\)/2', kw.get('t', ''))
            mx = re.fullmatch(r'\((\w+)\.x\+(\w+)\.x\)/2', kw.get('x', ''))
            if not (mt and mx) or {mt.group(1), mt.group(2)} != {
                    mx.group(1), mx.group(2)}:
                raise AnalysisError('%s: midpoint vertex not recognised' %
                                    fi.where(n))
            a, b = mt.group(1), mt.group(2)
            if a not in pos or b not in pos:
                raise AnalysisError('%s: midpoint of unknown vertices' %
                                    fi.where(n))
            pos[text(n.targets[0])] = ((pos[a][0] + pos[b][0]) // 2,
                                       (pos[a][1] + pos[b][1]) // 2)
    children = None
    for n in ast.walk(fn):
        if isinstance(n, ast.Assign) and text(
                n.targets[0]) == 'children' and isinstance(
                    n.value, ast.List):
            children = n
    if children is None or len(children.value.elts) != 4:
        raise AnalysisError('%s: list of four children not found' %
                            fi.where())
    out = []
    gam = []
    for c in children.value.elts:
        if not (isinstance(c, ast.Call)
                and text(c.func) == 'DummyElement'):
            raise AnalysisError('%s: child constructor' % fi.where(c))
        kw = {k.arg: k.value for k in c.keywords}
        vs = kw.get('vertices', c.args[0] if c.args else None)
        g = kw.get('gamma_space', c.args[1] if len(c.args) > 1 else None)
        vv = [text(e) for e in vs.elts]
        if any(v not in pos for v in vv):
            raise AnalysisError('%s: unknown vertex in child' % fi.where(c))
        out.append([pos[v] for v in vv])
        gam.append(text(g) if g is not None else None)
    return fi, children, out, gam


def check_virtual_children(prog, report):
    fi, node, kids, gam = virtual_children(prog)
    rects = []
    for i, v in enumerate(kids):
        # DummyElement geometry: time_interval = (v[0].t, v[2].t),
        # space_interval = (v[0].x, v[2].x); orientation as Element
        ok = (v[0][0] == v[1][0] and v[1][1] == v[2][1] and v[2][0] == v[3][0]
              and v[3][1] == v[0][1] and v[0][0] < v[2][0]
              and v[0][1] < v[1][1])
        report.check(
            ok, 'R-children', 'virtual child %d orientation' % i,
            fi.where(node),
            'vertices in the order (t0,x0),(t0,x1),(t1,x1),(t1,x0); got %s'
            % v, construct='DummyElement.uniform_refinement: child '
            'orientation')
        rects.append(((v[0][0], v[2][0]), (v[0][1], v[2][1])))
    want = [((0, 1), (0, 1)), ((0, 1), (1, 2)), ((1, 2), (0, 1)),
            ((1, 2), (1, 2))]
    report.check(
        sorted(rects) == sorted(want), 'R-children',
        'virtual children tile the parent', fi.where(node),
        'the four quarters are the four dyadic quarters of the parent; got '
        '%s' % rects, construct='DummyElement.uniform_refinement: tiling')
    report.check(
        rects == want, 'R-children', 'virtual children order',
        fi.where(node),
        'fixed order: (early,left), (early,right), (late,left), '
        '(late,right) -- the sign patterns and np.repeat rely on it; got %s'
        % rects, construct='DummyElement.uniform_refinement: child order')
    # gamma inherited
    src = {text(n.targets[0]): text(n.value) for n in ast.walk(fi.node)
           if isinstance(n, ast.Assign) and isinstance(n.targets[0],
                                                       ast.Name)}
    okg = all(g is not None and src.get(g, g).endswith('.gamma_space')
              for g in gam)
    report.check(okg, 'R-children', 'virtual children piece', fi.where(node),
                 'every quarter sits on the parent\'s piece',
                 construct='DummyElement.uniform_refinement: piece')
    # DummyElement intervals from vertices 0 and 2
    ci = prog.cls(HI, 'DummyElement')
    init = ci.methods['__init__']
    a = {text(n.targets[0]): text(n.value).replace(' ', '')
         for n in init.node.body if isinstance(n, ast.Assign)}
    oki = a.get('self.time_interval') == \
        '(self.vertices[0].t,self.vertices[2].t)' and a.get(
            'self.space_interval') == \
        '(self.vertices[0].x,self.vertices[2].x)'
    report.check(oki, 'R-children', 'DummyElement intervals', init.where(),
                 'time/space interval from the corners 0 and 2',
                 construct='DummyElement.__init__: intervals')
    okh = a.get('self.h_t') in (
        'float(abs(self.vertices[2].t-self.vertices[0].t))',
        'abs(self.vertices[2].t-self.vertices[0].t)',
        'float(self.vertices[2].t-self.vertices[0].t)') and a.get(
            'self.h_x') in (
                'float(abs(self.vertices[2].x-self.vertices[0].x))',
                'abs(self.vertices[2].x-self.vertices[0].x)',
                'float(self.vertices[2].x-self.vertices[0].x)')
    report.check(okh, 'R-children', 'DummyElement sizes', init.where(),
                 'h_t and h_x are the lengths of the time and of the '
                 '(arc-length) parameter interval, as for real elements; '
                 'found h_t=%s h_x=%s' % (a.get('self.h_t'),
                                          a.get('self.h_x')),
                 construct='DummyElement.__init__: h_t / h_x')
    report.floor('R-children', 9)
    return rects


# --------------------------------------------------------------------------
# R-hier / R-index for the two estimators and Prolongate (C20)
# --------------------------------------------------------------------------
def _flatten_ok(fn):
    """elems_fine = [child for children in elem_2_children for child in
    children]  (element-major flattening)."""
    for n in ast.walk(fn):
        if isinstance(n, ast.Assign) and text(
                n.targets[0]) == 'elems_fine' and isinstance(
                    n.value, ast.ListComp) and len(
                        n.value.generators) == 2:
            g0, g1 = n.value.generators
            return (text(g0.iter) == 'elem_2_children' and text(
                g1.iter) == text(g0.target) and text(
                    n.value.elt) == text(g1.target))
    return False


def _children_src(fn):
    for n in ast.walk(fn):
        if isinstance(n, ast.Assign) and text(
                n.targets[0]) == 'elem_2_children':
            return text(n.value).replace(' ', '') == \
                'DummyElement.uniform_refinement(elems_coarse)'
    return False


def check_hh2(prog, report):
    fi = prog.func(HH, 'HH2ErrorEstimator.estimate')
    fn = fi.node
    a = {text(n.targets[0]): n.value for n in ast.walk(fn)
         if isinstance(n, ast.Assign) and len(n.targets) == 1}
    ok_l = _flatten_ok(fn) and _children_src(fn) and text(
        a.get('elems_coarse', ast.Constant(0))) == fi.params[1]
    report.check(ok_l, 'R-index', 'h-h/2 fine list', fi.where(),
                 'elems_fine is the element-major flattening of the four '
                 'virtual children of each given element',
                 construct='HH2ErrorEstimator: fine list')
    mf = a.get('mat_fine')
    ok_m = isinstance(mf, ast.Call) and text(mf.func).endswith(
        '.bilform_matrix') and {k.arg: text(k.value) for k in mf.keywords
                                if k.arg in ('elems_test', 'elems_trial')
                                } == {'elems_test': 'elems_fine',
                                      'elems_trial': 'elems_fine'}
    report.check(ok_m, 'R-index', 'h-h/2 fine matrix', fi.where(),
                 'mat_fine = <V 1_fine, 1_fine>',
                 construct='HH2ErrorEstimator: fine matrix')
    pr = a.get('Phi_prolong')
    ok_p = pr is not None and text(pr).replace(' ', '') == \
        'np.repeat(%s,4)' % fi.params[2]
    report.check(ok_p, 'R-hier', 'h-h/2 prolongation', fi.where(),
                 'the piecewise-constant extension repeats each coefficient '
                 'for the 4 children of its element, matching the '
                 'element-major flattening (np.repeat(Phi, 4))',
                 construct='HH2ErrorEstimator: prolongation')
    pf = a.get('Phi_fine')
    ok_s = pf is not None and text(pf).replace(' ', '') == \
        'np.linalg.solve(mat_fine,rhs)'
    d = a.get('diff')
    ok_d = same_any(d, 'Phi_fine - Phi_prolong', 'Phi_prolong - Phi_fine')
    ret = [n for n in ast.walk(fn) if isinstance(n, ast.Return)]
    ok_e = len(ret) == 1 and same_any(
        ret[0].value, 'np.sqrt(diff.T @ mat_fine @ diff)',
        'np.sqrt(diff.T @ (mat_fine @ diff))')
    report.check(ok_s and ok_d and ok_e, 'R-hier', 'h-h/2 energy norm',
                 fi.where(),
                 'estimate = sqrt(d^T A_fine d) with d = Phi_fine - '
                 'prolongation and Phi_fine the fine Galerkin solution '
                 '(solve=%s diff=%s norm=%s)' % (ok_s, ok_d, ok_e),
                 construct='HH2ErrorEstimator: energy norm of the '
                 'difference')
    # rhs ranges over the fine list
    okr = True
    for n in ast.walk(fn):
        if isinstance(n, ast.Call):
            f = text(n.func)
            if f == 'self.g':
                okr = okr and [text(x) for x in n.args] == ['elems_fine']
            if f.endswith('.linform_vector'):
                okr = okr and any(k.arg == 'elems' and text(
                    k.value) == 'elems_fine' for k in n.keywords)
    z = a.get('rhs')
    okr = okr and z is not None and text(z).replace(
        ' ', '') == 'np.zeros(len(elems_fine))'
    report.check(okr, 'R-index', 'h-h/2 load over the fine list',
                 fi.where(), 'rhs, g and M0 loads range over elems_fine',
                 construct='HH2ErrorEstimator: load index space')


def check_hier(prog, report):
    fi = prog.func(HI, 'HierarchicalErrorEstimator.estimate')
    fn = fi.node
    a = {text(n.targets[0]): n.value for n in ast.walk(fn)
         if isinstance(n, ast.Assign) and len(n.targets) == 1}
    ok_l = _flatten_ok(fn) and _children_src(fn)
    report.check(ok_l, 'R-index', 'hierarchical fine list', fi.where(),
                 'elems_fine is the element-major flattening of the virtual '
                 'children', construct='HierarchicalErrorEstimator: fine '
                 'list')
    m = a.get('mat')
    kw = {k.arg: text(k.value) for k in m.keywords} if isinstance(
        m, ast.Call) else {}
    ok_m = kw.get('elems_test') == 'elems_fine' and kw.get(
        'elems_trial') == 'elems_coarse'
    vp = a.get('VPhi')
    ok_v = vp is not None and text(vp).replace(' ', '') == 'mat@%s' % \
        fi.params[2]
    report.check(ok_m and ok_v, 'R-index', 'hierarchical V Phi', fi.where(),
                 'mat = <V 1_coarse, 1_fine> (rows = fine test functions) '
                 'and VPhi = mat @ Phi with Phi on the coarse list',
                 construct='HierarchicalErrorEstimator: V Phi index spaces')
    # per element: children indices and S
    okc = False
    oks = False
    for n in ast.walk(fn):
        if isinstance(n, ast.For) and isinstance(
                n.iter, ast.Call) and text(n.iter.func) == 'enumerate' and \
                text(n.iter.args[0]) == 'elems_coarse':
            i = text(n.target.elts[0])
            for s in n.body:
                if isinstance(s, ast.Assign):
                    tv = text(s.value).replace(' ', '')
                    if text(s.targets[0]) == 'children':
                        okc = tv == ('[elem_2_idx_fine[elem]foreleminelem_2_'
                                     'children[%s]]' % i)
                    if text(s.targets[0]) == 'S':
                        oks = tv == ('self.SL.bilform_matrix(elem_2_children'
                                     '[%s],elem_2_children[%s])' % (i, i))
    e2i = a.get('elem_2_idx_fine')
    oke = e2i is not None and text(e2i).replace(' ', '') == \
        '{k:vforv,kinenumerate(elems_fine)}'
    report.check(okc and oks and oke, 'R-index', 'hierarchical local block',
                 fi.where(),
                 'per coarse element i: the fine indices of its four '
                 'children in child order, and S = <V 1_child, 1_child> in '
                 'the same order',
                 construct='HierarchicalErrorEstimator: local block')
    # coefficient patterns against the child order
    _, _, kids, _ = virtual_children(prog)
    rects = [((v[0][0], v[2][0]), (v[0][1], v[2][1])) for v in kids]
    st = [1 if r[0] == (0, 1) else -1 for r in rects]
    sx = [1 if r[1] == (0, 1) else -1 for r in rects]
    want = [st, sx, [p * q for p, q in zip(st, sx)]]
    pats = None
    for n in ast.walk(fn):
        if isinstance(n, ast.For) and isinstance(
                n.iter, ast.Call) and text(
                    n.iter.func) == 'enumerate' and isinstance(
                        n.iter.args[0], ast.List):
            try:
                pats = ast.literal_eval(n.iter.args[0])
                ploop = n
            except Exception:
                pats = None
    okp = pats is not None and [list(p) for p in pats] == want
    report.check(okp, 'R-hier', 'hierarchical sign patterns', fi.where(),
                 'estimator k uses psi_k = sigma_t^e_t sigma_x^e_x on the '
                 'four children in their order: time %s, space %s, '
                 'checkerboard %s; found %s' % (want[0], want[1], want[2],
                                                pats),
                 construct='HierarchicalErrorEstimator: sign patterns')
    if pats is None:
        return
    body = {text(s.targets[0]) if isinstance(s, ast.Assign) else None: s
            for s in ploop.body}
    sc = body.get('scaling_estim')
    oksc = sc is not None and text(sc.value).replace(' ', '') in (
        'coefs@(S@coefs.T)', 'coefs@S@coefs.T', 'coefs.T@S@coefs',
        'coefs@(S@coefs)', 'coefs@S@coefs')
    k = text(ploop.target.elts[0])
    est = None
    for s in ploop.body:
        if isinstance(s, ast.Assign) and text(
                s.targets[0]).replace(' ', '') == 'estim_loc[%s]' % k:
            est = text(s.value).replace(' ', '')
    estn = None
    for s_ in ploop.body:
        if isinstance(s_, ast.Assign) and text(
                s_.targets[0]).replace(' ', '') == 'estim_loc[%s]' % k:
            estn = s_.value
    okest = same_any(estn, 'abs(rhs_estim - V_estim)**2 / scaling_estim',
                     '(rhs_estim - V_estim)**2 / scaling_estim')
    acc = {}
    for s in ast.walk(ploop):
        if isinstance(s, ast.AugAssign) and isinstance(s.op, ast.Add):
            acc[text(s.target)] = text(s.value).replace(' ', '')
    inner = None
    for s in ploop.body:
        if isinstance(s, ast.For) and isinstance(
                s.iter, ast.Call) and text(s.iter.func) == 'zip':
            inner = s
    okacc = False
    if inner is not None:
        za = [text(x) for x in inner.iter.args]
        jv, cv = (text(x) for x in inner.target.elts)
        okacc = za == ['children', text(ploop.target.elts[1])] and acc.get(
            'rhs_estim') in ('rhs[%s]*%s' % (jv, cv),
                             '%s*rhs[%s]' % (cv, jv)) and acc.get(
                                 'V_estim') in ('VPhi[%s]*%s' % (jv, cv),
                                                '%s*VPhi[%s]' % (cv, jv))
    report.check(oksc and okest and okacc, 'R-hier',
                 'hierarchical indicator formula', fi.where(ploop),
                 'eta_k = |<data - V Phi, psi_k>|^2 / <V psi_k, psi_k> with '
                 'the pairing accumulated over the children in order and '
                 'the scaling c^T S c (scaling=%s formula=%s pairing=%s)' %
                 (oksc, okest, okacc),
                 construct='HierarchicalErrorEstimator: indicator formula')
    # outputs: (e0 + e2/2, e1 + e2/2)
    out = None
    oko = False
    for n in ast.walk(fn):
        if isinstance(n, ast.Call) and text(
                n.func) == 'estims.append' and isinstance(n.args[0],
                                                          ast.Tuple):
            out = [text(x).replace(' ', '') for x in n.args[0].elts]
            e_ = n.args[0].elts
            oko = len(e_) == 2 and same_any(
                e_[0], 'estim_loc[0] + estim_loc[2] / 2') and same_any(
                    e_[1], 'estim_loc[1] + estim_loc[2] / 2')
    report.check(oko, 'R-hier', 'hierarchical outputs', fi.where(),
                 'the (time, space) indicators are e_time + e_check/2 and '
                 'e_space + e_check/2; found %s' % out,
                 construct='HierarchicalErrorEstimator: output split')


def check_prolongate(prog, report):
    fi = prog.func('src/mesh.py', 'Prolongate')
    fn = fi.node
    if fi.params != ['vec_coarse', 'elems_coarse', 'elems_fine']:
        raise AnalysisError('%s: signature changed' % fi.where())
    a = {text(n.targets[0]): text(n.value).replace(' ', '')
         for n in ast.walk(fn) if isinstance(n, ast.Assign)}
    okd = a.get('elem_coarse_2_idx') == \
        '{k:vforv,kinenumerate(elems_coarse)}'
    okz = a.get('vec_fine') == 'np.zeros(len(elems_fine))'
    loop = [n for n in fn.body if isinstance(n, ast.For)]
    okw = False
    if len(loop) == 1 and isinstance(loop[0].iter, ast.Call) and text(
            loop[0].iter.func) == 'enumerate' and text(
                loop[0].iter.args[0]) == 'elems_fine':
        j, e = (text(x) for x in loop[0].target.elts)
        body = loop[0].body
        wl = [s for s in body if isinstance(s, ast.While)]
        okw = (len(wl) == 1 and text(wl[0].test).replace(' ', '') ==
               'elem_coarsenotinelem_coarse_2_idx' and any(
                   text(s).replace(' ', '') ==
                   'elem_coarse=elem_coarse.parent' for s in wl[0].body)
               and a.get('elem_coarse') in (e, 'elem_coarse.parent')
               and a.get('i') == 'elem_coarse_2_idx[elem_coarse]'
               and a.get('vec_fine[%s]' % j) == 'vec_coarse[i]')
        first = [s for s in body if isinstance(s, ast.Assign)]
        okw = okw and text(first[0].value) == e
    report.check(okd and okz and okw, 'R-hier', 'Prolongate', fi.where(),
                 'each fine element takes the value of its nearest ancestor '
                 '(walking .parent) that belongs to the coarse list, at its '
                 'own position j',
                 construct='Prolongate: nearest ancestor value')
