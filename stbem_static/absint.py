"""Path-sensitive structured walk with copy propagation and a small
linear-inequality fact domain (entailment by Fourier-Motzkin elimination over
exact rationals).  Nothing is executed: statements are traversed once per
syntactic path, assignments are recorded as substitutions, conditions as
facts about symbolic atoms.
"""
import ast
import copy
import itertools
from fractions import Fraction

from .core import AnalysisError
from .flow import is_abort

PAIR_ATTRS = ('time_interval', 'space_interval')
_fresh = itertools.count(1)


# --------------------------------------------------------------------------
# substitution / canonical text
# --------------------------------------------------------------------------
class _Subst(ast.NodeTransformer):
    def __init__(self, env):
        self.env = env

    def visit_Name(self, node):
        if isinstance(node.ctx, ast.Load) and node.id in self.env:
            return copy.deepcopy(self.env[node.id])
        return node

    def visit_Lambda(self, node):
        # parameters shadow
        shadow = {a.arg for a in node.args.args}
        if shadow & set(self.env):
            env = {k: v for k, v in self.env.items() if k not in shadow}
            return ast.Lambda(args=node.args,
                              body=_Subst(env).visit(copy.deepcopy(node.body)))
        return self.generic_visit(node)


def subst(expr, env):
    if not env:
        return expr
    return _Subst(env).visit(copy.deepcopy(expr))


def text(expr):
    return ast.unparse(expr)


def is_pair(expr):
    if isinstance(expr, ast.Tuple) and len(expr.elts) == 2:
        return True
    if isinstance(expr, ast.Attribute) and expr.attr in PAIR_ATTRS:
        return True
    return False


def pair_elem(expr, i):
    if isinstance(expr, ast.Tuple):
        return expr.elts[i]
    return ast.Subscript(value=expr, slice=ast.Constant(value=i),
                         ctx=ast.Load())


def simplify_subscript(expr):
    """(a, b)[0] -> a."""
    class T(ast.NodeTransformer):
        def visit_Subscript(self, node):
            self.generic_visit(node)
            if isinstance(node.value, ast.Tuple) and isinstance(
                    node.slice, ast.Constant) and isinstance(
                        node.slice.value, int):
                i = node.slice.value
                if -len(node.value.elts) <= i < len(node.value.elts):
                    return node.value.elts[i]
            return node
    return T().visit(expr)


# --------------------------------------------------------------------------
# linear forms
# --------------------------------------------------------------------------
class Lin:
    __slots__ = ('c', 'k')

    def __init__(self, c=None, k=0):
        self.c = dict(c or {})
        self.k = Fraction(k)

    def __add__(self, o):
        r = Lin(self.c, self.k + o.k)
        for a, v in o.c.items():
            r.c[a] = r.c.get(a, 0) + v
            if r.c[a] == 0:
                del r.c[a]
        return r

    def scale(self, f):
        f = Fraction(f)
        if f == 0:
            return Lin()
        return Lin({a: v * f for a, v in self.c.items()}, self.k * f)

    def __neg__(self):
        return self.scale(-1)

    def __sub__(self, o):
        return self + (-o)

    def is_const(self):
        return not self.c

    def atoms(self):
        return set(self.c)

    def key(self):
        return (tuple(sorted(self.c.items())), self.k)

    def __repr__(self):
        parts = ['%s*%s' % (v, a) for a, v in sorted(self.c.items())]
        if self.k or not parts:
            parts.append(str(self.k))
        return ' + '.join(parts)


def _num(node):
    if isinstance(node, ast.Constant) and isinstance(
            node.value, (int, float)) and not isinstance(node.value, bool):
        return Fraction(node.value)
    if isinstance(node, ast.UnaryOp) and isinstance(node.op, ast.USub):
        v = _num(node.operand)
        return None if v is None else -v
    return None


def to_lin(expr):
    """Linear form of an (already substituted) expression; non-linear
    sub-terms become opaque atoms keyed by their canonical text."""
    v = _num(expr)
    if v is not None:
        return Lin(k=v)
    if isinstance(expr, ast.BinOp):
        if isinstance(expr.op, ast.Add):
            return to_lin(expr.left) + to_lin(expr.right)
        if isinstance(expr.op, ast.Sub):
            return to_lin(expr.left) - to_lin(expr.right)
        if isinstance(expr.op, ast.Mult):
            l, r = to_lin(expr.left), to_lin(expr.right)
            if l.is_const():
                return r.scale(l.k)
            if r.is_const():
                return l.scale(r.k)
        if isinstance(expr.op, ast.Div):
            r = to_lin(expr.right)
            if r.is_const() and r.k != 0:
                return to_lin(expr.left).scale(1 / r.k)
    if isinstance(expr, ast.UnaryOp):
        if isinstance(expr.op, ast.USub):
            return -to_lin(expr.operand)
        if isinstance(expr.op, ast.UAdd):
            return to_lin(expr.operand)
    if isinstance(expr, ast.Call) and isinstance(
            expr.func, ast.Name) and expr.func.id == 'float' and len(
                expr.args) == 1:
        return to_lin(expr.args[0])
    return Lin({text(simplify_subscript(expr)): Fraction(1)})


# --------------------------------------------------------------------------
# facts
# --------------------------------------------------------------------------
# fact = ('lin', Lin, op)   meaning Lin op 0, op in '<', '<=', '==', '!='
#      | ('bool', key, bool)
def lin_fact(lhs, op, rhs):
    """lhs op rhs for python comparison operator class op."""
    d = lhs - rhs
    if isinstance(op, ast.Lt):
        return ('lin', d, '<')
    if isinstance(op, ast.LtE):
        return ('lin', d, '<=')
    if isinstance(op, ast.Gt):
        return ('lin', -d, '<')
    if isinstance(op, ast.GtE):
        return ('lin', -d, '<=')
    if isinstance(op, ast.Eq):
        return ('lin', d, '==')
    if isinstance(op, ast.NotEq):
        return ('lin', d, '!=')
    return None


def negate_fact(f):
    """-> list of alternative facts (disjunction)."""
    if f[0] == 'bool':
        return [('bool', f[1], not f[2])]
    _, l, op = f
    if op == '<':
        return [('lin', -l, '<=')]
    if op == '<=':
        return [('lin', -l, '<')]
    if op == '==':
        return [('lin', l, '!=')]
    if op == '!=':
        return [('lin', l, '==')]
    raise ValueError(op)


def fact_key(f):
    if f[0] == 'bool':
        return f
    return ('lin', f[1].key(), f[2])


def fact_str(f):
    if f[0] == 'bool':
        return ('' if f[2] else 'not ') + f[1]
    return '%r %s 0' % (f[1], f[2])


_NEG_OP = {
    ast.Lt: ast.GtE, ast.LtE: ast.Gt, ast.Gt: ast.LtE, ast.GtE: ast.Lt,
    ast.Eq: ast.NotEq, ast.NotEq: ast.Eq, ast.Is: ast.IsNot,
    ast.IsNot: ast.Is, ast.In: ast.NotIn, ast.NotIn: ast.In
}

SMALL = Fraction(1, 10**5)


def cond_dnf(test, env, neg=False):
    """DNF (list of conjunctions = lists of facts) of a condition."""
    if isinstance(test, ast.BoolOp):
        parts = [cond_dnf(v, env, neg) for v in test.values]
        is_and = isinstance(test.op, ast.And) != neg
        if is_and:
            out = [[]]
            for p in parts:
                out = [a + b for a in out for b in p]
            return out
        out = []
        for p in parts:
            out.extend(p)
        return out
    if isinstance(test, ast.UnaryOp) and isinstance(test.op, ast.Not):
        return cond_dnf(test.operand, env, not neg)
    if isinstance(test, ast.Compare):
        if len(test.ops) > 1:
            vals = []
            left = test.left
            for op, right in zip(test.ops, test.comparators):
                vals.append(ast.Compare(left=left, ops=[op],
                                        comparators=[right]))
                left = right
            return cond_dnf(ast.BoolOp(op=ast.And(), values=vals), env, neg)
        op = test.ops[0]
        if neg:
            op = _NEG_OP[type(op)]()
        l = simplify_subscript(subst(test.left, env))
        r = simplify_subscript(subst(test.comparators[0], env))
        return _compare_dnf(l, op, r)
    if isinstance(test, ast.Call):
        fn = text(test.func)
        if fn in ('math.isclose', 'isclose', 'np.isclose') and len(
                test.args) >= 2:
            l = simplify_subscript(subst(test.args[0], env))
            r = simplify_subscript(subst(test.args[1], env))
            return _compare_dnf(l, (ast.NotEq if neg else ast.Eq)(), r)
    if isinstance(test, ast.Constant):
        val = bool(test.value) != neg
        return [[]] if val else []
    sub = simplify_subscript(subst(test, env))
    if env and isinstance(sub, (ast.BoolOp, ast.Compare)) or (
            env and isinstance(sub, ast.UnaryOp)
            and isinstance(sub.op, ast.Not)):
        # a name bound to a condition: expand the condition itself
        return cond_dnf(sub, {}, neg)
    key = text(sub)
    return [[('bool', key, not neg)]]


def _compare_dnf(l, op, r):
    # tolerance test abs(x) < tiny  ==>  x == 0
    if isinstance(l, ast.Call) and text(l.func) in ('abs', 'np.abs') and len(
            l.args) == 1:
        bound = _num(r)
        if bound is not None and 0 < bound <= SMALL:
            inner = to_lin(l.args[0])
            if isinstance(op, (ast.Lt, ast.LtE)):
                return [[('lin', inner, '==')]]
            if isinstance(op, (ast.Gt, ast.GtE)):
                return [[('lin', inner, '!=')]]
    if is_pair(l) and is_pair(r):
        a, b = pair_elem(l, 0), pair_elem(l, 1)
        c, d = pair_elem(r, 0), pair_elem(r, 1)
        la, lb, lc, ld = (to_lin(simplify_subscript(x)) for x in (a, b, c, d))
        if isinstance(op, ast.LtE):
            return [[('lin', la - lc, '<')],
                    [('lin', la - lc, '=='), ('lin', lb - ld, '<=')]]
        if isinstance(op, ast.Lt):
            return [[('lin', la - lc, '<')],
                    [('lin', la - lc, '=='), ('lin', lb - ld, '<')]]
        if isinstance(op, ast.GtE):
            return [[('lin', lc - la, '<')],
                    [('lin', la - lc, '=='), ('lin', ld - lb, '<=')]]
        if isinstance(op, ast.Gt):
            return [[('lin', lc - la, '<')],
                    [('lin', la - lc, '=='), ('lin', ld - lb, '<')]]
        if isinstance(op, ast.Eq):
            return [[('lin', la - lc, '=='), ('lin', lb - ld, '==')]]
        if isinstance(op, ast.NotEq):
            return [[('lin', la - lc, '!=')], [('lin', lb - ld, '!=')]]
    f = lin_fact(to_lin(l), op, to_lin(r))
    if f is not None:
        return [[f]]
    # is / is not / in / not in -> boolean atom on canonical text
    pos = isinstance(op, (ast.Is, ast.In))
    base = ast.Compare(left=l,
                       ops=[ast.Is() if isinstance(op, (ast.Is, ast.IsNot))
                            else ast.In()],
                       comparators=[r])
    return [[('bool', text(base), pos)]]


# --------------------------------------------------------------------------
# feasibility / entailment (Fourier-Motzkin on exact rationals)
# --------------------------------------------------------------------------
def feasible(conj):
    """Is the conjunction of facts satisfiable over the reals (atoms are
    independent real variables, booleans independent)?"""
    bools = {}
    ineqs = []  # (Lin, strict)  meaning Lin < 0 / <= 0
    eqs = []
    neqs = []
    for f in conj:
        if f[0] == 'bool':
            if bools.setdefault(f[1], f[2]) != f[2]:
                return False
            continue
        _, l, op = f
        if op == '<':
            ineqs.append((l, True))
        elif op == '<=':
            ineqs.append((l, False))
        elif op == '==':
            eqs.append(l)
        else:
            neqs.append(l)
    # Gaussian elimination of the equalities
    eqs = list(eqs)
    while eqs:
        e = eqs.pop()
        if not e.c:
            if e.k != 0:
                return False
            continue
        v = sorted(e.c)[0]
        coef = e.c[v]
        # v = -(rest)/coef
        rest = Lin({a: c for a, c in e.c.items() if a != v}, e.k).scale(
            Fraction(-1) / coef)

        def sub(l):
            if v not in l.c:
                return l
            cv = l.c[v]
            base = Lin({a: c for a, c in l.c.items() if a != v}, l.k)
            return base + rest.scale(cv)
        eqs = [sub(x) for x in eqs]
        ineqs = [(sub(l), s_) for l, s_ in ineqs]
        neqs = [sub(l) for l in neqs]
    live = []
    for l in neqs:
        if not l.c:
            if l.k == 0:
                return False
            continue
        live.append(l)
    neqs = live
    if len(neqs) > 8:
        neqs = neqs[:8]
    if not _fm_feasible(ineqs):
        return False
    if not neqs:
        return True
    # a disequality only matters if the rest forces equality
    for signs in itertools.product((1, -1), repeat=len(neqs)):
        extra = [(l.scale(s_), True) for l, s_ in zip(neqs, signs)]
        if _fm_feasible(ineqs + extra):
            return True
    return False


def _norm_con(c, k, s_):
    items = sorted(c.items())
    if not items:
        return None
    lead = abs(items[0][1])
    return (tuple((a, v / lead) for a, v in items), s_), k / lead


def _fm_feasible(ineqs):
    cons = {}

    def add(c, k, s_):
        c = {a: v for a, v in c.items() if v != 0}
        if not c:
            if (s_ and not k < 0) or (not s_ and not k <= 0):
                return False
            return True
        (key, st), kk = _norm_con(c, k, s_)
        # keep the strongest bound for identical left-hand sides
        for strict in (True, False):
            old = cons.get((key, strict))
            if old is not None:
                # old: lhs + old (<|<=) 0 ; larger constant is stronger
                if old > kk or (old == kk and (strict or not st)):
                    return True
        cons[(key, st)] = kk
        if st:
            o = cons.get((key, False))
            if o is not None and o <= kk:
                del cons[(key, False)]
        return True

    for l, strict in ineqs:
        if not add(dict(l.c), l.k, strict):
            return False
    while True:
        vars_ = {}
        for (key, st), k in cons.items():
            for a, v in key:
                p, n = vars_.get(a, (0, 0))
                vars_[a] = (p + (v > 0), n + (v < 0))
        if not vars_:
            return True
        v = min(vars_, key=lambda a: (vars_[a][0] * vars_[a][1], a))
        pos, neg, rest = [], [], {}
        for (key, st), k in cons.items():
            d = dict(key)
            a = d.get(v, 0)
            if a > 0:
                pos.append((d, k, st, a))
            elif a < 0:
                neg.append((d, k, st, a))
            else:
                rest[(key, st)] = k
        cons = rest
        if len(pos) * len(neg) > 20000:
            raise AnalysisError('Fourier-Motzkin blow-up')
        for cp, kp, sp_, ap in pos:
            for cn, kn, sn, an in neg:
                nc = {}
                for a_, val in cp.items():
                    if a_ != v:
                        nc[a_] = nc.get(a_, 0) + val / ap
                for a_, val in cn.items():
                    if a_ != v:
                        nc[a_] = nc.get(a_, 0) + val / (-an)
                if not add(nc, kp / ap + kn / (-an), sp_ or sn):
                    return False


def entails(conj, fact):
    """conj |= fact"""
    for alt in negate_fact(fact):
        if alt[0] == 'lin' and alt[2] == '!=':
            # not(L == 0)  ==  L < 0 or L > 0
            if feasible(conj + [('lin', alt[1], '<')]) or feasible(
                    conj + [('lin', -alt[1], '<')]):
                return False
        elif feasible(conj + [alt]):
            return False
    return True


def covers(base, cases, ignore=()):
    """base |= OR(cases)  (each case a conjunction).  Facts whose key is in
    `ignore` are dropped from the cases first."""
    ign = set(ignore)
    cs = [[f for f in c if fact_key(f) not in ign] for c in cases]
    if any(not c for c in cs):
        return True
    alts = [[alt for f in c for alt in negate_fact(f)] for c in cs]
    n = 1
    for a in alts:
        n *= len(a)
    if n > 5000:
        raise AnalysisError('cover check too large')
    for pick in itertools.product(*alts):
        if feasible(list(base) + list(pick)):
            return False
    return True


# --------------------------------------------------------------------------
# state and walker
# --------------------------------------------------------------------------
class State:
    def __init__(self, env=None, cases=None):
        self.env = dict(env or {})
        self.cases = [list(c) for c in (cases if cases is not None else [[]])]

    def copy(self):
        return State(self.env, self.cases)

    def sub(self, expr):
        e = subst(expr, self.env)
        if any(isinstance(n, ast.Call) and isinstance(n.func, ast.Lambda)
               for n in ast.walk(e)):
            e = beta_reduce(e)
        return simplify_subscript(e)

    def lin(self, expr):
        return to_lin(self.sub(expr))

    def assume(self, test, neg=False):
        dnf = cond_dnf(test, self.env, neg)
        new = []
        for c in self.cases:
            for d in dnf:
                cand = c + [f for f in d
                            if fact_key(f) not in {fact_key(x) for x in c}]
                if feasible(cand):
                    new.append(cand)
        self.cases = _dedupe(new)
        return self

    def assume_facts(self, facts):
        new = []
        for c in self.cases:
            cand = c + list(facts)
            if feasible(cand):
                new.append(cand)
        self.cases = new
        return self

    def reachable(self):
        return bool(self.cases)

    def entails(self, fact):
        """In every feasible case."""
        return all(entails(c, fact) for c in self.cases)

    def entails_cmp(self, lhs, op, rhs):
        """lhs, rhs: expressions (unsubstituted); op: '<','<=','==','!='.
        Means lhs - rhs op 0."""
        return self.entails(('lin', self.lin(lhs) - self.lin(rhs), op))

    def entails_bool(self, key, val=True):
        return all(any(f == ('bool', key, val) for f in c)
                   for c in self.cases)

    def facts_text(self):
        return ' | '.join(
            '[' + ', '.join(fact_str(f) for f in c) + ']' for c in self.cases)

    def assign(self, name, value):
        self.env[name] = value

    def forget(self, name):
        self.env[name] = ast.Name(id='%s#%d' % (name, next(_fresh)),
                                  ctx=ast.Load())


def _dedupe(cases):
    seen, out = set(), []
    for c in cases:
        k = frozenset(fact_key(f) for f in c)
        if k not in seen:
            seen.add(k)
            out.append(c)
    if len(out) > 64:
        raise AnalysisError('too many path cases')
    return out


def merge(states):
    states = [s for s in states if s is not None]
    if not states:
        return None
    if len(states) == 1:
        return states[0]
    env = {}
    keys = set()
    for s in states:
        keys |= set(s.env)
    for k in keys:
        vals = [s.env.get(k) for s in states]
        if all(v is not None for v in vals) and len(
                {ast.dump(v) for v in vals}) == 1:
            env[k] = vals[0]
        else:
            env[k] = ast.Name(id='%s#%d' % (k, next(_fresh)), ctx=ast.Load())
    cases = []
    for s in states:
        cases.extend(s.cases)
    try:
        cases = _dedupe(cases)
    except AnalysisError:
        # weaken: keep only the facts common to all cases
        common = None
        for c in cases:
            ks = {fact_key(f): f for f in c}
            common = ks if common is None else {
                k: v for k, v in common.items() if k in ks}
        cases = [list((common or {}).values())]
    return State(env, cases)


def assigned_names(stmts):
    out = set()
    for st in stmts:
        for n in ast.walk(st):
            if isinstance(n, ast.Name) and isinstance(n.ctx,
                                                       (ast.Store, ast.Del)):
                out.add(n.id)
            elif isinstance(n, (ast.FunctionDef, ast.AsyncFunctionDef)):
                out.add(n.name)
    return out


class Walker:
    """Subclass and override the on_* hooks.  `walk_function` traverses a
    function body path-sensitively; nested function definitions are walked
    at their definition point with the facts known there (closures capture
    immutable values in this code base)."""

    descend_nested = True

    def __init__(self):
        self.func_stack = []
        self.loop_stack = []
        self._unroll_stack = []

    # hooks ---------------------------------------------------------------
    def on_stmt(self, st, state):
        pass

    def on_return(self, st, state):
        pass

    def on_enter_function(self, fnode, state):
        pass

    def on_exit_fallthrough(self, fnode, state):
        """Control can fall off the end of fnode with this state."""
        pass

    def on_loop_exit_stmt(self, st, state):
        """continue / break"""
        pass

    # driver --------------------------------------------------------------
    def walk_function(self, fnode, state=None):
        state = state.copy() if state is not None else State()
        a = fnode.args
        outer = set()
        for f in self.func_stack:
            fa = f.args
            outer |= {q.arg for q in fa.posonlyargs + fa.args + fa.kwonlyargs}
        for p in a.posonlyargs + a.args + a.kwonlyargs:
            # parameters shadow captured names
            if p.arg in state.env or p.arg in outer:
                state.forget(p.arg)
        self.func_stack.append(fnode)
        self.on_enter_function(fnode, state)
        out = self.walk_block(fnode.body, state)
        if out is not None and out.reachable():
            self.on_exit_fallthrough(fnode, out)
        self.func_stack.pop()
        return out

    split_paths = False
    unroll_literal_loops = False

    def _unrolled(self, st, elts, state):
        """for target in <literal tuple>: body  -- walked once per element,
        with break / continue as path-level control flow."""
        cur = state.copy()
        breaks = []
        for elt in elts:
            if cur is None or not cur.reachable():
                break
            s = cur.copy()
            self._bind(s, st.target, elt)
            self._unroll_stack.append({'break': [], 'continue': []})
            out = self.walk_block(st.body, s)
            ctl = self._unroll_stack.pop()
            breaks += ctl['break']
            cur = merge([out] + ctl['continue'])
        return merge([cur] + breaks)

    def walk_block(self, stmts, state):
        for i, st in enumerate(stmts):
            if state is None or not state.reachable():
                return None
            if self.split_paths and isinstance(st, ast.If):
                # enumerate syntactic paths instead of merging at the join
                self.on_stmt(st, state)
                outs = []
                for body, neg in ((st.body, False), (st.orelse, True)):
                    s = state.copy().assume(st.test, neg=neg)
                    if not s.reachable():
                        continue
                    o = self.walk_block(body, s)
                    if o is not None and o.reachable():
                        outs.append(self.walk_block(stmts[i + 1:], o))
                return merge(outs)
            state = self.walk_stmt(st, state)
        return state

    def walk_stmt(self, st, state):
        self.on_stmt(st, state)
        if isinstance(st, ast.Return):
            self.on_return(st, state)
            return None
        if isinstance(st, ast.Raise):
            return None
        if isinstance(st, (ast.Continue, ast.Break)):
            self.on_loop_exit_stmt(st, state)
            if self._unroll_stack:
                self._unroll_stack[-1][
                    'break' if isinstance(st, ast.Break) else
                    'continue'].append(state.copy())
            return None
        if isinstance(st, ast.Assert):
            if is_abort(st):
                return None
            return state.copy().assume(st.test)
        if isinstance(st, ast.If):
            s_then = state.copy().assume(st.test)
            s_else = state.copy().assume(st.test, neg=True)
            o_then = self.walk_block(st.body, s_then) if s_then.reachable() \
                else None
            o_else = self.walk_block(st.orelse, s_else) if \
                s_else.reachable() else None
            return merge([o_then, o_else])
        if isinstance(st, (ast.For, ast.AsyncFor)) and \
                self.unroll_literal_loops:
            it = state.sub(st.iter)
            if isinstance(it, (ast.Tuple, ast.List)) and 0 < len(
                    it.elts) <= 8 and not st.orelse:
                return self._unrolled(st, it.elts, state)
            if isinstance(it, ast.Call) and text(
                    it.func) == 'enumerate' and len(
                        it.args) == 1 and isinstance(
                            it.args[0], (ast.Tuple, ast.List)) and 0 < len(
                                it.args[0].elts) <= 8 and not st.orelse:
                elts = [ast.Tuple(elts=[ast.Constant(value=k), e],
                                  ctx=ast.Load())
                        for k, e in enumerate(it.args[0].elts)]
                return self._unrolled(st, elts, state)
        if isinstance(st, (ast.For, ast.AsyncFor)):
            s = state.copy()
            for n in assigned_names([st]):
                s.forget(n)
            self.loop_stack.append(st)
            body_out = self.walk_block(st.body, s.copy())
            self.loop_stack.pop()
            after = s  # zero or more iterations: only loop-invariant facts
            if st.orelse:
                after = self.walk_block(st.orelse, after)
            return after
        if isinstance(st, ast.While):
            s = state.copy()
            for n in assigned_names([st]):
                s.forget(n)
            self.loop_stack.append(st)
            self.walk_block(st.body, s.copy().assume(st.test))
            self.loop_stack.pop()
            has_break = any(isinstance(n, ast.Break) for n in ast.walk(st))
            after = s.copy()
            if not has_break:
                after.assume(st.test, neg=True)
            if isinstance(st.test, ast.Constant) and st.test.value and \
                    not has_break:
                return None
            return after
        if isinstance(st, (ast.With, ast.AsyncWith)):
            s = state.copy()
            for it in st.items:
                if it.optional_vars is not None:
                    for n in ast.walk(it.optional_vars):
                        if isinstance(n, ast.Name):
                            s.forget(n.id)
            return self.walk_block(st.body, s)
        if isinstance(st, ast.Try):
            s = state.copy()
            o_body = self.walk_block(st.body, s.copy())
            s_h = state.copy()
            for n in assigned_names(st.body):
                s_h.forget(n)
            outs = [o_body]
            for h in st.handlers:
                outs.append(self.walk_block(h.body, s_h.copy()))
            out = merge(outs)
            if st.finalbody and out is not None:
                out = self.walk_block(st.finalbody, out)
            return out
        if isinstance(st, (ast.FunctionDef, ast.AsyncFunctionDef)):
            if self.descend_nested:
                self.walk_function(st, state)
            s = state.copy()
            s.env.pop(st.name, None)
            lam = simple_function_as_lambda(st)
            if lam is not None:
                # a helper whose body is straight-line code + one return is
                # available for inlining at its call sites
                shadow = {a.arg for a in st.args.args}
                env2 = {k: v for k, v in s.env.items() if k not in shadow}
                lam.body = subst(lam.body, env2)
                s.env[st.name] = lam
            return s
        if isinstance(st, ast.Assign):
            s = state.copy()
            val = s.sub(st.value)
            for tgt in st.targets:
                self._bind(s, tgt, val)
            return s
        if isinstance(st, ast.AnnAssign):
            s = state.copy()
            if st.value is not None:
                self._bind(s, st.target, s.sub(st.value))
            return s
        if isinstance(st, ast.AugAssign):
            s = state.copy()
            if isinstance(st.target, ast.Name):
                cur = s.env.get(st.target.id,
                                ast.Name(id=st.target.id, ctx=ast.Load()))
                s.assign(st.target.id,
                         ast.BinOp(left=cur, op=st.op,
                                   right=s.sub(st.value)))
            return s
        # Expr, Pass, Global, Import, Delete ...
        return state

    def _bind(self, s, tgt, val):
        if isinstance(tgt, ast.Name):
            # never substitute lambdas / big calls blindly: keep them, the
            # clients decide.  Self-reference guard:
            if any(isinstance(n, ast.Name) and n.id == tgt.id
                   for n in ast.walk(val)) and tgt.id not in s.env:
                # x = f(x): rename old x inside val
                old = ast.Name(id='%s#%d' % (tgt.id, next(_fresh)),
                               ctx=ast.Load())
                val = subst(val, {tgt.id: old})
            s.assign(tgt.id, val)
        elif isinstance(tgt, (ast.Tuple, ast.List)):
            if isinstance(val, (ast.Tuple, ast.List)) and len(
                    val.elts) == len(tgt.elts):
                for t, v in zip(tgt.elts, val.elts):
                    self._bind(s, t, v)
            else:
                for i, t in enumerate(tgt.elts):
                    self._bind(
                        s, t,
                        ast.Subscript(value=val, slice=ast.Constant(value=i),
                                      ctx=ast.Load()))
        # attribute / subscript stores do not change the environment


def expand_starred(args, state):
    """Call arguments with *pair expanded to two subscripts."""
    out = []
    for a in args:
        if isinstance(a, ast.Starred):
            v = state.sub(a.value)
            if is_pair(v):
                out.append(simplify_subscript(pair_elem(v, 0)))
                out.append(simplify_subscript(pair_elem(v, 1)))
            else:
                raise AnalysisError('cannot expand *%s' % text(a.value))
        else:
            out.append(state.sub(a))
    return out


def single_assign_env(fnode, keep=()):
    """{name: fully inlined value} for names assigned exactly once in the
    function, by a plain top-level assignment (copy propagation for
    comparisons that should not depend on temporaries)."""
    counts = {}
    for n in ast.walk(fnode):
        if isinstance(n, ast.Name) and isinstance(n.ctx, ast.Store):
            counts[n.id] = counts.get(n.id, 0) + 1
        elif isinstance(n, ast.AugAssign) and isinstance(n.target, ast.Name):
            counts[n.target.id] = counts.get(n.target.id, 0) + 1
    mutated = set()
    for n in ast.walk(fnode):
        if isinstance(n, ast.Call) and isinstance(
                n.func, ast.Attribute) and isinstance(
                    n.func.value, ast.Name) and n.func.attr in (
                        'append', 'extend', 'sort', 'add', 'update', 'pop',
                        'remove', 'insert', 'setdefault'):
            mutated.add(n.func.value.id)
        if isinstance(n, ast.Subscript) and isinstance(
                n.ctx, ast.Store) and isinstance(n.value, ast.Name):
            mutated.add(n.value.id)
    env = {}
    for st in fnode.body:
        if isinstance(st, ast.Assign) and len(st.targets) == 1 and \
                isinstance(st.targets[0], ast.Name) and counts.get(
                    st.targets[0].id) == 1 and \
                st.targets[0].id not in mutated and \
                st.targets[0].id not in keep:
            env[st.targets[0].id] = subst(st.value, env)
    return env


def inlined(expr, fnode, keep=()):
    return subst(expr, single_assign_env(fnode, keep))


def simple_function_as_lambda(fnode):
    """def f(a, b): <single assignments>; return expr  ->  lambda a, b: expr
    with the assignments inlined; None if the body is anything else."""
    if fnode.args.vararg or fnode.args.kwarg or fnode.args.kwonlyargs or \
            fnode.args.defaults:
        return None
    env = {}
    ret = None
    for st in fnode.body:
        if isinstance(st, ast.Expr) and isinstance(st.value, ast.Constant):
            continue
        if isinstance(st, ast.Assert):
            continue
        if isinstance(st, ast.Assign) and len(st.targets) == 1 and \
                isinstance(st.targets[0], ast.Name) and ret is None:
            env[st.targets[0].id] = subst(st.value, env)
            continue
        if isinstance(st, ast.Return) and st.value is not None and \
                ret is None:
            ret = subst(st.value, env)
            continue
        return None
    if ret is None:
        return None
    return ast.Lambda(args=fnode.args, body=ret)


def beta_reduce(expr):
    """(lambda a, b: body)(x, y) -> body[a:=x, b:=y], repeatedly."""
    class B(ast.NodeTransformer):
        def visit_Call(self, node):
            self.generic_visit(node)
            if isinstance(node.func, ast.Lambda) and not node.keywords and \
                    len(node.args) == len(node.func.args.args) and not any(
                        isinstance(a, ast.Starred) for a in node.args):
                m = {p.arg: a for p, a in zip(node.func.args.args,
                                              node.args)}
                return subst(node.func.body, m)
            return node
    return B().visit(copy.deepcopy(expr))
