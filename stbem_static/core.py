"""E0 -- program model, report, evidence and exit-code discipline.

Everything here reads the *source text* of the repository (ast.parse); no
repository module is ever imported or executed.
"""
import ast
import copy
import hashlib
import json
import os
import sys
import time
import traceback
from fractions import Fraction

VERIF = os.path.dirname(os.path.dirname(os.path.abspath(__file__)))
DEFAULT_REPO = '/repo'


class AnalysisError(Exception):
    """The extractor does not recognise the code (vanished anchor, unknown
    idiom, floor not met).  Never a verdict: exit code 2."""


# --------------------------------------------------------------------------
# program model
# --------------------------------------------------------------------------
class FuncInfo:
    def __init__(self, module, qualname, node, cls=None, parent=None):
        self.module = module
        self.qualname = qualname
        self.node = node
        self.cls = cls  # ClassInfo or None
        self.parent = parent  # enclosing FuncInfo or None

    @property
    def file(self):
        return self.module.rel

    @property
    def params(self):
        a = self.node.args
        return [x.arg for x in a.posonlyargs + a.args]

    def where(self, node=None):
        n = node if node is not None else self.node
        return '%s:%d (%s)' % (self.module.rel, getattr(n, 'lineno', 0),
                               self.qualname)

    def __repr__(self):
        return '<func %s:%s>' % (self.module.rel, self.qualname)


class ClassInfo:
    def __init__(self, module, name, node):
        self.module = module
        self.name = name
        self.node = node
        self.bases = [ast.unparse(b) for b in node.bases]
        self.methods = {}


class PseudoFunc(ast.AST):
    """Body of `if __name__ == '__main__':` treated as a function."""
    _fields = ('body', )

    def __init__(self, body, lineno):
        self.body = body
        self.lineno = lineno
        self.name = '<main>'
        self.args = ast.arguments(posonlyargs=[], args=[], kwonlyargs=[],
                                  kw_defaults=[], defaults=[])
        self.decorator_list = []


class Module:
    def __init__(self, repo, rel):
        self.rel = rel
        self.path = os.path.join(repo, rel)
        try:
            with open(self.path, 'rb') as fh:
                raw = fh.read()
        except OSError as e:
            raise AnalysisError('anchor file missing: %s (%s)' % (rel, e))
        self.digest = hashlib.sha256(raw).hexdigest()
        self.src = raw.decode('utf-8')
        try:
            self.tree = ast.parse(self.src, filename=rel)
        except SyntaxError as e:
            raise AnalysisError('cannot parse %s: %s' % (rel, e))
        self.funcs = {}
        self.classes = {}
        self.consts = {}  # module level NAME = expr (last assignment)
        self.imports = {}  # local name -> (module, name)
        self.renamed = {}
        self.normalised = {}
        self.ref_tree = None
        self._undo_local_renames()
        self._index()

    def _undo_local_renames(self):
        """Normalisation aid, not a rule: if a function of today's source is
        alpha-equivalent to the same function of the reference copy under
        /verif/reference (same AST up to a consistent, bijective renaming of
        *local* names: assigned names, loop/comprehension targets, nested
        function names and their parameters), the local names are renamed
        back so that rules which look locals up by name keep working after a
        pure rename refactoring.  Anything else is left exactly as it is."""
        ref_path = os.path.join(VERIF, 'reference', self.rel)
        if not os.path.exists(ref_path):
            return
        try:
            with open(ref_path, 'rb') as fh:
                ref_raw = fh.read()
            ref_tree = ast.parse(ref_raw.decode('utf-8'))
        except SyntaxError:
            return
        if hashlib.sha256(ref_raw).hexdigest() == self.digest:
            return
        from .normalise import normalise
        self.normalised = normalise(ref_tree, self.tree)
        self.ref_tree = ref_tree
        ref_funcs = dict(_top_functions(ref_tree))
        for qual, node in _top_functions(self.tree):
            ref = ref_funcs.get(qual)
            if ref is None:
                continue
            script = alpha_map(ref, node)
            if script:
                apply_alignment(node, script)
                pren = {c: r for c, r in script['rename'].items()
                        if r in _params_of(ref)}
                if pren:
                    # keyword arguments at the call sites follow the
                    # parameter names
                    fname = qual.split('.')[-1]
                    for n in ast.walk(self.tree):
                        if isinstance(n, ast.Call) and (
                                (isinstance(n.func, ast.Attribute)
                                 and n.func.attr == fname) or
                                (isinstance(n.func, ast.Name)
                                 and n.func.id == fname)):
                            for kw in n.keywords:
                                if kw.arg in pren:
                                    kw.arg = pren[kw.arg]
                self.renamed[qual] = {
                    'rename': script['rename'],
                    'swapped_operands': len(script['swap']),
                    'dropped_inert_statements': len(script['drop']),
                    'mirrored_comparisons': len(script['mirror']),
                    'inverted_ifs': len(script['invert'])}

    def _index(self):
        for st in self.tree.body:
            if isinstance(st, ast.Assign) and len(st.targets) == 1 and \
                    isinstance(st.targets[0], ast.Name):
                self.consts[st.targets[0].id] = st.value
            elif isinstance(st, ast.ImportFrom):
                for al in st.names:
                    self.imports[al.asname or al.name] = (
                        '.' * st.level + (st.module or ''), al.name)
            elif isinstance(st, ast.Import):
                for al in st.names:
                    self.imports[al.asname or al.name] = (al.name, None)
            elif isinstance(st, ast.If) and _is_main_guard(st.test):
                pf = PseudoFunc(st.body, st.lineno)
                self._add_func('<main>', pf, None, None)
        self._walk_defs(self.tree.body, '', None, None)

    def _add_func(self, qual, node, cls, parent):
        fi = FuncInfo(self, qual, node, cls, parent)
        self.funcs[qual] = fi
        return fi

    def _walk_defs(self, body, prefix, cls, parent):
        for st in body:
            if isinstance(st, (ast.FunctionDef, ast.AsyncFunctionDef)):
                qual = prefix + st.name
                fi = self._add_func(qual, st, cls, parent)
                if cls is not None and parent is None:
                    cls.methods[st.name] = fi
                self._walk_nested(st.body, qual + '.', cls, fi)
            elif isinstance(st, ast.ClassDef):
                ci = ClassInfo(self, st.name, st)
                self.classes[st.name] = ci
                self._walk_defs(st.body, st.name + '.', ci, None)
            elif isinstance(st, ast.If) and _is_main_guard(st.test):
                self._walk_nested(st.body, '<main>.', None,
                                  self.funcs.get('<main>'))

    def _walk_nested(self, body, prefix, cls, parent):
        # nested defs anywhere inside a function body
        for st in body:
            for node in ast.walk(st):
                if isinstance(node, (ast.FunctionDef, ast.AsyncFunctionDef)):
                    qual = prefix + node.name
                    if qual not in self.funcs:
                        fi = self._add_func(qual, node, cls, parent)
                        self._walk_nested(node.body, qual + '.', cls, fi)

    def segment(self, node):
        return ast.get_source_segment(self.src, node)


def _top_functions(tree):
    """(qualname, node) for module functions, methods and the main block."""
    for st in tree.body:
        if isinstance(st, (ast.FunctionDef, ast.AsyncFunctionDef)):
            yield st.name, st
        elif isinstance(st, ast.ClassDef):
            for m in st.body:
                if isinstance(m, (ast.FunctionDef, ast.AsyncFunctionDef)):
                    yield st.name + '.' + m.name, m
        elif isinstance(st, ast.If) and _is_main_guard(st.test):
            yield '<main>', st


def _locals_of(fn):
    """Names bound inside fn other than its own parameters."""
    out = set()
    own = set()
    if isinstance(fn, (ast.FunctionDef, ast.AsyncFunctionDef)):
        a = fn.args
        own = {x.arg for x in a.posonlyargs + a.args + a.kwonlyargs}
        if a.vararg:
            own.add(a.vararg.arg)
        if a.kwarg:
            own.add(a.kwarg.arg)
    glob = set()
    for n in ast.walk(fn):
        if n is fn:
            continue
        if isinstance(n, ast.Name) and isinstance(n.ctx,
                                                  (ast.Store, ast.Del)):
            out.add(n.id)
        elif isinstance(n, (ast.FunctionDef, ast.AsyncFunctionDef)):
            out.add(n.name)
            a = n.args
            out |= {x.arg for x in a.posonlyargs + a.args + a.kwonlyargs}
        elif isinstance(n, ast.Lambda):
            a = n.args
            out |= {x.arg for x in a.posonlyargs + a.args + a.kwonlyargs}
        elif isinstance(n, ast.ExceptHandler) and n.name:
            out.add(n.name)
        elif isinstance(n, (ast.Global, ast.Nonlocal)):
            glob |= set(n.names)
    return out - own - glob


def _params_of(fn):
    if not isinstance(fn, (ast.FunctionDef, ast.AsyncFunctionDef)):
        return set()
    a = fn.args
    own = {x.arg for x in a.posonlyargs + a.args + a.kwonlyargs}
    if a.vararg:
        own.add(a.vararg.arg)
    if a.kwarg:
        own.add(a.kwarg.arg)
    return own


def _inert(st, fn_names_used):
    """A statement whose presence cannot change what the function computes:
    pass, a bare constant, a print(...) call, an assignment of a constant /
    plain name to a local that is never read."""
    if isinstance(st, ast.Pass):
        return True
    if isinstance(st, ast.Expr) and isinstance(st.value, ast.Constant):
        return True
    if isinstance(st, ast.Expr) and isinstance(st.value, ast.Call) and \
            isinstance(st.value.func, ast.Name) and \
            st.value.func.id == 'print':
        return not any(isinstance(n, (ast.Call, ast.Yield, ast.Await,
                                      ast.NamedExpr))
                       and n is not st.value and not (
                           isinstance(n.func, ast.Attribute)
                           and n.func.attr == 'format') and not (
                               isinstance(n.func, ast.Name)
                               and n.func.id in ('len', 'str', 'repr'))
                       for n in ast.walk(st.value)
                       if isinstance(n, ast.Call))
    if isinstance(st, ast.Assign) and len(st.targets) == 1 and isinstance(
            st.targets[0], ast.Name) and isinstance(
                st.value, (ast.Constant, ast.Name)):
        return fn_names_used.get(st.targets[0].id, 0) == 0
    return False


def alpha_map(ref, cur):
    """Aligns today's function `cur` with the reference function `ref`.
    Tolerated differences (all behaviour preserving): a consistent bijective
    renaming of local names, swapped operands of an arithmetic + or *,
    inserted inert statements.  Returns an edit script
    {'rename': {...}, 'swap': [BinOp nodes of cur], 'drop': [(list, stmt)]}
    or None if the functions differ in any other way (or not at all)."""
    rlocals = _locals_of(ref) | (_params_of(ref) - {'self', 'cls'})
    clocals = _locals_of(cur) | (_params_of(cur) - {'self', 'cls'})
    fwd, back = {}, {}
    swaps, drops = [], []
    mirrors, inverts = [], []
    used = {}
    for n in ast.walk(cur):
        if isinstance(n, ast.Name) and isinstance(n.ctx, ast.Load):
            used[n.id] = used.get(n.id, 0) + 1

    def name(r, c):
        if r in rlocals or c in clocals:
            if r not in rlocals or c not in clocals:
                return False
            if fwd.setdefault(c, r) != r or back.setdefault(r, c) != c:
                return False
            return True
        return r == c

    def arith(n):
        return not any(
            isinstance(x, (ast.List, ast.Tuple, ast.JoinedStr, ast.Dict))
            or (isinstance(x, ast.Constant) and isinstance(x.value,
                                                           (str, bytes)))
            or (isinstance(x, ast.Call) and isinstance(
                x.func, ast.Attribute) and x.func.attr in (
                    'format', 'join', 'hexdigest'))
            or (isinstance(x, ast.Call) and isinstance(
                x.func, ast.Name) and x.func.id in ('str', 'list', 'tuple',
                                                    'repr'))
            for x in ast.walk(n))

    def snapshot():
        return (dict(fwd), dict(back), len(swaps), len(drops),
                len(mirrors), len(inverts))

    def restore(snap):
        f, b, ns, nd, nm, ni = snap
        fwd.clear(); fwd.update(f)
        back.clear(); back.update(b)
        del swaps[ns:]
        del drops[nd:]
        del mirrors[nm:]
        del inverts[ni:]

    def cmp_body(rl, cl):
        """statement lists: cl may contain extra inert statements"""
        i = j = 0
        while i < len(rl) and j < len(cl):
            snap = snapshot()
            if cmp(rl[i], cl[j]):
                i += 1
                j += 1
                continue
            restore(snap)
            if _inert(cl[j], used):
                drops.append((cl, cl[j]))
                j += 1
                continue
            return False
        while j < len(cl):
            if not _inert(cl[j], used):
                return False
            drops.append((cl, cl[j]))
            j += 1
        return i == len(rl)

    def cmp(r, c):
        if type(r) is not type(c):
            return False
        if isinstance(r, ast.AST):
            if isinstance(r, ast.Name):
                return name(r.id, c.id)
            if isinstance(r, ast.Call) and isinstance(
                    r.func, ast.Attribute) and r.func.attr == 'locals' and \
                    isinstance(c, ast.Call) and len(r.keywords) == len(
                        c.keywords) and not r.args and not c.args:
                return cmp(r.func, c.func) and all(
                    name(kr.arg, kc.arg) and cmp(kr.value, kc.value)
                    for kr, kc in zip(r.keywords, c.keywords))
            if isinstance(r, ast.arg):
                return name(r.arg, c.arg)
            if isinstance(r, ast.Compare) and len(r.ops) == 1 and \
                    len(c.ops) == 1:
                snap = snapshot()
                if type(r.ops[0]) is type(c.ops[0]) and cmp(
                        r.left, c.left) and cmp(r.comparators[0],
                                                c.comparators[0]):
                    return True
                restore(snap)
                mir = _MIRROR_OP.get(type(c.ops[0]))
                if mir is type(r.ops[0]) and cmp(
                        r.left, c.comparators[0]) and cmp(
                            r.comparators[0], c.left):
                    mirrors.append(c)
                    return True
                restore(snap)
                return False
            if isinstance(r, ast.If) and isinstance(c, ast.If):
                snap = snapshot()
                if cmp(r.test, c.test) and cmp_body(
                        r.body, c.body) and cmp_body(r.orelse, c.orelse):
                    return True
                restore(snap)
                if isinstance(c.test, ast.UnaryOp) and isinstance(
                        c.test.op, ast.Not) and c.orelse and r.orelse and \
                        cmp(r.test, c.test.operand) and cmp_body(
                            r.body, c.orelse) and cmp_body(r.orelse,
                                                           c.body):
                    inverts.append(c)
                    return True
                restore(snap)
                return False
            if isinstance(r, ast.BinOp) and isinstance(
                    r.op, (ast.Add, ast.Mult)) and type(r.op) is type(c.op):
                snap = snapshot()
                if cmp(r.left, c.left) and cmp(r.right, c.right):
                    return True
                restore(snap)
                if arith(c) and cmp(r.left, c.right) and cmp(r.right,
                                                             c.left):
                    swaps.append(c)
                    return True
                restore(snap)
                return False
            for f in r._fields:
                rv, cv = getattr(r, f, None), getattr(c, f, None)
                if f == 'name' and isinstance(
                        r, (ast.FunctionDef, ast.AsyncFunctionDef)) and \
                        r is not ref:
                    if not name(rv, cv):
                        return False
                    continue
                if f == 'name' and isinstance(r, ast.ExceptHandler) and rv:
                    if not name(rv, cv):
                        return False
                    continue
                if f in ('type_comment', ):
                    continue
                if f in ('body', 'orelse', 'finalbody') and isinstance(
                        rv, list) and rv and isinstance(rv[0], ast.stmt) \
                        or (f in ('body', 'orelse', 'finalbody')
                            and isinstance(cv, list) and cv
                            and isinstance(cv[0], ast.stmt)):
                    if not cmp_body(rv or [], cv or []):
                        return False
                    continue
                if not cmp(rv, cv):
                    return False
            return True
        if isinstance(r, list):
            return len(r) == len(c) and all(cmp(a, b) for a, b in zip(r, c))
        return r == c

    if isinstance(ref, ast.If):  # main block
        ok = cmp_body(ref.body, cur.body)
    else:
        ok = cmp(ref, cur)
    if not ok:
        return None
    mapping = {c: r for c, r in fwd.items() if c != r}
    if not mapping and not swaps and not drops and not mirrors and \
            not inverts:
        return None
    return {'rename': mapping, 'swap': swaps, 'drop': drops,
            'mirror': mirrors, 'invert': inverts}


_MIRROR_OP = {ast.Lt: ast.Gt, ast.Gt: ast.Lt, ast.LtE: ast.GtE,
              ast.GtE: ast.LtE, ast.Eq: ast.Eq, ast.NotEq: ast.NotEq}


def apply_alignment(node, script):
    for b in script['swap']:
        b.left, b.right = b.right, b.left
    for c in script.get('mirror', []):
        c.left, c.comparators[0] = c.comparators[0], c.left
        c.ops[0] = _MIRROR_OP[type(c.ops[0])]()
    for i in script.get('invert', []):
        i.test = i.test.operand
        i.body, i.orelse = i.orelse, i.body
    for lst, st in script['drop']:
        if st in lst:
            lst.remove(st)
    if script['rename']:
        _Rename(script['rename']).visit(node)


class _Rename(ast.NodeTransformer):
    def __init__(self, mapping):
        self.m = mapping

    def visit_Name(self, n):
        n.id = self.m.get(n.id, n.id)
        return n

    def visit_arg(self, n):
        n.arg = self.m.get(n.arg, n.arg)
        return n

    def visit_FunctionDef(self, n):
        n.name = self.m.get(n.name, n.name)
        self.generic_visit(n)
        return n

    def visit_ExceptHandler(self, n):
        if n.name:
            n.name = self.m.get(n.name, n.name)
        self.generic_visit(n)
        return n

    def visit_Call(self, n):
        if isinstance(n.func, ast.Attribute) and n.func.attr == 'locals' \
                and not n.args:
            for kw in n.keywords:
                kw.arg = self.m.get(kw.arg, kw.arg)
        self.generic_visit(n)
        return n


def _is_main_guard(test):
    return (isinstance(test, ast.Compare) and isinstance(test.left, ast.Name)
            and test.left.id == '__name__')


NON_TEST_FILES = None


class Program:
    """All non-test python sources of the repository."""
    def __init__(self, repo=DEFAULT_REPO, assume_added_asserts=False):
        self.repo = repo
        self.assume_added_asserts = assume_added_asserts
        self.modules = {}
        rels = []
        for name in sorted(os.listdir(repo)):
            if name.endswith('.py'):
                rels.append(name)
        srcdir = os.path.join(repo, 'src')
        if not os.path.isdir(srcdir):
            raise AnalysisError('no src/ directory under %s' % repo)
        for name in sorted(os.listdir(srcdir)):
            if name.endswith('.py') and not name.endswith('_test.py'):
                rels.append('src/' + name)
        for rel in rels:
            self.modules[rel] = Module(repo, rel)
        self.consulted = set()
        self.consulted_funcs = set()
        self.assert_changed = {}
        self.changed_funcs = set()
        self._substitute_equivalent()
        self._record_changes()

    def _substitute_equivalent(self):
        """Normalisation aid (canon.py): a function of today's tree that is
        provably the same function as its reference version -- equal
        decision trees over expanded expressions -- is analysed in its
        reference shape."""
        changed = [m for m in self.modules.values()
                   if m.ref_tree is not None]
        if not changed:
            return
        from .canon import (Oracle, equivalent, equivalent_modulo_asserts,
                            assert_texts)
        trees = [m.tree for m in self.modules.values()] + [
            m.ref_tree for m in changed]
        oracle = Oracle(trees)
        for m in changed:
            self._restore_vanished_helpers(m, oracle)
        for m in changed:
            ref_funcs = dict(_top_functions(m.ref_tree))
            redo = False
            for qual, node in _top_functions(m.tree):
                ref = ref_funcs.get(qual)
                if ref is None or isinstance(ref, ast.If):
                    continue
                if ast.dump(ref) == ast.dump(node):
                    continue
                cls_ = qual.split('.')[0] if '.' in qual else None
                if equivalent(ref, node, oracle, cls_):
                    # positions keep the reference's relative order
                    self._replace(node, ref)
                elif all(x in assert_texts(node)
                         for x in assert_texts(ref)) and \
                        equivalent_modulo_asserts(ref, node, oracle, cls_):
                    # (only *added* assertions qualify: a removed or changed
                    # assertion is left for the rules to see)
                    # same function up to assertions: the rules run on the
                    # reference shape, the changed assertions are an open
                    # obligation of every check that consults the function
                    a, b = assert_texts(ref), assert_texts(node)
                    self.assert_changed[(m.rel, qual)] = (
                        [x for x in b if x not in a],
                        [x for x in a if x not in b])
                    if not self.assume_added_asserts:
                        continue
                    self._replace(node, ref)
                    m.normalised.setdefault(
                        'equivalent_up_to_assertions', []).append(qual)
                    redo = True
                    continue
                else:
                    continue
                if True:
                    m.normalised.setdefault(
                        'equivalent_to_reference', []).append(qual)
                    redo = True
            if redo:
                m.funcs.clear()
                m.classes.clear()
                m._index()

    def _record_changes(self):
        """functions (and module-level code) that still differ from the
        reference after every normalisation"""
        for rel, m in self.modules.items():
            if m.ref_tree is None:
                continue
            rf = dict(_top_functions(m.ref_tree))
            cf = dict(_top_functions(m.tree))
            for q, node in cf.items():
                if isinstance(node, ast.If):
                    if q in rf and ast.dump(rf[q]) != ast.dump(node):
                        self.changed_funcs.add((rel, q))
                    continue
                if q not in rf:
                    self.changed_funcs.add((rel, q))
                elif ast.dump(rf[q]) != ast.dump(node):
                    self.changed_funcs.add((rel, q))
            for q in rf:
                if q not in cf:
                    self.changed_funcs.add((rel, q))

            def toplevel(tree):
                out = []
                for st in tree.body:
                    if isinstance(st, (ast.FunctionDef, ast.AsyncFunctionDef,
                                       ast.Import, ast.ImportFrom)):
                        continue
                    if isinstance(st, ast.ClassDef):
                        out.append('class %s(%s): %s' % (
                            st.name, ', '.join(ast.unparse(b)
                                               for b in st.bases),
                            '; '.join(ast.unparse(x) for x in st.body
                                      if not isinstance(
                                          x, (ast.FunctionDef,
                                              ast.AsyncFunctionDef)))))
                        continue
                    if isinstance(st, ast.If) and _is_main_guard(st.test):
                        continue
                    if isinstance(st, ast.Expr) and isinstance(
                            st.value, ast.Constant):
                        continue
                    out.append(ast.unparse(st))
                return out
            if toplevel(m.ref_tree) != toplevel(m.tree):
                self.changed_funcs.add((rel, '<module>'))

    def _restore_vanished_helpers(self, m, oracle):
        """A helper of the reference that today's module no longer has: if
        every former caller is the same function as the reference caller
        with the helper inlined, caller and helper are analysed in their
        reference shape."""
        from .canon import equivalent
        from .normalise import scopes, _inline_one, NotInlinable
        rs, cs = scopes(m.ref_tree), scopes(m.tree)
        for sc, (rbody, rfuncs) in rs.items():
            if sc not in cs:
                continue
            cbody, cfuncs = cs[sc]
            for name in [n for n in rfuncs if n not in cfuncs]:
                trial = copy.deepcopy(m.ref_tree)
                try:
                    n = _inline_one(trial, sc, name)
                except NotInlinable:
                    continue
                if not n:
                    continue
                before = dict(_top_functions(m.ref_tree))
                after = dict(_top_functions(trial))
                callers = [q for q in after if q in before and ast.dump(
                    after[q]) != ast.dump(before[q])]
                cur = dict(_top_functions(m.tree))
                if not callers or not all(
                        q in cur and equivalent(after[q], cur[q], oracle)
                        for q in callers):
                    continue
                for q in callers:
                    self._replace(cur[q], before[q])
                helper = copy.deepcopy(rfuncs[name])
                off = (cbody[-1].lineno if cbody else 1) - helper.lineno
                for x in ast.walk(helper):
                    if hasattr(x, 'lineno'):
                        x.lineno += off
                        if getattr(x, 'end_lineno', None) is not None:
                            x.end_lineno += off
                cbody.append(helper)
                m.normalised.setdefault('restored_helpers', []).append(
                    '%s.%s' % (sc, name) if sc else name)
                m.funcs.clear()
                m.classes.clear()
                m._index()

    @staticmethod
    def _replace(node, ref):
        new = copy.deepcopy(ref)
        off = node.lineno - ref.lineno
        for n in ast.walk(new):
            if hasattr(n, 'lineno'):
                n.lineno = n.lineno + off
                if getattr(n, 'end_lineno', None) is not None:
                    n.end_lineno = n.end_lineno + off
        node.args = new.args
        node.body = new.body
        node.decorator_list = new.decorator_list

    def module(self, rel):
        if rel not in self.modules:
            raise AnalysisError('anchor file missing: %s' % rel)
        self.consulted.add(rel)
        return self.modules[rel]

    def func(self, rel, qualname):
        m = self.module(rel)
        if qualname not in m.funcs:
            raise AnalysisError('anchor function missing: %s:%s' %
                                (rel, qualname))
        self.consulted_funcs.add((rel, qualname))
        return m.funcs[qualname]

    def has_func(self, rel, qualname):
        return rel in self.modules and qualname in self.modules[rel].funcs

    def cls(self, rel, name):
        m = self.module(rel)
        if name not in m.classes:
            raise AnalysisError('anchor class missing: %s:%s' % (rel, name))
        for mname in m.classes[name].methods:
            self.consulted_funcs.add((rel, '%s.%s' % (name, mname)))
        return m.classes[name]

    def all_funcs(self):
        for rel, m in self.modules.items():
            for q, fi in m.funcs.items():
                yield fi

    def digests(self):
        return {rel: self.modules[rel].digest
                for rel in sorted(self.consulted)}


# --------------------------------------------------------------------------
# obligations / report
# --------------------------------------------------------------------------
class Ob:
    __slots__ = ('rule', 'instance', 'where', 'status', 'detail', 'construct',
                 'measure')

    def __init__(self, rule, instance, where, status, detail, construct,
                 measure=None):
        self.measure = measure
        self.rule = rule
        self.instance = instance
        self.where = where
        self.status = status
        self.detail = detail
        self.construct = construct

    def asdict(self):
        return {
            'rule': self.rule,
            'instance': self.instance,
            'where': self.where,
            'status': self.status,
            'detail': self.detail,
            'construct': self.construct
        }


class Report:
    def __init__(self, prop, tier):
        self.prop = prop
        self.tier = tier
        self.obs = []
        self.notes = []
        self.floors = {}
        self.assumptions = []
        self.not_decided = []
        self.extra = {}

    def ok(self, rule, instance, where='', detail='', construct=''):
        self.obs.append(Ob(rule, instance, where, 'ok', detail, construct))

    def violation(self, rule, instance, where='', detail='', construct='',
                  measure=None):
        """construct: normalised text of the offending construct (no line
        numbers) -- it is the key known findings are matched on."""
        self.obs.append(
            Ob(rule, instance, where, 'violation', detail, construct
               or instance, measure))

    def check(self, cond, rule, instance, where='', detail='', construct=''):
        if cond:
            self.ok(rule, instance, where, detail, construct)
        else:
            self.violation(rule, instance, where, detail, construct)
        return cond

    def note(self, text):
        self.notes.append(text)

    def floor(self, rule, n):
        """At least n instances of rule must have been examined."""
        self.floors[rule] = n

    def count(self, rule):
        return sum(1 for o in self.obs if o.rule == rule)

    def check_floors(self):
        for rule, n in self.floors.items():
            c = self.count(rule)
            if c < n:
                raise AnalysisError(
                    'rule %s examined %d instance(s), floor is %d: the '
                    'extractor no longer sees the sites confirmed by hand' %
                    (rule, c, n))


def load_known():
    p = os.path.join(VERIF, 'known_findings.json')
    if not os.path.exists(p):
        return []
    with open(p) as fh:
        return json.load(fh).get('findings', [])


def _match_known(ob, prop, known):
    for k in known:
        if k.get('status') != 'known':
            continue
        if k['property'] != prop or k['rule'] != ob.rule:
            continue
        if k.get('instance') is not None and k['instance'] != ob.instance:
            continue
        if k.get('construct') is not None and k['construct'] != ob.construct:
            continue
        if k.get('measure_below') is not None:
            # the finding covers the defect as measured when it was recorded;
            # a larger deviation is a different (new) violation
            if ob.measure is None or not (ob.measure < k['measure_below']):
                continue
        return k
    return None


def finish(report, prog, level, t0, seed, meta):
    """Write evidence, print verdict lines, return exit code."""
    known = load_known()
    prop = report.prop
    viol, kn = [], []
    for ob in report.obs:
        if ob.status == 'violation':
            k = _match_known(ob, prop, known)
            if k is not None:
                ob.status = 'known'
                kn.append((ob, k))
            else:
                viol.append(ob)
    if not viol:
        # floors guard against a vacuous pass; a run that already reports a
        # violation is not a pass
        report.check_floors()
    report.rc = 1 if viol else 0
    n_ob = len(report.obs)
    n_ok = sum(1 for o in report.obs if o.status == 'ok')
    rules = {}
    for o in report.obs:
        r = rules.setdefault(o.rule, {'instances': 0, 'ok': 0})
        r['instances'] += 1
        r['ok'] += (o.status == 'ok')
    for rule, n in report.floors.items():
        rules.setdefault(rule, {'instances': 0, 'ok': 0})['floor'] = n
    # samples: first obligation of every rule, written out
    samples, seen = [], set()
    for o in report.obs:
        if o.rule not in seen:
            seen.add(o.rule)
            samples.append(o.asdict())
    for o in report.obs:
        if o.status != 'ok' and o.asdict() not in samples:
            samples.append(o.asdict())
    samples = samples[:60]
    n_known = len(kn)
    coverage = {
        'explanation': meta.get('explanation', ''),
        'obligations': n_ob - n_known,
        'discharged': n_ok,
        'known_finding_obligations': n_known,
        'checker_cmd': meta.get('checker_cmd', ''),
        'trusted_base': meta.get('trusted_base', []),
        'rules': rules,
        'samples': samples,
        'files_consulted': prog.digests() if prog else {},
        'functions_analysed': sorted(set(
            o.where.split('(')[-1].rstrip(')') for o in report.obs
            if '(' in o.where)),
        'not_decided': report.not_decided,
        'notes': report.notes[:80],
        'exhaustive': bool(meta.get('exhaustive', False)),
    }
    if prog is not None:
        norm = {rel: dict(m.normalised, **(
            {'aligned_by_renaming': sorted(m.renamed)} if m.renamed else {}))
            for rel, m in sorted(prog.modules.items())
            if m.normalised or m.renamed}
        if norm:
            # behaviour-preserving rewrites applied before the rules ran
            coverage['normalised'] = norm
    coverage.update(report.extra)
    ev = {
        'property_id': prop,
        'tier': report.tier,
        'seed': seed,
        'level': level,
        'coverage': coverage,
        'assumptions': report.assumptions,
        'wall_s': round(time.time() - t0, 3),
        'violations': len(viol),
    }
    outroot = out_root(prog)
    evdir = os.path.join(outroot, 'evidence')
    os.makedirs(evdir, exist_ok=True)
    with open(os.path.join(evdir, prop + '.json'), 'w') as fh:
        json.dump(ev, fh, indent=1, sort_keys=True, default=str)
        fh.write('\n')
    print('%s tier=%s: %d obligations over %d rules, %d discharged, '
          '%d known finding(s), %d violation(s), %.1fs' %
          (prop, report.tier, n_ob, len(rules), n_ok, n_known, len(viol),
           time.time() - t0))
    for rule in sorted(rules):
        r = rules[rule]
        print('  rule %-22s instances=%-4d ok=%-4d%s' %
              (rule, r['instances'], r['ok'],
               (' floor=%d' % r['floor']) if 'floor' in r else ''))
    for ob, k in kn:
        print('KNOWN-FINDING: property=%s %s [%s %s at %s]' %
              (prop, k.get('what', ob.detail), ob.rule, ob.instance,
               ob.where))
    if viol:
        rdir = os.path.join(outroot, 'replay', prop)
        os.makedirs(rdir, exist_ok=True)
        for i, ob in enumerate(viol):
            path = os.path.join(rdir, '%s-%d.json' % (report.tier, i))
            with open(path, 'w') as fh:
                json.dump(
                    {
                        'property': prop,
                        'tier': report.tier,
                        'finding': ob.asdict()
                    }, fh, indent=1)
            print('  %s %s at %s: %s' %
                  (ob.rule, ob.instance, ob.where, ob.detail))
            print('VIOLATION property=%s replay=%s' % (prop, path))
        return 1
    return 0


def out_root(prog):
    """Evidence and replay files of the registered checks go to /verif; a
    self-test run against a scratch copy (--repo) must never overwrite
    them."""
    if os.environ.get('STBEM_OUT'):
        return os.environ['STBEM_OUT']
    if prog is not None and os.path.realpath(prog.repo) != \
            os.path.realpath(DEFAULT_REPO):
        import tempfile
        return os.path.join(tempfile.gettempdir(), 'stbem_static_scratch_out')
    return VERIF


def frac(x):
    return Fraction(x)
