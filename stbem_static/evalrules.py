"""R-grading-end (C07): which end of an interval the log rule is graded at,
in SingleLayerOperator.evaluate and _init_elems."""
import ast

from .absint import Walker, State, text, to_lin, Lin, expand_starred
from .core import AnalysisError
from .panels import sum_terms

SL = 'src/single_layer.py'

GRADED_AT = {'log_scheme': 0, 'log_scheme_m': 1}  # R-sym checks these


class EvalWalker(Walker):
    split_paths = True
    descend_nested = False

    def __init__(self):
        super().__init__()
        self.rets = []
        self.assigns = []

    def on_return(self, st, state):
        self.rets.append((st, state.copy()))

    def on_stmt(self, st, state):
        if isinstance(st, ast.Assign) and len(st.targets) == 1 and \
                isinstance(st.targets[0], ast.Name):
            self.assigns.append((st.targets[0].id, st, state.copy()))


def check_grading_end(prog, report):
    fi = prog.func(SL, 'SingleLayerOperator.evaluate')
    if fi.params[:4] != ['self', 'elem_trial', 't', 'x_hat']:
        raise AnalysisError('%s: signature changed' % fi.where())
    w = EvalWalker()
    w.walk_function(fi.node)
    XA = Lin({'elem_trial.space_interval[0]': 1})
    XB = Lin({'elem_trial.space_interval[1]': 1})
    XH = Lin({'x_hat': 1})
    L = Lin({'self.gamma_len': 1})
    n_split = 0
    for st, state in w.rets:
        terms = sum_terms(st.value)
        calls = [t for t in terms if isinstance(t, ast.Call) and isinstance(
            t.func, ast.Attribute) and t.func.attr == 'integrate' and text(
                t.func.value).startswith('self.log_scheme')]
        if len(calls) != len(terms) or not calls:
            continue
        n_split += 1
        where = fi.where(st)
        ivs = []
        for c in calls:
            sch = text(c.func.value)[5:]
            if sch not in GRADED_AT:
                raise AnalysisError('%s: unknown scheme %s' % (where, sch))
            lo, hi = state.lin(c.args[1]), state.lin(c.args[2])
            ivs.append((lo, hi))
            at_hi = state.entails(('lin', hi - XH, '=='))
            at_lo = state.entails(('lin', lo - XH, '=='))
            if at_hi == at_lo:
                ok, why = False, 'singular point is not exactly one end'
            else:
                end = 1 if at_hi else 0
                ok = GRADED_AT[sch] == end
                why = 'singular point at the %s end, rule graded at %d' % (
                    'right' if end else 'left', GRADED_AT[sch])
            report.check(
                ok, 'R-grading-end', 'evaluate in-element `%s`' %
                text(c)[:50].replace('\n', ' '), where,
                'an interval with the singular point at its right end uses '
                'the mirrored log rule, at its left end the plain one: ' +
                why, construct='evaluate: in-element split rule for the '
                '%s part' % ('left' if at_hi else 'right'))
        # the parts chain x_a -> x_hat -> x_b
        ivs_sorted = sorted(ivs, key=lambda p: 0 if state.entails(
            ('lin', p[0] - XA, '==')) else 1)
        okc = len(ivs) == 2 and state.entails(
            ('lin', ivs_sorted[0][0] - XA, '==')) and state.entails(
                ('lin', ivs_sorted[0][1] - XH, '==')) and state.entails(
                    ('lin', ivs_sorted[1][0] - XH, '==')) and state.entails(
                        ('lin', ivs_sorted[1][1] - XB, '=='))
        report.check(okc, 'R-grading-end', 'evaluate in-element partition',
                     where, 'the element is split at the singular point: '
                     '[x_a, x_hat] and [x_hat, x_b]',
                     construct='evaluate: in-element partition')
    if n_split == 0:
        raise AnalysisError('%s: in-element split not found' % fi.where())
    # outside: choice of the pre-tabulated points
    sel = [(name, st, state) for name, st, state in w.assigns
           if any(isinstance(n, ast.Attribute) and 'log_scheme' in n.attr
                  and n.attr.endswith('_y') for n in ast.walk(st.value))]
    if len({id(st) for _, st, _ in sel}) != 2:
        raise AnalysisError('%s: selection of the pre-tabulated points not '
                            'found (%d assignments)' % (fi.where(), len(sel)))
    # distances
    dist = {}
    for name, st, state in w.assigns:
        v = st.value
        if isinstance(v, ast.Call) and text(v.func) in ('min', 'abs'):
            dist.setdefault(name, []).append((v, state))
    for name, st, state in sel:
        attr = [n.attr for n in ast.walk(st.value)
                if isinstance(n, ast.Attribute) and n.attr.endswith('_y')
                and 'log_scheme' in n.attr][0]
        mirrored = '_m_' in attr or attr.endswith('_m_y')
        # which distance is the smaller on this path?  facts are on the
        # local names d_a/d_b: read the branch condition
        da = ast.parse('d_a', mode='eval').body
        db = ast.parse('d_b', mode='eval').body
        a_near = state.entails_cmp(da, '<=', db)
        b_near = state.entails_cmp(db, '<', da) or state.entails_cmp(
            db, '<=', da)
        if a_near == b_near:
            raise AnalysisError('%s: cannot tell which end is nearer on '
                                'this path' % fi.where(st))
        ok = (a_near and not mirrored) or (b_near and mirrored)
        report.check(
            ok, 'R-grading-end', 'evaluate outside rule (%s nearer)' %
            ('x_a' if a_near else 'x_b'), fi.where(st),
            'the pre-tabulated rule graded towards the nearer end point: '
            'x_a nearer -> plain points, x_b nearer -> mirrored points '
            '(uses %s)' % attr,
            construct='evaluate: outside rule selection')
    # definitions of d_a, d_b
    defs = {}
    for n in ast.walk(fi.node):
        if isinstance(n, ast.If) and text(n.test) == 'self.glue_space':
            for branch, glued in ((n.body, True), (n.orelse, False)):
                for s in branch:
                    if isinstance(s, ast.Assign) and isinstance(
                            s.targets[0], ast.Name):
                        defs[(s.targets[0].id, glued)] = s.value
    env = {'x_a': ast.parse('elem_trial.space_interval[0]',
                            mode='eval').body,
           'x_b': ast.parse('elem_trial.space_interval[1]',
                            mode='eval').body}
    from .absint import subst
    def abs_args(v):
        out = []
        items = v.args if isinstance(v, ast.Call) and text(
            v.func) == 'min' else [v]
        for it in items:
            if isinstance(it, ast.Call) and text(it.func) == 'abs':
                l = to_lin(subst(it.args[0], env))
                out.append(l)
            else:
                return None
        return out
    def same(l1, l2):
        return (l1 - l2).key() == Lin().key() or (l1 + l2).key() == \
            Lin().key()
    want = {
        ('d_a', True): [XH - XA, L - XH + XA],
        ('d_b', True): [XH - XB, L - XB + XH],
        ('d_a', False): [XH - XA],
        ('d_b', False): [XH - XB],
    }
    for key, exp in want.items():
        v = defs.get(key)
        got = abs_args(v) if v is not None else None
        ok = got is not None and len(got) == len(exp) and all(
            any(same(g, e) for g in got) for e in exp)
        report.check(
            ok, 'R-grading-end', 'evaluate distance %s (%s)' %
            (key[0], 'glued' if key[1] else 'open'), fi.where(),
            'distance of the point to the end point%s: expected |%s|%s' %
            (' along the closed curve' if key[1] else '', exp[0],
             ' and |%s| through the seam' % exp[1] if key[1] else ''),
            construct='evaluate: %s %s' % (key[0], 'glued' if key[1]
                                           else 'open'))
    # the tail: (x_b - x_a) * dot(log_scheme.weights, vec)
    tail = list({id(st): st for st, state in w.rets
                 if 'np.dot' in text(st.value)}.values())
    okt = len(tail) == 1 and text(tail[0].value).replace(' ', '') in (
        '(x_b-x_a)*np.dot(self.log_scheme.weights,vec)',
        '(x_b-x_a)*np.dot(vec,self.log_scheme.weights)')
    report.check(okt, 'R-grading-end', 'evaluate tail weights',
                 fi.where(tail[0] if tail else None),
                 'the tail multiplies by the element length and the weights '
                 'of the log rule (mirrored and plain points share one '
                 'weight vector)', construct='evaluate: tail weights')
    # _init_elems tabulates plain and mirrored points with the same affine
    # map
    fi2 = prog.func(SL, 'SingleLayerOperator._init_elems')
    tab = {}
    for n in ast.walk(fi2.node):
        if isinstance(n, ast.Assign) and isinstance(
                n.targets[0], ast.Attribute) and 'log_scheme' in \
                n.targets[0].attr:
            tab[n.targets[0].attr] = text(n.value).replace(' ', '')
    unpack = any(isinstance(n, ast.Assign) and text(n.targets[0]) == '(a, b)'
                 and text(n.value).endswith('.space_interval')
                 for n in ast.walk(fi2.node))
    ev = None
    names = sorted(tab)
    okm = unpack and len(tab) == 2
    if okm:
        plain = [k for k in names if '_m_' not in k]
        mirr = [k for k in names if '_m_' in k]
        okm = len(plain) == 1 and len(mirr) == 1 and tab[plain[0]].endswith(
            '.gamma_space(a+(b-a)*self.log_scheme.points)') and \
            tab[mirr[0]].endswith(
                '.gamma_space(a+(b-a)*self.log_scheme_m.points)')
    report.check(okm, 'R-grading-end', '_init_elems tables', fi2.where(),
                 'plain points from log_scheme.points and mirrored points '
                 'from log_scheme_m.points, both through the element\'s own '
                 'affine map a + (b-a)*p and its own piece',
                 construct='_init_elems: tabulated points')
    # ... and does so for every element it is given, every time
    loops = [n for n in fi2.node.body if isinstance(n, ast.For)]
    okall = len(loops) == 1 and not any(
        isinstance(m, (ast.Continue, ast.Break, ast.Return, ast.Try,
                       ast.If, ast.While))
        for s_ in loops[0].body for m in ast.walk(s_)) if loops else False
    if loops and okall:
        tgt = text(loops[0].target)
        okall = all(
            isinstance(s_, ast.Assign) for s_ in loops[0].body) and sum(
                1 for s_ in loops[0].body
                if isinstance(s_.targets[0], ast.Attribute)
                and text(s_.targets[0].value) == tgt) == 2
    report.check(okall, 'R-grading-end', '_init_elems tabulates every '
                 'element', fi2.where(),
                 'the tables are assigned unconditionally to every element '
                 'of the list (an element that keeps tables from elsewhere '
                 '-- a parent, an earlier mesh -- would be evaluated on the '
                 'wrong nodes)',
                 construct='_init_elems: unconditional tabulation')
    report.floor('R-grading-end', 12)


def check_evaluate_vector(prog, report):
    """R-passthrough (C07): evaluate_vector is evaluate, element by element,
    at the time and the parameter it was given: neither argument is rebound
    (a wrap modulo the curve length maps the far end of an open curve onto
    its start), the Cartesian point is gamma(x_hat) of the same parameter,
    and entry j belongs to the j-th leaf."""
    fi = prog.func(SL, 'SingleLayerOperator.evaluate_vector')
    fn = fi.node
    t, xh = fi.params[1], fi.params[2]
    rebound = sorted({n.id for n in ast.walk(fn) if isinstance(n, ast.Name)
                      and isinstance(n.ctx, (ast.Store, ast.Del))
                      and n.id in (t, xh)})
    report.check(not rebound, 'R-passthrough', 'evaluate_vector arguments',
                 fi.where(),
                 'the time and the curve parameter reach evaluate as they '
                 'were given; rebound: %s' % rebound,
                 construct='evaluate_vector: arguments rebound')
    calls = [n for n in ast.walk(fn) if isinstance(n, ast.Call)
             and text(n.func) == 'self.evaluate']
    if len(calls) != 1 or calls[0].keywords or len(calls[0].args) != 4:
        raise AnalysisError('%s: the one call self.evaluate(elem, t, x_hat, '
                            'x) was not found' % fi.where())
    c = calls[0]
    single = {}
    for n in ast.walk(fn):
        if isinstance(n, ast.Assign) and len(n.targets) == 1 and isinstance(
                n.targets[0], ast.Name):
            single.setdefault(n.targets[0].id, []).append(n.value)

    def resolve(e):
        k = 0
        while isinstance(e, ast.Name) and len(single.get(e.id, ())) == 1 \
                and k < 5:
            e = single[e.id][0]
            k += 1
        return text(e).replace(' ', '')

    okp = text(c.args[1]) == t and text(c.args[2]) == xh and resolve(
        c.args[3]) == 'self.mesh.gamma_space.eval(%s)' % xh
    report.check(okp, 'R-passthrough', 'evaluate_vector point', fi.where(c),
                 'evaluate receives (elem, t, x_hat, gamma(x_hat)) with the '
                 'Cartesian point computed from the same parameter; got '
                 '(%s)' % ', '.join(text(a) for a in c.args),
                 construct='evaluate_vector: point')
    loop = None
    for n in ast.walk(fn):
        if isinstance(n, ast.For) and any(m is c for m in ast.walk(n)):
            loop = n
    if loop is None:
        raise AnalysisError('%s: element loop not found' % fi.where())
    it = loop.iter
    oki = False
    if isinstance(it, ast.Call) and text(it.func) == 'enumerate' and len(
            it.args) == 1 and not it.keywords and isinstance(
                loop.target, ast.Tuple) and len(loop.target.elts) == 2:
        j, e = (text(x) for x in loop.target.elts)
        src = resolve(it.args[0])
        store = [s for s in loop.body if isinstance(s, ast.Assign)
                 and s.value is c]
        oki = (src in ('list(self.mesh.leaf_elements)',
                       'self.mesh.leaf_elements')
               and text(c.args[0]) == e and len(store) == 1
               and isinstance(store[0].targets[0], ast.Subscript)
               and text(store[0].targets[0].slice) == j)
        if oki:
            vec = text(store[0].targets[0].value)
            oki = any(isinstance(s, ast.Return) and s.value is not None
                      and text(s.value) == vec for s in fn.body)
    else:
        raise AnalysisError('%s: element loop is not `for j, elem in '
                            'enumerate(...)`' % fi.where(loop))
    report.check(oki, 'R-passthrough', 'evaluate_vector indexing',
                 fi.where(loop),
                 'entry j of the returned vector is the value for the j-th '
                 'leaf of the mesh', construct='evaluate_vector: indexing')
    report.floor('R-passthrough', 3)
