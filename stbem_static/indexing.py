"""E7 -- index spaces: which element list an index / element variable ranges
over, and R-index for the three assembly paths of bilform_matrix."""
import ast

from .absint import text
from .core import AnalysisError

SL = 'src/single_layer.py'


def loop_bindings(fnode):
    """var name -> ('idx', list_text) | ('elem', list_text, idx var or None)
    from `for i, e in enumerate(L)`, `zip(range(N), L)`, `for e in L`,
    and `e = L[j]` assignments."""
    out = {}
    for n in ast.walk(fnode):
        if isinstance(n, (ast.For, ast.comprehension)):
            tgt, it = n.target, n.iter
            if isinstance(it, ast.Call) and text(it.func) == 'enumerate' \
                    and isinstance(tgt, ast.Tuple) and len(tgt.elts) == 2 \
                    and all(isinstance(e, ast.Name) for e in tgt.elts):
                L = text(it.args[0])
                out[tgt.elts[0].id] = ('idx', L)
                out[tgt.elts[1].id] = ('elem', L, tgt.elts[0].id)
            elif isinstance(it, ast.Call) and text(it.func) == 'zip' and \
                    len(it.args) == 2 and isinstance(tgt, ast.Tuple) and \
                    len(tgt.elts) == 2 and isinstance(
                        it.args[0], ast.Call) and text(
                            it.args[0].func) == 'range' and all(
                                isinstance(e, ast.Name) for e in tgt.elts):
                L = text(it.args[1])
                out[tgt.elts[0].id] = ('idx', L)
                out[tgt.elts[1].id] = ('elem', L, tgt.elts[0].id)
            elif isinstance(tgt, ast.Name) and not isinstance(it, ast.Call):
                out[tgt.id] = ('elem', text(it), None)
        elif isinstance(n, ast.Assign) and len(n.targets) == 1 and \
                isinstance(n.targets[0], ast.Name) and isinstance(
                    n.value, ast.Subscript) and isinstance(
                        n.value.slice, ast.Name):
            out[n.targets[0].id] = ('elem', text(n.value.value),
                                    n.value.slice.id)
    return out


def bind_call(call, params):
    """positional/keyword arguments -> {param: ast}"""
    bound = {}
    for p, a in zip(params, call.args):
        bound[p] = a
    for kw in call.keywords:
        if kw.arg is not None:
            bound[kw.arg] = kw.value
    return bound


def globals_map(fnode):
    """globals()['name'] = value  ->  {name: (value text, lineno)}"""
    out = {}
    for n in ast.walk(fnode):
        if isinstance(n, ast.Assign) and len(n.targets) == 1:
            t = n.targets[0]
            if isinstance(t, ast.Subscript) and isinstance(
                    t.value, ast.Call) and text(
                        t.value.func) == 'globals' and isinstance(
                            t.slice, ast.Constant):
                out[t.slice.value] = (text(n.value), n.lineno)
    return out


def check_bilform_matrix(prog, report):
    fi = prog.func(SL, 'SingleLayerOperator.bilform_matrix')
    bil = prog.func(SL, 'SingleLayerOperator.bilform')
    bparams = bil.params[1:]
    if set(bparams) != {'elem_trial', 'elem_test'}:
        raise AnalysisError('%s: bilform parameters are %s; roles cannot be '
                            'bound by name' % (bil.where(), bparams))
    fn = fi.node
    lb = loop_bindings(fn)
    # the two list parameters and their None-defaults
    if 'elems_test' not in fi.params or 'elems_trial' not in fi.params:
        raise AnalysisError('%s: list parameters renamed' % fi.where())
    pidx = {p: i for i, p in enumerate(fi.params)}
    report.check(
        pidx['elems_test'] < pidx['elems_trial'], 'R-index',
        'bilform_matrix positional order (test, trial)', fi.where(),
        'callers pass (elems_test, elems_trial) positionally')
    # shape of every np.zeros matrix: (len(test), len(trial))
    sizes = {}
    for n in ast.walk(fn):
        if isinstance(n, ast.Assign) and len(n.targets) == 1 and isinstance(
                n.targets[0], ast.Name) and isinstance(
                    n.value, ast.Call) and text(n.value.func) == 'len':
            sizes[n.targets[0].id] = text(n.value.args[0])
    nz = 0
    for n in ast.walk(fn):
        if isinstance(n, ast.Assign) and isinstance(
                n.value, ast.Call) and text(n.value.func) == 'np.zeros' and \
                n.value.args and isinstance(n.value.args[0], ast.Tuple):
            dims = [sizes.get(text(d), text(d.args[0]) if isinstance(
                d, ast.Call) and text(d.func) == 'len' and len(d.args) == 1
                else text(d)) for d in n.value.args[0].elts]
            nz += 1
            report.check(
                dims == ['elems_test', 'elems_trial'], 'R-index',
                'bilform_matrix np.zeros shape', fi.where(n),
                'matrix is allocated as (len(elems_test), len(elems_trial)) '
                '-- rows = test, columns = trial; found %s' % dims,
                construct='bilform_matrix: zeros shape')
    if nz < 2:
        raise AnalysisError('%s: matrix allocations not found' % fi.where())
    # entry stores
    stores = 0
    for n in ast.walk(fn):
        if not (isinstance(n, ast.Assign) and len(n.targets) == 1
                and isinstance(n.targets[0], ast.Subscript)):
            continue
        tgt = n.targets[0]
        if not isinstance(n.value, ast.Call) or not (
                isinstance(n.value.func, ast.Attribute)
                and n.value.func.attr == 'bilform'):
            continue
        stores += 1
        _check_store(report, fi, lb, tgt, n.value, bparams, 'elems_test',
                     'elems_trial', 'bilform_matrix')
    if stores < 2:
        raise AnalysisError('%s: expected the inline and the serial store '
                            'mat[i, j] = self.bilform(...)' % fi.where())
    # pool path
    _check_pool(prog, report, fi, lb, bparams)
    report.floor('R-index', 7)


def _check_store(report, fi, lb, tgt, call, bparams, L_test, L_trial, tag):
    bound = bind_call(call, bparams)
    idx = tgt.slice
    ok = True
    why = []
    if not (isinstance(idx, ast.Tuple) and len(idx.elts) == 2):
        ok = False
        why.append('store is not mat[row, col]')
    else:
        row, col = (text(e) for e in idx.elts)
        for role, L, ix, nm in (('elem_test', L_test, row, 'row'),
                                ('elem_trial', L_trial, col, 'column')):
            a = bound.get(role)
            if not isinstance(a, ast.Name) or a.id not in lb or \
                    lb[a.id][0] != 'elem':
                ok = False
                why.append('%s argument is not a loop element' % role)
                continue
            _, lst, iv = lb[a.id]
            if lst != L:
                ok = False
                why.append('%s argument ranges over %s, not %s' %
                           (role, lst, L))
            if iv != ix:
                ok = False
                why.append('%s index is `%s` but the %s element is indexed '
                           'by `%s`' % (nm, ix, role, iv))
    report.check(
        ok, 'R-index', '%s store `%s = %s`' %
        (tag, text(tgt), text(call)[:50]), fi.where(tgt),
        'mat[i, j] = bilform(trial_j, test_i): row index enumerates the list '
        'whose element is bound to elem_test, column index the list bound '
        'to elem_trial' + ('; ' + '; '.join(why) if why else ''),
        construct='%s: entry store binding' % tag)


def _check_pool(prog, report, fi, lb, bparams):
    fn = fi.node
    gm = globals_map(fn)
    wk = prog.func(SL, 'MP_SL_matrix_col')
    wparams = wk.params
    wlb = loop_bindings(wk.node)
    # worker: col[i] = __SL.bilform(elem_trial, elem_test)
    stores = [n for n in ast.walk(wk.node)
              if isinstance(n, ast.Assign) and isinstance(
                  n.targets[0], ast.Subscript) and isinstance(
                      n.value, ast.Call) and isinstance(
                          n.value.func, ast.Attribute)
              and n.value.func.attr == 'bilform']
    if len(stores) != 1:
        raise AnalysisError('%s: worker store not found' % wk.where())
    st = stores[0]
    bound = bind_call(st.value, bparams)
    ok = True
    why = []
    a_test, a_trial = bound.get('elem_test'), bound.get('elem_trial')
    g_test = g_trial = None
    if isinstance(a_test, ast.Name) and wlb.get(a_test.id, ('', ))[0] == \
            'elem':
        _, g_test, iv = wlb[a_test.id]
        if text(st.targets[0].slice) != iv:
            ok = False
            why.append('col index `%s` is not the test index `%s`' %
                       (text(st.targets[0].slice), iv))
    else:
        ok = False
        why.append('test argument is not a loop element')
    if isinstance(a_trial, ast.Name) and wlb.get(a_trial.id, ('', ))[0] == \
            'elem':
        _, g_trial, iv = wlb[a_trial.id]
        if not wparams or iv != wparams[0]:
            ok = False
            why.append('trial element is not indexed by the worker '
                       'argument')
    else:
        ok = False
        why.append('trial argument is not taken from the trial list')
    # the globals the worker reads are the lists of the same role
    gv = {k: v[0] for k, v in gm.items()}
    if g_test is not None and gv.get(g_test) != 'elems_test':
        ok = False
        why.append('worker test list %s is handed %s' %
                   (g_test, gv.get(g_test)))
    if g_trial is not None and gv.get(g_trial) != 'elems_trial':
        ok = False
        why.append('worker trial list %s is handed %s' %
                   (g_trial, gv.get(g_trial)))
    # col length
    for n in ast.walk(wk.node):
        if isinstance(n, ast.Assign) and isinstance(
                n.value, ast.Call) and text(n.value.func) == 'np.zeros':
            arg = text(n.value.args[0])
            if g_test is not None and arg != 'len(%s)' % g_test:
                ok = False
                why.append('column has length %s' % arg)
    report.check(ok, 'R-index', 'MP_SL_matrix_col column', wk.where(st),
                 'worker j returns the column (bilform(trial_j, test_i))_i '
                 'over the test list' + ('; ' + '; '.join(why)
                                         if why else ''),
                 construct='MP_SL_matrix_col: column binding')
    # consumer: for j, col in enumerate(pool.imap(worker, range(M), ..)):
    #               mat[:, j] = col
    okc = False
    whyc = 'consumer loop not found'
    loc = fi.where()
    for n in ast.walk(fn):
        if isinstance(n, ast.For) and isinstance(
                n.iter, ast.Call) and text(n.iter.func) == 'enumerate':
            inner = n.iter.args[0]
            if not (isinstance(inner, ast.Call) and isinstance(
                    inner.func, ast.Attribute) and inner.func.attr in (
                        'imap', 'map', 'imap_unordered', 'starmap')):
                continue
            loc = fi.where(n)
            if not (isinstance(n.target, ast.Tuple)
                    and len(n.target.elts) == 2):
                continue
            jv, cv = (text(e) for e in n.target.elts)
            rng = inner.args[1] if len(inner.args) > 1 else None
            sizes = {}
            for m in ast.walk(fn):
                if isinstance(m, ast.Assign) and isinstance(
                        m.value, ast.Call) and text(m.value.func) == 'len':
                    sizes[text(m.targets[0])] = text(m.value.args[0])
            rng_ok = isinstance(rng, ast.Call) and text(
                rng.func) == 'range' and len(rng.args) == 1 and sizes.get(
                    text(rng.args[0]), text(rng.args[0])) in (
                        'elems_trial', 'len(elems_trial)')
            st_ok = False
            for m in n.body:
                if isinstance(m, ast.Assign) and isinstance(
                        m.targets[0], ast.Subscript) and text(
                            m.value) == cv:
                    sl = m.targets[0].slice
                    if isinstance(sl, ast.Tuple) and len(
                            sl.elts) == 2 and isinstance(
                                sl.elts[0], ast.Slice) and text(
                                    sl.elts[1]) == jv:
                        st_ok = True
            okc = rng_ok and st_ok and text(
                inner.args[0]) == wk.qualname
            whyc = 'range over trial=%s, store mat[:, j]=%s' % (rng_ok,
                                                                  st_ok)
    report.check(okc, 'R-index', 'bilform_matrix pool consumer', loc,
                 'columns are requested for j in range(len(elems_trial)) '
                 'and stored as mat[:, j]; ' + whyc,
                 construct='bilform_matrix: pool consumer')
