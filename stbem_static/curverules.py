"""C18 -- curves and element/piece consistency (parametrization.py,
MeshParametrized)."""
import ast

from .absint import text, cond_dnf, fact_key
from .core import AnalysisError
from .stale import refine_call

P = 'src/parametrization.py'
M = 'src/mesh.py'


def check_polygon_ctor(prog, report):
    ci = prog.cls(P, 'PiecewisePolygon')
    fi = ci.methods['__init__']
    loop = [n for n in fi.node.body if isinstance(n, ast.For)]
    loop = [l for l in loop if any(
        isinstance(m, ast.Call) and text(m.func) == 'line'
        for m in ast.walk(l))]
    if len(loop) != 1:
        raise AnalysisError('%s: piece loop not found' % fi.where())
    l = loop[0]
    i = text(l.target)
    src = [text(s).replace(' ', '') for s in l.body]
    def has(code):
        want = ast.dump(ast.parse(code).body[0])
        return any(ast.dump(s) == want for s in l.body)
    ok = (has('a, b = vertices[%s], vertices[%s + 1]' % (i, i))
          and has('gamma, length = line(a, b, x_start=pw_start[%s])' % i)
          and 'pw_start.append(length+pw_start[%s])' % i in src
          and 'pw_gamma.append(gamma)' in src
          and text(l.iter).replace(' ', '') == 'range(len(vertices)-1)')
    init = [text(s).replace(' ', '') for s in fi.node.body]
    ok = ok and 'pw_start=[0]' in init and 'pw_gamma=[]' in init
    report.check(ok, 'R-pieces', 'PiecewisePolygon construction', fi.where(),
                 'piece i runs from vertex i to vertex i+1, is parametrised '
                 'with offset pw_start[i] and pw_start[i+1] = pw_start[i] + '
                 'side length: arc length, continuous at the break points',
                 construct='PiecewisePolygon: piece offsets')
    # a polygon declared closed repeats its first vertex exactly
    vpar, cpar = fi.params[1], fi.params[2]
    okx = False

    def exact_closure(test):
        t = text(test).replace(' ', '')
        return ('%s[0]' % vpar in t and '%s[-1]' % vpar in t and not any(
            isinstance(n, ast.Call) and text(n.func).split('.')[-1] in (
                'isclose', 'allclose') for n in ast.walk(test))) and (any(
                    isinstance(n, ast.Compare) and len(n.ops) == 1
                    and isinstance(n.ops[0], ast.Eq)
                    for n in ast.walk(test)) or 'array_equal(' in t)

    for n in fi.node.body:
        if isinstance(n, ast.If) and text(n.test) == cpar and not n.orelse:
            okx = okx or any(isinstance(m, ast.Assert) and exact_closure(
                m.test) for m in n.body)
        if isinstance(n, ast.Assert) and isinstance(
                n.test, ast.BoolOp) and isinstance(n.test.op, ast.Or) and \
                any(text(v).replace(' ', '') == 'not' + cpar
                    for v in n.test.values):
            okx = okx or exact_closure(n.test)
    report.check(okx, 'R-pieces', 'PiecewisePolygon exact closure',
                 fi.where(),
                 'when declared closed the vertex list must end in its first '
                 'vertex, compared exactly (the base class only compares '
                 'gamma(0) and gamma(L) up to a relative tolerance, and the '
                 'mesh glues x = 0 to x = L on the strength of the flag)',
                 construct='PiecewisePolygon: exact closure')
    # closedness flag of the shipped curves
    flags = {}
    for cname in ('UnitSquare', 'PiSquare', 'LShape', 'UnitInterval'):
        c2 = prog.cls(P, cname)
        ini = c2.methods['__init__']
        sup = [n for n in ast.walk(ini.node) if isinstance(n, ast.Call)
               and text(n.func) == 'super().__init__']
        kw = {k.arg: text(k.value) for k in sup[0].keywords} if sup else {}
        verts = kw.get('vertices', '')
        names = [v.strip() for v in verts.strip('[]').split(',')]
        closed_list = len(names) > 2 and names[0] == names[-1]
        flags[cname] = (kw.get('closed', 'True'), closed_list)
    ok = all(flags[c] == ('True', True) for c in ('UnitSquare', 'PiSquare',
                                                  'LShape')) and \
        flags['UnitInterval'] == ('False', False)
    report.check(ok, 'R-pieces', 'closed flags', P,
                 'the three polygons list their first vertex again at the '
                 'end and are declared closed; the unit interval is open: '
                 '%s' % flags, construct='curves: closed flags')
    base = prog.cls(P, 'PiecewiseParametrization').methods['__init__']
    a = {text(n.targets[0]): text(n.value).replace(' ', '')
         for n in base.node.body if isinstance(n, ast.Assign)}
    ok = a.get('self.gamma_length') == 'pw_start[-1]' and a.get(
        'self.closed') == 'closed' and a.get(
            'self.pw_start') == 'pw_start' and a.get(
                'self.pw_gamma') == 'pw_gamma'
    report.check(ok, 'R-pieces', 'PiecewiseParametrization attributes',
                 base.where(),
                 'gamma_length is the last break point; closed, pw_start, '
                 'pw_gamma stored as given',
                 construct='PiecewiseParametrization: attributes')


def check_eval(prog, report):
    fi = prog.func(P, 'PiecewiseParametrization.eval')
    fn = fi.node
    src = [text(s).replace(' ', '') for s in ast.walk(fn)
           if isinstance(s, ast.stmt)]
    single = any(s.startswith('iflen(self.pw_gamma)==1:') for s in src) and \
        'returnself.pw_gamma[0](x_hat)' in src
    loop = [n for n in fn.body if isinstance(n, ast.For)]
    ok = False
    if len(loop) == 1:
        i = text(loop[0].target)
        b = [text(s).replace(' ', '') for s in loop[0].body]
        ok = ('condlist.append((self.pw_start[%s]<=x_hat)&(x_hat<=self.'
              'pw_start[%s+1]))' % (i, i) in b
              and 'pw_eval.append(self.pw_gamma[%s](x_hat))' % i in b
              and text(loop[0].iter).replace(
                  ' ', '') == 'range(len(self.pw_gamma))')
    ret = 'returnnp.select(condlist,pw_eval)' in src
    # any other return that picks one piece for the whole argument must have
    # checked every entry of the argument
    for n in ast.walk(fn):
        if isinstance(n, ast.If):
            for m in n.body:
                if isinstance(m, ast.Return) and isinstance(
                        m.value, ast.Call) and isinstance(
                            m.value.func, ast.Subscript) and text(
                                m.value.func.value) == 'self.pw_gamma':
                    if text(n.test).replace(' ', '') == \
                            'len(self.pw_gamma)==1':
                        continue
                    whole = 'np.all(' in text(n.test) or '.all()' in text(
                        n.test)
                    report.check(
                        whole, 'R-pieces', 'eval single-piece shortcut',
                        fi.where(n),
                        'a shortcut that evaluates the whole argument '
                        'through one piece must test every entry of the '
                        'argument (np.all), not e.g. only the first and the '
                        'last; found `%s`' % text(n.test)[:70],
                        construct='PiecewiseParametrization.eval: shortcut '
                        'through one piece')
    report.check(single and ok and ret, 'R-pieces', 'eval piece selection',
                 fi.where(),
                 'evaluating the whole curve uses piece i on the closed '
                 'range [pw_start[i], pw_start[i+1]] (first match wins at a '
                 'break point, where consecutive pieces agree), a one-piece '
                 'curve evaluates its piece directly',
                 construct='PiecewiseParametrization.eval: piece selection')


def check_root_pieces(prog, report):
    fi = prog.func(M, 'MeshParametrized.__init__')
    fn = fi.node
    g = fi.params[1]
    # default grid and end-point asserts
    src = [text(s).replace(' ', '') for s in ast.walk(fn)
           if isinstance(s, ast.stmt)]
    okd = any(s.startswith('ifinitial_space_meshisNone:') and
              'initial_space_mesh=%s.pw_start' % g in s for s in src)
    oka = 'assertinitial_space_mesh[0]==0' in src and \
        'assertinitial_space_mesh[-1]==%s.pw_start[-1]' % g in src
    sup = [n for n in ast.walk(fn) if isinstance(n, ast.Call)
           and text(n.func) == 'super().__init__']
    kw = {k.arg: text(k.value) for k in sup[0].keywords} if sup else {}
    oks = kw.get('glue_space') == g + '.closed' and kw.get(
        'initial_space_mesh') == 'initial_space_mesh' and kw.get(
            'initial_time_mesh') == 'initial_time_mesh'
    report.check(okd and oka and oks, 'R-pieces', 'MeshParametrized grid',
                 fi.where(),
                 'default space grid = the break points; the grid starts at '
                 '0 and ends at the curve length; the mesh is glued iff the '
                 'curve is closed (default=%s asserts=%s super=%s)' %
                 (okd, oka, oks), construct='MeshParametrized: grid')
    # piece assignment loop
    okp = False
    for n in ast.walk(fn):
        if isinstance(n, ast.For) and text(n.iter) == 'self.roots' and any(
                isinstance(m, ast.For) for m in n.body) and not okp:
            e = text(n.target)
            for m in n.body:
                if isinstance(m, ast.For):
                    i = text(m.target)
                    iff = [s for s in m.body if isinstance(s, ast.If)]
                    if len(iff) != 1:
                        continue
                    want = cond_dnf(ast.parse(
                        '{g}.pw_start[{i}] <= {e}.vertices[0].x < '
                        '{g}.pw_start[{i} + 1]'.format(g=g, i=i, e=e),
                        mode='eval').body, {})
                    got = cond_dnf(iff[0].test, {})
                    norm = lambda d: sorted(
                        sorted(map(str, map(fact_key, c))) for c in d)
                    body = [text(s).replace(' ', '') for s in iff[0].body]
                    okp = norm(want) == norm(got) and body[:1] == [
                        '%s.gamma_space=%s.pw_gamma[%s]' % (e, g, i)]
            okp = okp and any(text(s).replace(' ', '') ==
                              'assert%s.gamma_space' % e for s in n.body)
    report.check(okp, 'R-pieces', 'root piece assignment', fi.where(),
                 'a root gets piece i iff pw_start[i] <= start < '
                 'pw_start[i+1] (half-open, so a root starting at a break '
                 'point belongs to the piece that begins there) and every '
                 'root gets one', construct='MeshParametrized: root piece')
    sg = 'self.gamma_space=%s' % g in src
    report.check(sg, 'R-pieces', 'mesh curve', fi.where(),
                 'the mesh remembers the curve it was built on',
                 construct='MeshParametrized: gamma_space')


def check_slabcount(prog, report):
    from .props.c05 import _int_eval
    fi = prog.func(M, 'MeshParametrized.__init__')
    guard = None

    def refines(m):
        return refine_call(m) or (isinstance(m, ast.Call) and isinstance(
            m.func, ast.Attribute) and m.func.attr in (
                'uniform_refine_space', 'uniform_refine', 'refine'))
    for n in fi.node.body:
        if isinstance(n, (ast.If, ast.While)) and 'self.glue_space' in \
                text(n.test) and any(refines(m) for m in ast.walk(n)):
            guard = n
    if guard is None:
        raise AnalysisError('%s: minimum-elements guard not found' %
                            fi.where())
    # every quantity that decides how much is refined must be per slab
    deciders = [guard.test] + [m.test for m in ast.walk(guard)
                               if isinstance(m, (ast.While, ast.If))
                               and m is not guard]
    dn = {text(m) for d in deciders for m in ast.walk(d)
          if isinstance(m, (ast.Attribute, ast.Name))}
    forb = sorted(x for x in dn if x in (
        'self.roots', 'initial_time_mesh', 'self.leaf_elements',
        'self.N_elements', 'self.vertices', 'N_t'))
    if forb:
        report.violation(
            'R-slabcount', 'guard depends on the slab size', fi.where(guard),
            'a quantity that decides how far the closed curve is '
            'pre-refined counts over all time slabs (%s); with several '
            'initial slabs a slab keeps fewer than three elements' % forb,
            construct='MeshParametrized: guard dependence')
        return
    t = guard.test
    if not (isinstance(t, ast.BoolOp) and isinstance(t.op, ast.And) and len(
            t.values) == 2):
        raise AnalysisError('%s: guard shape not recognised' %
                            fi.where(guard))
    cmp_ = [v for v in t.values if isinstance(v, ast.Compare)]
    if len(cmp_) != 1:
        raise AnalysisError('%s: guard comparison not found' %
                            fi.where(guard))
    cmp_ = cmp_[0]
    names = {text(m) for m in ast.walk(cmp_)
             if isinstance(m, (ast.Attribute, ast.Name))}
    forbidden = [x for x in names if x in (
        'self.roots', 'initial_time_mesh', 'self.leaf_elements',
        'self.N_elements', 'self.vertices', 'N_t')]
    dep_ok = not forbidden and 'initial_space_mesh' in names
    report.check(dep_ok, 'R-slabcount', 'guard depends on the slab size',
                 fi.where(guard),
                 'the quantity compared in the closed-curve guard depends '
                 'only on the number of space intervals per time slab, not '
                 'on the number of slabs (uses %s)' % sorted(
                     n for n in names if '.' in n or n.startswith('init')),
                 construct='MeshParametrized: guard dependence')
    if dep_ok:
        # fold the comparison for n_x = 1..6 space intervals
        class LenSub(ast.NodeTransformer):
            def __init__(s, nx):
                s.nx = nx

            def visit_Call(s, node):
                if text(node.func) == 'len' and text(
                        node.args[0]) == 'initial_space_mesh':
                    return ast.Constant(value=s.nx + 1)
                return node
        vals = {}
        import copy
        for nx in range(1, 7):
            c = LenSub(nx).visit(copy.deepcopy(cmp_))
            l = _int_eval(c.left, {})
            r = _int_eval(c.comparators[0], {})
            op = c.ops[0]
            vals[nx] = {ast.Lt: l < r, ast.LtE: l <= r, ast.Gt: l > r,
                        ast.GtE: l >= r, ast.Eq: l == r,
                        ast.NotEq: l != r}[type(op)]
        report.check(
            all(vals[nx] == (nx < 3) for nx in vals), 'R-slabcount',
            'guard threshold', fi.where(guard),
            'the guard fires exactly for fewer than three space intervals '
            'per slab (evaluated for 1..6 intervals: %s)' % vals,
            construct='MeshParametrized: guard threshold')
    passes = [n for n in guard.body if isinstance(n, ast.For) and any(
        refine_call(m) and refine_call(m)[0] == 1 for m in ast.walk(n))]
    alls = 0
    for n in passes:
        it = text(n.iter)
        if it == 'self.roots':
            alls += 1
        else:
            for s in guard.body:
                if isinstance(s, ast.Assign) and text(
                        s.targets[0]) == it and text(s.value) in (
                            'list(self.leaf_elements)', ):
                    alls += 1
    report.check(alls >= 2 and alls == len(passes), 'R-slabcount',
                 'guard body', fi.where(guard),
                 'every element is bisected in space in each of %d passes: '
                 'a slab of n_x >= 1 intervals ends with 2^%d n_x >= 3 '
                 'elements' % (alls, alls),
                 construct='MeshParametrized: guard passes')
    report.floor('R-slabcount', 3)



def check_closed_flag(prog, report):
    """R-glue: whether the ends of the parameter interval are identified is
    decided by the curve: PiecewisePolygon hands its `closed` argument to
    the base class, the base class stores it, the open interval asks for
    closed=False, and the mesh glues iff the curve says closed."""
    P_ = 'src/parametrization.py'
    base = prog.func(P_, 'PiecewiseParametrization.__init__')
    ok1 = 'closed' in base.params and any(
        isinstance(n, ast.Assign) and text(n.targets[0]) == 'self.closed'
        and text(n.value) == 'closed' for n in ast.walk(base.node))
    report.check(ok1, 'R-glue', 'PiecewiseParametrization stores closed',
                 base.where(), 'self.closed = closed',
                 construct='PiecewiseParametrization.__init__: closed')
    poly = prog.func(P_, 'PiecewisePolygon.__init__')
    sup = [n for n in ast.walk(poly.node) if isinstance(n, ast.Call)
           and isinstance(n.func, ast.Attribute) and n.func.attr == '__init__'
           and isinstance(n.func.value, ast.Call)
           and text(n.func.value.func) == 'super']
    ok2 = False
    if len(sup) == 1:
        kw = {k.arg: text(k.value) for k in sup[0].keywords}
        pos = [text(a) for a in sup[0].args]
        ok2 = kw.get('closed') == 'closed' or (len(pos) >= 3
                                               and pos[2] == 'closed')
    report.check(ok2, 'R-glue', 'PiecewisePolygon forwards closed',
                 poly.where(), 'super().__init__(..., closed=closed): an '
                 'open polygon must not fall back to the default closed=True',
                 construct='PiecewisePolygon.__init__: closed forwarded')
    mp_ = prog.func('src/mesh.py', 'MeshParametrized.__init__')
    sup = [n for n in ast.walk(mp_.node) if isinstance(n, ast.Call)
           and isinstance(n.func, ast.Attribute) and n.func.attr == '__init__'
           and isinstance(n.func.value, ast.Call)
           and text(n.func.value.func) == 'super']
    gs = mp_.params[1] if len(mp_.params) > 1 else 'gamma_space'
    ok3 = len(sup) == 1 and {k.arg: text(k.value) for k in
                             sup[0].keywords}.get('glue_space') == \
        gs + '.closed'
    report.check(ok3, 'R-glue', 'mesh glues iff the curve is closed',
                 mp_.where(), 'Mesh.__init__(glue_space=%s.closed, ...)' % gs,
                 construct='MeshParametrized.__init__: glue_space')
    ui = prog.cls(P_, 'UnitInterval').methods.get('__init__')
    ok4 = ui is not None and any(
        isinstance(n, ast.Call) and any(
            k.arg == 'closed' and text(k.value) == 'False'
            for k in n.keywords) for n in ast.walk(ui.node))
    report.check(ok4, 'R-glue', 'UnitInterval is open',
                 ui.where() if ui else P_, 'closed=False is passed on',
                 construct='UnitInterval.__init__: closed=False')
