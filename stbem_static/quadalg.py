"""E5 -- quadrature algebra (C15, C14, C08): point maps and weight factors of
the derived schemes are lifted to polynomials in the base coordinates and
compared with the measure they claim to represent."""
import ast
import itertools

import sympy as sp

from .absint import Walker, State, text, subst
from .core import AnalysisError
from .lift import Lifter

Q = 'src/quadrature.py'
U = sp.symbols('u0 u1 u2', positive=True)


# --------------------------------------------------------------------------
# symbolic arrays
# --------------------------------------------------------------------------
class Arr:
    """Elementwise array over the base nodes: poly(u) [* base weights]."""
    def __init__(self, poly, w=0):
        self.poly = sp.sympify(poly)
        self.w = w  # power of the base weight vector (0 or 1)

    def __repr__(self):
        return 'Arr(%s%s)' % (self.poly, '*w' if self.w else '')


class Stack:
    """Concatenation (hstack/tile) of K arrays."""
    def __init__(self, parts):
        self.parts = list(parts)


class Scheme:
    def __init__(self, dims, maps, weights, note=''):
        self.dims = dims
        self.maps = maps  # list of tuples of polys
        self.weights = weights  # list of polys (multipliers of base w)
        self.note = note


class CtorEval:
    """Evaluates the body of a derived-scheme constructor symbolically."""
    def __init__(self, fi, base_param, dims):
        self.fi = fi
        self.base = base_param
        self.dims = dims
        self.aliased_weights = []

    def ev(self, node, env):
        if isinstance(node, ast.Constant) and isinstance(
                node.value, (int, float)):
            v_ = node.value
            return sp.Integer(v_) if isinstance(v_, int) else \
                sp.Rational(str(v_))
        if isinstance(node, ast.Name):
            if node.id in env:
                return env[node.id]
            raise AnalysisError('%s: unknown name %s' %
                                (self.fi.where(node), node.id))
        if isinstance(node, ast.Subscript):
            t = text(node).replace(' ', '')
            for k in range(self.dims):
                if t == '%s.points[%d]' % (self.base, k):
                    return Arr(U[k])
            v = self.ev(node.value, env)
            if isinstance(v, list) and isinstance(node.slice, ast.Constant):
                return v[node.slice.value]
            if isinstance(v, list) and isinstance(node.slice, ast.Slice):
                def bound(b):
                    if b is None:
                        return None
                    if isinstance(b, ast.Constant) and isinstance(b.value,
                                                                  int):
                        return b.value
                    if isinstance(b, ast.UnaryOp) and isinstance(
                            b.op, ast.USub) and isinstance(
                                b.operand, ast.Constant):
                        return -b.operand.value
                    raise AnalysisError('%s: non-literal slice' %
                                        self.fi.where(node))
                sl = node.slice
                return v[slice(bound(sl.lower), bound(sl.upper),
                               bound(sl.step))]
        if isinstance(node, ast.Attribute):
            t = text(node)
            if t == self.base + '.weights':
                return Arr(1, 1)
            if t == self.base + '.points':
                return [Arr(U[k]) for k in range(self.dims)]
        if isinstance(node, ast.UnaryOp) and isinstance(node.op, ast.USub):
            return self.mul(-1, self.ev(node.operand, env))
        if isinstance(node, ast.BinOp):
            l, r = self.ev(node.left, env), self.ev(node.right, env)
            return self.binop(node.op, l, r, node)
        if isinstance(node, (ast.List, ast.Tuple)):
            return [self.ev(e, env) for e in node.elts]
        if isinstance(node, ast.Call):
            fn = text(node.func)
            if fn in ('np.array', 'np.asarray', 'np.vstack') and node.args:
                return self.ev(node.args[0], env)
            if fn == 'np.copy' and node.args:
                return self.ev(node.args[0], env)
            if fn == 'np.hstack' and node.args:
                items = self.ev(node.args[0], env)
                if all(isinstance(i, Arr) for i in items):
                    return Stack(items)
                if all(isinstance(i, Stack) for i in items):
                    return Stack([p for i in items for p in i.parts])
                if all(isinstance(i, list) for i in items):
                    # hstack of (dims x n) blocks -> per dim stack
                    d = len(items[0])
                    return [Stack([blk[k] for blk in items])
                            for k in range(d)]
            if fn == 'np.tile' and len(node.args) == 2:
                a = self.ev(node.args[0], env)
                k = node.args[1]
                kv = None
                if isinstance(k, ast.Constant) and isinstance(k.value, int):
                    kv = k.value
                elif isinstance(k, ast.Call) and text(
                        k.func) == 'len' and len(k.args) == 1:
                    lv = self.ev(k.args[0], env)
                    if isinstance(lv, list):
                        kv = len(lv)
                if isinstance(a, Arr) and kv is not None:
                    return Stack([a] * kv)
        raise AnalysisError('%s: cannot evaluate `%s` symbolically' %
                            (self.fi.where(node), text(node)[:60]))

    def mul(self, a, b):
        if isinstance(a, Stack):
            return Stack([self.mul(p, b) for p in a.parts])
        if isinstance(b, Stack):
            return Stack([self.mul(a, p) for p in b.parts])
        pa, wa = (a.poly, a.w) if isinstance(a, Arr) else (a, 0)
        pb, wb = (b.poly, b.w) if isinstance(b, Arr) else (b, 0)
        if not isinstance(a, Arr) and not isinstance(b, Arr):
            return sp.sympify(a) * sp.sympify(b)
        return Arr(pa * pb, wa + wb)

    def binop(self, op, l, r, node):
        if isinstance(op, ast.Mult):
            return self.mul(l, r)
        if isinstance(op, ast.Pow):
            if isinstance(l, Arr) and not isinstance(r, (Arr, Stack, list)):
                return Arr(l.poly**r, l.w * r)
            if not isinstance(l, (Arr, Stack, list)) and not isinstance(
                    r, (Arr, Stack, list)):
                return l**r
        if isinstance(op, (ast.Add, ast.Sub)):
            sg = 1 if isinstance(op, ast.Add) else -1
            if isinstance(l, (Stack, list)) or isinstance(r, (Stack, list)):
                raise AnalysisError('%s: sum of stacks' % self.fi.where(node))
            pl, wl = (l.poly, l.w) if isinstance(l, Arr) else (l, 0)
            pr, wr = (r.poly, r.w) if isinstance(r, Arr) else (r, 0)
            if isinstance(l, Arr) and isinstance(r, Arr) and wl != wr:
                raise AnalysisError('%s: inhomogeneous weight sum' %
                                    self.fi.where(node))
            if not isinstance(l, Arr) and not isinstance(r, Arr):
                return sp.sympify(l) + sg * sp.sympify(r)
            return Arr(pl + sg * pr, max(wl, wr))
        if isinstance(op, ast.Div):
            if not isinstance(r, (Arr, Stack, list)):
                return self.mul(l, 1 / sp.sympify(r))
            if isinstance(r, Arr) and isinstance(l, Arr):
                return Arr(l.poly / r.poly, l.w - r.w)
        raise AnalysisError('%s: cannot evaluate operator in `%s`' %
                            (self.fi.where(node), text(node)[:60]))

    # ------------------------------------------------------------------
    def run(self, flags):
        """flags: {param: bool} for boolean constructor switches.
        Returns Scheme (maps and weight multipliers)."""
        env = {}
        out = {}

        def block(stmts):
            for st in stmts:
                if isinstance(st, ast.Assert) or (isinstance(
                        st, ast.Expr) and isinstance(st.value,
                                                     ast.Constant)):
                    continue
                if isinstance(st, ast.If):
                    t = text(st.test)
                    if t in flags:
                        block(st.body if flags[t] else st.orelse)
                        continue
                    if t.startswith('not ') and t[4:] in flags:
                        block(st.orelse if flags[t[4:]] else st.body)
                        continue
                    raise AnalysisError('%s: unrecognised branch `%s`' %
                                        (self.fi.where(st), t))
                if isinstance(st, ast.Assign) and len(
                        st.targets) == 1 and isinstance(
                            st.targets[0], ast.Name):
                    env[st.targets[0].id] = self.ev(st.value, env)
                    if text(st.value) == self.base + '.weights':
                        self.aliased_weights.append(st.targets[0].id)
                    continue
                if isinstance(st, ast.AugAssign) and isinstance(
                        st.target, ast.Name):
                    cur = env.get(st.target.id)
                    val = self.ev(st.value, env)
                    env[st.target.id] = self.binop(st.op, cur, val, st)
                    out.setdefault('inplace', []).append(st)
                    continue
                if isinstance(st, ast.Expr) and isinstance(
                        st.value, ast.Call) and text(
                            st.value.func) == 'super().__init__':
                    kw = {k.arg: k.value for k in st.value.keywords}
                    args = list(st.value.args)
                    p = kw.get('points', args[0] if args else None)
                    w = kw.get('weights', args[1] if len(args) > 1 else None)
                    out['points'] = self.ev(p, env)
                    out['weights'] = self.ev(w, env)
                    continue
                raise AnalysisError('%s: unrecognised statement `%s`' %
                                    (self.fi.where(st), text(st)[:60]))

        block(self.fi.node.body)
        if 'points' not in out:
            raise AnalysisError('%s: super().__init__ call not found' %
                                self.fi.where())
        pts, wts = out['points'], out['weights']
        if not isinstance(pts, list) or len(pts) != self.dims:
            raise AnalysisError('%s: points do not have %d coordinates' %
                                (self.fi.where(), self.dims))
        coords = []
        for p in pts:
            coords.append(p.parts if isinstance(p, Stack) else [p])
        K = len(coords[0])
        if any(len(c) != K for c in coords):
            raise AnalysisError('%s: coordinates stack different numbers of '
                                'maps' % self.fi.where())
        wparts = wts.parts if isinstance(wts, Stack) else [wts]
        sch = Scheme(self.dims, [tuple(c[k].poly for c in coords)
                                 for k in range(K)], wparts)
        sch.point_w = [tuple(c[k].w for c in coords) for k in range(K)]
        sch.inplace = out.get('inplace', [])
        return sch


def integrate_cube(poly, dims):
    e = sp.expand(poly)
    for k in range(dims):
        e = sp.integrate(e, (U[k], 0, 1))
    return sp.simplify(e)


def monomials(dims, maxdeg):
    X = sp.symbols('X0:%d' % dims)
    for d in range(maxdeg + 1):
        for exps in itertools.product(range(d + 1), repeat=dims):
            if sum(exps) == d:
                yield exps


def check_duffy(prog, report, cls, base_param, dims, flags_list, maxdeg,
                expect_K, jac_expect):
    """R-jac, R-pushforward, R-degree for one Duffy-type constructor."""
    ci = prog.cls(Q, cls)
    fi = ci.methods['__init__']
    for flags, symmetric in flags_list:
        ce = CtorEval(fi, base_param, dims)
        sch = ce.run(flags)
        tag = cls + ('' if not flags else '[%s]' % ','.join(
            '%s=%s' % kv for kv in sorted(flags.items())))
        K = len(sch.maps)
        where = fi.where()
        # no in-place mutation of the base scheme's arrays
        bad = [st for st in sch.inplace
               if isinstance(st.target, ast.Name)
               and st.target.id in ce.aliased_weights]
        report.check(
            not bad, 'R-nomutate', tag, where,
            'the constructor must not update in place an array that '
            'aliases the base scheme\'s weights (the base rule is shared '
            'by other schemes)%s' % (
                ': `%s`' % text(bad[0]) if bad else ''),
            construct=cls + ': in-place update of base weights')
        okw = len(sch.weights) == K and all(
            isinstance(w, Arr) and w.w == 1 for w in sch.weights) and all(
                all(x == 0 for x in pw) for pw in sch.point_w)
        report.check(okw and K == expect_K[symmetric], 'R-jac',
                     tag + ' shape', where,
                     '%d point maps with one weight block each (weights '
                     'linear in the base weights, points free of them); '
                     'found %d maps' % (expect_K[symmetric], K),
                     construct=cls + ': number of maps / weight blocks')
        if not okw:
            continue
        us = U[:dims]
        factor = 2 if symmetric else 1
        for k, (T, w) in enumerate(zip(sch.maps, sch.weights)):
            J = sp.Matrix([[sp.diff(c, u) for u in us] for c in T])
            det = sp.factor(J.det())
            mult = sp.factor(w.poly / factor)
            ok = sp.simplify(det**2 - mult**2) == 0
            report.check(
                ok, 'R-jac', '%s map %d' % (tag, k + 1), where,
                '|det DT| = %s must equal the weight multiplier %s%s' %
                (sp.factor(sp.Abs(det)) if False else sp.factor(det),
                 mult, ' (after the symmetry factor 2)' if symmetric
                 else ''),
                construct='%s: Jacobian of map %d' % (cls, k + 1))
        # push-forward of Lebesgue measure: all monomial moments
        X = sp.symbols('X0:%d' % dims)
        nbad = 0
        first_bad = None
        nmom = 0
        for exps in monomials(dims, maxdeg):
            mono = lambda pt: sp.Mul(*[pt[i]**exps[i] for i in range(dims)])
            if symmetric:
                # symmetric in the first two variables
                sw = list(range(dims))
                sw[0], sw[1] = 1, 0
                mono_s = lambda pt: (mono(pt) + sp.Mul(
                    *[pt[sw[i]]**exps[i] for i in range(dims)])) / 2
                f = mono_s
            else:
                f = mono
            total = 0
            for T, w in zip(sch.maps, sch.weights):
                total += integrate_cube(f(T) * w.poly, dims)
            exact = sp.Rational(1)
            for e in exps:
                exact = exact / (e + 1)
            nmom += 1
            if sp.simplify(total - exact) != 0:
                nbad += 1
                if first_bad is None:
                    first_bad = (exps, total, exact)
        report.check(
            nbad == 0, 'R-pushforward', tag, where,
            'sum over the maps of the push-forward of J du equals Lebesgue '
            'measure on the cube: %d monomial moments up to total degree %d '
            'compared exactly%s' %
            (nmom, maxdeg, '' if nbad == 0 else
             '; first mismatch x^%s: %s != %s' % first_bad),
            construct=cls + ': push-forward moments')
        report.extra['moments_compared'] = report.extra.get(
            'moments_compared', 0) + nmom
        # degree count
        loss = dims - 1
        okdeg = True
        worst = None
        for d in range(0, 7):
            mx = 0
            for exps in monomials(dims, d):
                if sum(exps) != d:
                    continue
                for T, w in zip(sch.maps, sch.weights):
                    p = sp.Poly(sp.expand(sp.Mul(
                        *[T[i]**exps[i] for i in range(dims)]) * w.poly),
                        *us)
                    mx = max(mx, max(max(m) for m in p.monoms()))
            if mx > d + loss:
                okdeg = False
                worst = (d, mx)
        report.check(
            okdeg, 'R-degree', tag, where,
            'a monomial of total degree d is turned into a polynomial of '
            'per-variable degree <= d+%d, so a base rule exact to degree D '
            'gives exactness to total degree D-%d%s' %
            (loss, loss, '' if okdeg else '; degree %d gives %d' % worst),
            construct=cls + ': degree count')


# --------------------------------------------------------------------------
# R-affine
# --------------------------------------------------------------------------
def check_affine(prog, report):
    for cls, dims in (('QuadScheme1D', 1), ('QuadScheme2D', 2),
                      ('QuadScheme3D', 3)):
        ci = prog.cls(Q, cls)
        fi = ci.methods['integrate']
        params = fi.params[2:]  # self, f, bounds...
        if len(params) != 2 * dims:
            raise AnalysisError('%s: %d bounds expected' %
                                (fi.where(), 2 * dims))
        bsyms = {p: sp.Symbol(p, real=True) for p in params}
        P = sp.symbols('P0:%d' % dims)
        W, F = sp.symbols('W F')
        captured = {}

        class W_(Walker):
            split_paths = True

            def __init__(s):
                super().__init__()
                s.rets = []

            def on_return(s, st, state):
                s.rets.append((state.sub(st.value), state.copy(), st))

        w = W_()
        w.walk_function(fi.node)
        main = [r for r in w.rets if not (isinstance(
            r[0], ast.Constant) and r[0].value == 0)]
        # an early zero return may only cover the exactly degenerate box
        for n_ in ast.walk(fi.node):
            if isinstance(n_, ast.If) and any(
                    isinstance(m_, ast.Return) and isinstance(
                        m_.value, ast.Constant) and m_.value.value == 0
                    for m_ in n_.body):
                t_ = n_.test
                exact = isinstance(t_, ast.Compare) and len(
                    t_.ops) == 1 and isinstance(t_.ops[0], ast.Eq) and {
                        text(t_.left), text(t_.comparators[0])} <= set(
                            params)
                report.check(
                    exact, 'R-affine', '%s.integrate degenerate guard' % cls,
                    fi.where(n_),
                    'an early `return 0` is only correct for an exactly '
                    'degenerate interval (a == b); a tolerance test treats '
                    'short admissible intervals as empty; found `%s`' %
                    text(t_), construct='%s.integrate: degenerate guard' %
                    cls)
        if len(main) != 1:
            raise AnalysisError('%s: one value return expected' % fi.where())
        val, state, st = main[0]

        def hook(L, node):
            fn = text(node.func)
            if fn in ('np.dot', 'numpy.dot') and len(node.args) == 2:
                a, b = node.args
                if text(b) == 'self.weights':
                    return L.lift(a) * W
                if text(a) == 'self.weights':
                    return L.lift(b) * W
            if fn == 'f' and len(node.args) == 1:
                arg = node.args[0]
                if isinstance(arg, ast.Call) and text(
                        arg.func) in ('np.array', 'np.asarray'):
                    arg = arg.args[0]
                if isinstance(arg, (ast.List, ast.Tuple)):
                    captured['x'] = [L.lift(e) for e in arg.elts]
                else:
                    captured['x'] = [L.lift(arg)]
                return F
            return None

        def names(t):
            if t == 'self.points' and dims == 1:
                return P[0]
            for k in range(dims):
                if t.replace(' ', '') == 'self.points[%d]' % k:
                    return P[k]
            return None
        L = Lifter(fi.module, dict(bsyms), call_hook=hook, name_hook=names)
        e = L.lift(val)
        xs = captured.get('x')
        if xs is None or len(xs) != dims:
            raise AnalysisError('%s: argument of f not recognised' %
                                fi.where())
        pre = sp.Integer(1)
        for k in range(dims):
            lo, hi = bsyms[params[2 * k]], bsyms[params[2 * k + 1]]
            ok = sp.expand(xs[k] - (lo + (hi - lo) * P[k])) == 0
            report.check(
                ok, 'R-affine', '%s.integrate coordinate %d' % (cls, k),
                fi.where(st),
                'coordinate %d of the nodes is mapped with the %d-th pair of '
                'bounds: %s + (%s - %s) * points[%d]; found %s' %
                (k, k + 1, lo, hi, lo, k, xs[k]),
                construct='%s.integrate: map of coordinate %d' % (cls, k))
            pre *= (hi - lo)
        okp = sp.expand(e - pre * F * W) == 0
        report.check(okp, 'R-affine', '%s.integrate prefactor' % cls,
                     fi.where(st),
                     'the result is (product of the %d side lengths) * '
                     'sum_i w_i f(x_i); found %s' % (dims, sp.factor(e)),
                     construct='%s.integrate: prefactor' % cls)
    report.floor('R-affine', 10)


# --------------------------------------------------------------------------
# R-mirror (including cached back links)
# --------------------------------------------------------------------------
MIRROR_COORD = {'mirror': 0, 'mirror_x': 0, 'mirror_y': 1, 'mirror_z': 2}


def check_immutable_rules(prog, report):
    """R-nomutate, program wide: the node and weight arrays of a quadrature
    scheme are never written after construction -- schemes hand their
    arrays on to derived schemes (mirrors, products, Duffy maps) and cache
    them, so an in-place write changes rules that look untouched."""
    bad = []
    n = 0
    for rel, m in sorted(prog.modules.items()):
        for qual, fi in m.funcs.items():
            fn = fi.node
            if not isinstance(fn, (ast.FunctionDef, ast.AsyncFunctionDef)):
                continue
            n += 1
            alias = set()
            for st in ast.walk(fn):
                if isinstance(st, ast.Assign) and len(st.targets) == 1 and \
                        isinstance(st.targets[0], ast.Name) and isinstance(
                            st.value, ast.Attribute) and st.value.attr in (
                                'points', 'weights'):
                    alias.add(st.targets[0].id)

            def arr(e):
                """does e denote the points/weights array of an object
                (or a view into it)?"""
                while isinstance(e, ast.Subscript):
                    e = e.value
                if isinstance(e, ast.Attribute) and e.attr in ('points',
                                                               'weights'):
                    own_init = qual.endswith('.__init__') and isinstance(
                        e.value, ast.Name) and e.value.id == 'self'
                    return not own_init
                return isinstance(e, ast.Name) and e.id in alias
            for st in ast.walk(fn):
                hit = None
                if isinstance(st, ast.Assign):
                    for t in st.targets:
                        if isinstance(t, ast.Subscript) and arr(t):
                            hit = t
                elif isinstance(st, ast.AugAssign) and arr(st.target):
                    hit = st.target
                elif isinstance(st, ast.Call) and isinstance(
                        st.func, ast.Attribute) and st.func.attr in (
                            'fill', 'sort', 'resize', 'itemset', 'put',
                            'partition') and arr(st.func.value):
                    hit = st.func.value
                if hit is not None:
                    bad.append((fi, st, text(hit)))
    for fi, st, what in bad:
        report.violation(
            'R-nomutate', '%s writes `%s` in place' % (fi.qualname,
                                                       what[:40]),
            fi.where(st),
            'the node / weight array of a scheme is written after '
            'construction; the array may be shared with the scheme it was '
            'derived from and with cached mirrors',
            construct='%s: in-place write to scheme arrays' % fi.qualname)
    if not bad:
        report.ok('R-nomutate', 'scheme arrays are never written in place',
                  'all modules', '%d functions scanned for subscript / '
                  'augmented stores and in-place methods on `.points` / '
                  '`.weights` (and local aliases)' % n)


def check_scheme_ctor(prog, report):
    """R-layout (constructors of the plain schemes): nodes and weights are
    stored as the arrays they are given, each converted on its own -- a
    dtype taken from the other array (or an integer dtype) truncates nodes
    of rules whose weights happen to be written as integers."""
    for cls in ('QuadScheme1D', 'QuadScheme2D', 'QuadScheme3D'):
        ci = prog.cls(Q, cls)
        fi = ci.methods['__init__']
        got = {}
        for st in fi.node.body:
            if isinstance(st, ast.Assign) and len(st.targets) == 1 and \
                    text(st.targets[0]) in ('self.points', 'self.weights'):
                got[text(st.targets[0])[5:]] = st.value
        ok = set(got) == {'points', 'weights'}
        why = 'both arrays assigned' if ok else 'assignment missing'
        for name, v in got.items():
            good = isinstance(v, ast.Call) and text(v.func) in (
                'np.array', 'np.asarray', 'numpy.array',
                'numpy.asarray') and len(v.args) == 1 and text(
                    v.args[0]) == name
            if good:
                for kw in v.keywords:
                    if kw.arg == 'dtype' and text(kw.value) not in (
                            'float', 'np.float64', 'np.double',
                            'numpy.float64'):
                        good = False
                    elif kw.arg not in ('dtype', 'copy'):
                        good = False
            if not good:
                ok = False
                why = '`self.%s = %s`' % (name, text(v)[:50])
        report.check(ok, 'R-layout', cls + ' stores its arrays',
                     fi.where(), 'self.points = np.array(points), '
                     'self.weights = np.array(weights), each converted '
                     'independently (at most dtype=float): ' + why,
                     construct=cls + '.__init__: array storage')


def check_mirrors(prog, report):
    check_immutable_rules(prog, report)
    check_scheme_ctor(prog, report)
    n = 0
    for cls, dims in (('QuadScheme1D', 1), ('QuadScheme2D', 2),
                      ('QuadScheme3D', 3)):
        ci = prog.cls(Q, cls)
        P = sp.symbols('P0:%d' % dims)
        attr_coord = {}
        for mname, k in MIRROR_COORD.items():
            if mname in ci.methods:
                attr_coord['_' + mname] = k
        init = ci.methods['__init__']
        inits = {text(s.targets[0]): text(s.value) for s in init.node.body
                 if isinstance(s, ast.Assign)}
        for mname, k in MIRROR_COORD.items():
            if mname not in ci.methods:
                continue
            if k >= dims:
                raise AnalysisError('%s.%s in a %d-D scheme' %
                                    (cls, mname, dims))
            fi = ci.methods[mname]
            attr = '_' + mname
            n += 1
            report.check(
                inits.get('self.' + attr) == 'None', 'R-mirror',
                '%s.%s cache starts empty' % (cls, mname), init.where(),
                'the cached mirror is initialised to None in __init__',
                construct='%s: init of %s' % (cls, attr))

            def pts_of(node, who):
                """symbolic points of an expression denoting a scheme"""
                t = text(node)
                if t == 'self':
                    return list(P)
                if t.startswith('self._mirror') and t[5:] in attr_coord:
                    kk = attr_coord[t[5:]]
                    q = list(P)
                    q[kk] = 1 - q[kk]
                    return q
                if isinstance(node, ast.Call) and text(node.func) == cls:
                    args = list(node.args)
                    kw = {x.arg: x.value for x in node.keywords}
                    p = kw.get('points', args[0] if args else None)
                    wv = kw.get('weights', args[1] if len(args) > 1 else
                                None)
                    if wv is None or text(wv) != 'self.weights':
                        return 'weights'

                    def nh(tt):
                        if dims == 1 and tt == 'self.points':
                            return P[0]
                        for j in range(dims):
                            if tt.replace(' ', '') == 'self.points[%d]' % j:
                                return P[j]
                        return None
                    L = Lifter(fi.module, name_hook=nh)
                    if dims == 1:
                        return [L.lift(p)]
                    if not isinstance(p, (ast.List, ast.Tuple)) or len(
                            p.elts) != dims:
                        return None
                    return [L.lift(e) for e in p.elts]
                return None

            stores = 0
            for node in ast.walk(fi.node):
                if not (isinstance(node, ast.Assign) and isinstance(
                        node.targets[0], ast.Attribute)
                        and node.targets[0].attr in attr_coord):
                    continue
                tgt = node.targets[0]
                owner = pts_of(tgt.value, 'owner')
                val = pts_of(node.value, 'value')
                kk = attr_coord[tgt.attr]
                stores += 1
                if owner is None or val is None:
                    raise AnalysisError('%s: unrecognised mirror store `%s`'
                                        % (fi.where(node), text(node)[:60]))
                if val == 'weights':
                    ok, detail = False, 'weights are not self.weights'
                else:
                    want = list(owner)
                    want[kk] = 1 - want[kk]
                    ok = all(sp.expand(a - b) == 0
                             for a, b in zip(val, want))
                    detail = 'stored points %s, required %s' % (val, want)
                report.check(
                    ok, 'R-mirror', '%s.%s store `%s`' %
                    (cls, mname, text(tgt)), fi.where(node),
                    'whatever is stored as %s of a scheme must be that '
                    'scheme with exactly coordinate %d replaced by 1-p and '
                    'the same weights; %s' % (tgt.attr, kk, detail),
                    construct='%s.%s: store to %s' % (cls, mname,
                                                      text(tgt)))
            rets = [x for x in ast.walk(fi.node) if isinstance(x, ast.Return)]
            okr = stores >= 1 and len(rets) == 1 and text(
                rets[0].value) == 'self.' + attr
            # the fill is guarded by `is None`
            guards = [x for x in fi.node.body if isinstance(x, ast.If)]
            okg = len(guards) == 1 and text(guards[0].test).replace(
                ' ', '') == 'self.%sisNone' % attr
            report.check(okr and okg, 'R-mirror',
                         '%s.%s returns its cache' % (cls, mname),
                         fi.where(),
                         'the method fills self.%s when it is None and '
                         'returns it' % attr,
                         construct='%s.%s: return' % (cls, mname))
    report.floor('R-mirror', 18)


# --------------------------------------------------------------------------
# R-layout
# --------------------------------------------------------------------------
def check_layout(prog, report):
    ci = prog.cls(Q, 'ProductScheme2D')
    fi = ci.methods['__init__']
    src = {text(s.targets[0]): s.value for s in ast.walk(fi.node)
           if isinstance(s, ast.Assign) and len(s.targets) == 1}
    pts = src.get('points')
    wts = src.get('weights')
    ok = False
    detail = ''
    if isinstance(pts, ast.Call) and pts.args and isinstance(
            pts.args[0], (ast.List, ast.Tuple)) and len(
                pts.args[0].elts) == 2:
        r, t = pts.args[0].elts
        rt, tt = text(r).replace(' ', ''), text(t).replace(' ', '')
        ok_r = rt in ('np.repeat(scheme_x.points,len(scheme_y.points))',
                      'np.repeat(scheme_x.points,len(scheme_y.weights))')
        ok_t = tt in ('np.tile(scheme_y.points,len(scheme_x.points))',
                      'np.tile(scheme_y.points,len(scheme_x.weights))')
        ok_w = text(wts).replace(' ', '') == \
            'np.kron(scheme_x.weights,scheme_y.weights)'
        ok = ok_r and ok_t and ok_w
        detail = 'repeat=%s tile=%s kron=%s' % (ok_r, ok_t, ok_w)
    report.check(ok, 'R-layout', 'ProductScheme2D', fi.where(),
                 'flat index f <-> (i, j) = (f // ny, f mod ny) for points[0] '
                 '= x[i] (repeat x, ny times each), points[1] = y[j] (tile '
                 'y, nx times) and weights = wx[i]*wy[j] (kron(wx, wy)); '
                 + detail, construct='ProductScheme2D: tensor layout')
    ci = prog.cls(Q, 'ProductScheme3D')
    fi = ci.methods['__init__']
    src = {text(s.targets[0]): s.value for s in ast.walk(fi.node)
           if isinstance(s, ast.Assign) and len(s.targets) == 1}
    okxy = False
    pxy = src.get('points_xy')
    if isinstance(pxy, ast.Call) and pxy.args and isinstance(
            pxy.args[0], (ast.List, ast.Tuple)) and len(
                pxy.args[0].elts) == 2:
        r, t = (text(e).replace(' ', '') for e in pxy.args[0].elts)
        okxy = r == 'np.repeat(scheme_x.points,len(scheme_y.points))' and \
            t == 'np.tile(scheme_y.points,len(scheme_x.points))'
    p3 = src.get('points')
    ok3 = False
    if isinstance(p3, ast.Call) and text(p3.func) == 'np.vstack' and \
            isinstance(p3.args[0], (ast.List, ast.Tuple)) and len(
                p3.args[0].elts) == 2:
        r, t = (text(e).replace(' ', '') for e in p3.args[0].elts)
        ok3 = r == 'np.repeat(points_xy,len(scheme_z.points),axis=1)' and \
            t == 'np.tile(scheme_z.points,points_xy.shape[1])'
    okw = text(src.get('weights')).replace(' ', '') == \
        'np.kron(np.kron(scheme_x.weights,scheme_y.weights),' \
        'scheme_z.weights)'
    report.check(okxy and ok3 and okw, 'R-layout', 'ProductScheme3D',
                 fi.where(),
                 'flat index f <-> (i, j, k) = ((f // nz) // ny, (f // nz) '
                 'mod ny, f mod nz) shared by the three coordinates and the '
                 'weights (xy=%s z=%s w=%s)' % (okxy, ok3, okw),
                 construct='ProductScheme3D: tensor layout')
    report.floor('R-layout', 2)
