"""E8 -- effects: process pools, module globals, the disk cache (C17, C09)."""
import ast
import re

from .absint import text
from .core import AnalysisError
from .indexing import globals_map, bind_call, loop_bindings

SL = 'src/single_layer.py'
IP = 'src/initial_potential.py'
EE = 'src/error_estimator.py'
M = 'src/mesh.py'
HI = 'src/hierarchical_error_estimator.py'
P = 'src/parametrization.py'

ORDERED = ('map', 'imap', 'starmap')
UNORDERED = ('imap_unordered', 'apply_async', 'map_async', 'starmap_async',
             'apply')

DISPATCHERS = [
    (SL, 'SingleLayerOperator.bilform_matrix'),
    (IP, 'InitialOperator.linform_vector'),
    (EE, 'ErrorEstimator.estimate_weighted_l2'),
    (EE, 'ErrorEstimator.estimate_sobolev'),
]


def pool_calls(fnode):
    """-> list of (call node, method, pool expr, worker name, args)"""
    out = []
    for n in ast.walk(fnode):
        if isinstance(n, ast.Call) and isinstance(
                n.func, ast.Attribute) and n.func.attr in ORDERED + UNORDERED:
            recv = n.func.value
            if n.args and isinstance(n.args[0], ast.Name):
                out.append((n, n.func.attr, recv, n.args[0].id, n.args[1:]))
    return out


def _pool_creation(fnode, recv):
    """The mp.Pool(...) call that creates the pool `recv` refers to, or
    None when the pool object comes from elsewhere (attribute, parameter)."""
    def is_pool_ctor(c):
        return isinstance(c, ast.Call) and text(c.func) in (
            'mp.Pool', 'multiprocessing.Pool', 'Pool', 'mp.pool.Pool')
    if is_pool_ctor(recv):
        return recv
    if isinstance(recv, ast.Name):
        for n in ast.walk(fnode):
            if isinstance(n, ast.With):
                for it in n.items:
                    if it.optional_vars is not None and text(
                            it.optional_vars) == recv.id and is_pool_ctor(
                                it.context_expr):
                        return it.context_expr
            if isinstance(n, ast.Assign) and text(
                    n.targets[0]) == recv.id and is_pool_ctor(n.value):
                return n.value
    return None


def worker_globals(wnode):
    names = []
    for n in ast.walk(wnode):
        if isinstance(n, ast.Global):
            names += n.names
    return names


def check_pools(prog, report, only=None):
    n_sites = 0
    for file, q in DISPATCHERS:
        if only is not None and file not in only:
            continue
        fi = prog.func(file, q)
        fn = fi.node
        short = q.split('.')[-1]
        gm = globals_map(fn)
        calls = pool_calls(fn)
        if not calls:
            raise AnalysisError('%s: no pool dispatch found' % fi.where())
        for call, meth, recv, wname, args in calls:
            n_sites += 1
            where = fi.where(call)
            report.check(
                meth in ORDERED, 'R-ordered',
                '%s %s(%s)' % (short, meth, wname), where,
                'results consumed positionally must come from an '
                'order-preserving pool method (map/imap), not %s' % meth,
                construct='%s: pool method for %s' % (short, wname))
            # chunk size >= 1
            if len(args) >= 2:
                cs = args[1]
                okcs = isinstance(cs, ast.BinOp) and isinstance(
                    cs.op, ast.Add) and isinstance(
                        cs.left, ast.BinOp) and isinstance(
                            cs.left.op, ast.FloorDiv) and isinstance(
                                cs.right, ast.Constant) and \
                    cs.right.value >= 1
                okcs = okcs or (isinstance(cs, ast.Constant) and isinstance(
                    cs.value, int) and cs.value >= 1)
                report.check(okcs, 'R-ordered',
                             '%s chunk size for %s' % (short, wname), where,
                             'chunk size `%s` is q // d + 1 >= 1' % text(cs),
                             construct='%s: chunk size' % short)
            # hand-over of globals before the pool is created, in this call
            if wname not in fi.module.funcs:
                raise AnalysisError('%s: worker %s not found' %
                                    (where, wname))
            wk = fi.module.funcs[wname]
            need = worker_globals(wk.node)
            ctor = _pool_creation(fn, recv)
            report.check(
                ctor is not None, 'R-handover',
                '%s pool for %s is created per call' % (short, wname),
                where,
                'forked workers copy the module globals when the pool is '
                'created; the pool must be created inside this call (after '
                'the globals are set), not kept from an earlier call',
                construct='%s: pool creation for %s' % (short, wname))
            for g in need:
                ok = g in gm and (ctor is None or gm[g][1] < ctor.lineno)
                report.check(
                    ok, 'R-handover',
                    '%s hands %s to %s' % (short, g, wname), where,
                    'every name the worker reads through `global` is '
                    'written through globals()[%r] before the pool is '
                    'created (set: %s)' %
                    (g, {k: v[1] for k, v in gm.items()}),
                    construct='%s: global %s for %s' % (short, g, wname))
            # range of the task indices
            if args:
                rng = args[0]
                okr = isinstance(rng, ast.Call) and text(
                    rng.func) == 'range' and len(rng.args) == 1
                report.check(okr, 'R-ordered',
                             '%s task range for %s' % (short, wname), where,
                             'tasks are range(n) in order',
                             construct='%s: task range' % short)
    report.floor('R-ordered', 10)
    report.floor('R-handover', 12)
    return n_sites


# --------------------------------------------------------------------------
def check_samecall(prog, report):
    """serial path and worker evaluate the same method with the same
    arguments per entry (linform_vector; estimators)."""
    # linform_vector
    fi = prog.func(IP, 'InitialOperator.linform_vector')
    fn = fi.node
    gm = {k: v[0] for k, v in globals_map(fn).items()}
    serial = None
    for n in ast.walk(fn):
        if isinstance(n, ast.For) and any(
                isinstance(m, ast.Call) and isinstance(
                    m.func, ast.Attribute) and m.func.attr == 'linform'
                for m in ast.walk(n)):
            serial = n
    ok_s = False
    if serial is not None and isinstance(serial.iter, ast.Call) and text(
            serial.iter.func) == 'enumerate' and isinstance(
                serial.target, ast.Tuple):
        j, e = (text(x) for x in serial.target.elts)
        lst = text(serial.iter.args[0])
        for s in serial.body:
            if isinstance(s, ast.Assign) and isinstance(
                    s.value, ast.Call) and text(
                        s.value.func) == 'self.linform' and text(
                            s.value.args[0]) == e:
                t = s.targets[0]
                # vec[j], _ = ...   or   vec[j] = ...[0]
                if isinstance(t, ast.Tuple) and text(
                        t.elts[0]).replace(' ', '') == 'vec[%s]' % j:
                    ok_s = lst == 'elems'
    wk = prog.func(IP, 'MP_M0_val')
    ret = [n for n in ast.walk(wk.node) if isinstance(n, ast.Return)]
    ok_w = False
    if len(ret) == 1:
        v = text(ret[0].value).replace(' ', '')
        arg = wk.params[0]
        m = re.fullmatch(r'(\w+)\.linform\((\w+)\[%s\]\)\[0\]' % arg, v)
        if m:
            ok_w = gm.get(m.group(1)) == 'self' and gm.get(
                m.group(2)) == 'elems'
    rng_ok = False
    for call, meth, recv, wname, args in pool_calls(fn):
        if wname == 'MP_M0_val' and args:
            sizes = {text(n.targets[0]): text(n.value) for n in ast.walk(fn)
                     if isinstance(n, ast.Assign) and isinstance(
                         n.value, ast.Call) and text(n.value.func) == 'len'}
            a = text(args[0].args[0]) if isinstance(
                args[0], ast.Call) and args[0].args else ''
            rng_ok = sizes.get(a, a) in ('len(elems)', )
    report.check(ok_s and ok_w and rng_ok, 'R-samecall',
                 'linform_vector serial vs pool', fi.where(),
                 'both paths store component 0 of self.linform(elems[j]) at '
                 'position j for j in range(len(elems)) '
                 '(serial=%s worker=%s range=%s)' % (ok_s, ok_w, rng_ok),
                 construct='linform_vector: serial/pool agreement')
    # estimators: serial comprehension vs worker
    fi = prog.func(EE, 'ErrorEstimator.estimate_sobolev')
    gm = {k: v[0] for k, v in globals_map(fi.node).items()}
    for meth, wname in (('sobolev_time', 'MP_estim_sobolev_time'),
                        ('sobolev_space', 'MP_estim_sobolev_space')):
        serial = [n for n in ast.walk(fi.node) if isinstance(n, ast.Call)
                  and text(n.func) == 'self.' + meth]
        wk = prog.func(EE, wname)
        wcalls = [n for n in ast.walk(wk.node) if isinstance(n, ast.Call)
                  and isinstance(n.func, ast.Attribute)
                  and n.func.attr == meth]
        ok = len(serial) == 1 and len(wcalls) == 1
        if ok:
            s, w = serial[0], wcalls[0]
            skw = {k.arg: text(k.value) for k in s.keywords}
            wkw = {k.arg: text(k.value) for k in w.keywords}
            sa = [text(a) for a in s.args]
            wa = [text(a) for a in w.args]
            arg = wk.params[0]
            # map worker args through the globals
            def back(t):
                m = re.fullmatch(r'(\w+)\[%s\]' % arg, t)
                if m:
                    return 'ELEM(%s)' % gm.get(m.group(1))
                return gm.get(t, t)
            wa2 = [back(t) for t in wa]
            sa2 = ['ELEM(elems)' if t == 'elem' else t for t in sa]
            ok = skw == wkw and sa2 == wa2 and gm.get(text(
                w.func.value)) == 'self'
        report.check(ok, 'R-samecall', 'estimate_sobolev %s' % meth,
                     fi.where(),
                     'the serial comprehension and %s call %s with the same '
                     'element, residual and nbrs_symmetry flag' %
                     (wname, meth),
                     construct='estimate_sobolev: %s agreement' % meth)
    fi = prog.func(EE, 'ErrorEstimator.estimate_weighted_l2')
    gm = {k: v[0] for k, v in globals_map(fi.node).items()}
    serial = [n for n in ast.walk(fi.node) if isinstance(n, ast.Call)
              and text(n.func) == 'self.weighted_l2']
    wk = prog.func(EE, 'MP_estim_l2')
    wcalls = [n for n in ast.walk(wk.node) if isinstance(n, ast.Call)
              and isinstance(n.func, ast.Attribute)
              and n.func.attr == 'weighted_l2']
    ok = len(serial) == 1 and len(wcalls) == 1
    if ok:
        arg = wk.params[0]
        wa = [text(a) for a in wcalls[0].args]
        ok = [text(a) for a in serial[0].args] == ['elem', 'residual'] and \
            len(wa) == 2 and gm.get(wa[1]) == 'residual' and re.fullmatch(
                r'(\w+)\[%s\]' % arg, wa[0]) is not None and gm.get(
                    wa[0].split('[')[0]) == 'elems'
    report.check(ok, 'R-samecall', 'estimate_weighted_l2', fi.where(),
                 'serial and worker call weighted_l2(elem, residual)',
                 construct='estimate_weighted_l2: agreement')
    report.floor('R-samecall', 4)


# --------------------------------------------------------------------------
CACHE_SITES = [
    (SL, 'SingleLayerOperator.bilform_matrix', 'self.mesh.gamma_space',
     ('elems_test', 'elems_trial')),
    (IP, 'InitialOperator.linform_vector', 'self.bdr_mesh.gamma_space',
     ('elems', )),
]
# the two indicator caches of the estimator (consulted by C09 only)
EE_CACHE_SITES = [
    (EE, 'ErrorEstimator.estimate_weighted_l2', 'self.bdr_mesh.gamma_space',
     ('elems', )),
    (EE, 'ErrorEstimator.estimate_sobolev', 'self.bdr_mesh.gamma_space',
     ('elems', )),
]


def check_cache(prog, report, estimator=False):
    sites = EE_CACHE_SITES if estimator else CACHE_SITES
    for file, q, curve, lists in sites:
        fi = prog.func(file, q)
        fn = fi.node
        short = q.split('.')[-1]
        # key = hashlib.md5((...).encode()).hexdigest()
        key = None
        for n in ast.walk(fn):
            if isinstance(n, ast.Call) and text(n.func) == 'hashlib.md5':
                key = n
        if key is None:
            raise AnalysisError('%s: cache key (hashlib.md5) not found' %
                                fi.where())
        kt = text(key).replace(' ', '')
        for what in (curve, ) + lists:
            report.check(
                'str(%s)' % what in kt or '{%s}' % what in kt,
                'R-cachekey', '%s key depends on %s' % (short, what),
                fi.where(key),
                'the digest input must depend on the curve and on every '
                'element list of the request (found `%s`)' % text(key)[:90],
                construct='%s: key dependence on %s' % (short, what))
        # the key reaches the file name
        keyname = None
        for n in ast.walk(fn):
            if isinstance(n, ast.Assign) and any(
                    m is key for m in ast.walk(n.value)):
                keyname = text(n.targets[0])
        fname = None
        for n in ast.walk(fn):
            if isinstance(n, ast.Assign) and keyname and any(
                    isinstance(m, ast.Name) and m.id == keyname
                    for m in ast.walk(n.value)) and text(
                        n.targets[0]) != keyname and fname is None:
                fname = text(n.targets[0])
        loads = [n for n in ast.walk(fn) if isinstance(n, ast.Call)
                 and text(n.func) == 'np.load']
        saves = [n for n in ast.walk(fn) if isinstance(n, ast.Call)
                 and text(n.func) == 'np.save']
        okf = fname is not None and all(
            text(c.args[0]) == fname or (estimator and text(
                c.args[0]).startswith(fname + '.format('))
            for c in loads + saves) and loads and saves
        report.check(okf, 'R-cachekey', '%s file name carries the key' %
                     short, fi.where(),
                     'load and save use the file name built from the digest',
                     construct='%s: file name' % short)
        # whatever else the result depends on must be in the file name:
        # the load vector depends on the initial datum, identified by
        # self.problem
        if short == 'linform_vector':
            fn_asg = [n for n in ast.walk(fn) if isinstance(n, ast.Assign)
                      and fname and text(n.targets[0]) == fname]
            okp = len(fn_asg) == 1 and any(
                text(m) == 'self.problem' for m in ast.walk(fn_asg[0].value))
            report.check(
                okp, 'R-cachekey', 'linform_vector file name carries the '
                'problem', fi.where(),
                'the cached vector depends on the initial datum u0; the '
                'only identifier of u0 is self.problem, which must be part '
                'of the cache file name (two problems on one domain share '
                'the cache directory in the driver)',
                construct='linform_vector: problem in the file name')
        # I/O discipline (the operators' caches; the estimator stores its
        # indicators without a guard, which is not part of any property)
        for c in ([] if estimator else loads):
            tr = _enclosing_try(fn, c)
            ok = tr is not None and all(
                not any(isinstance(m, (ast.Return, ast.Raise))
                        for s in h.body for m in ast.walk(s))
                for h in tr.handlers) and all(h.type is None or text(
                    h.type) in ('Exception', 'BaseException')
                    for h in tr.handlers)
            hit = tr is not None and any(
                isinstance(s, ast.Return) for s in tr.body)
            report.check(
                ok and hit, 'R-cacheio', '%s load' % short, fi.where(c),
                'np.load sits in a try whose handler swallows every error '
                'and falls through to recomputation; a hit returns at once',
                construct='%s: cache load discipline' % short)
        for c in ([] if estimator else saves):
            tr = _enclosing_try(fn, c)
            ok = tr is not None and all(
                not any(isinstance(m, (ast.Return, ast.Raise))
                        for s in h.body for m in ast.walk(s))
                for h in tr.handlers)
            report.check(ok, 'R-cacheio', '%s save' % short, fi.where(c),
                         'np.save is best effort (inside try, handler does '
                         'not change the result)',
                         construct='%s: cache save discipline' % short)
        # the returned object after a miss is the computed one
        rets = [n for n in ast.walk(fn) if isinstance(n, ast.Return)]
        last = fn.body[-1]
        okret = isinstance(last, ast.Return) and all(
            text(c.args[1]) == text(last.value) for c in saves)
        report.check(okret, 'R-cacheio', '%s returns what it stored' % short,
                     fi.where(last),
                     'the value stored is the value returned',
                     construct='%s: stored == returned' % short)
    # small inline path of bilform_matrix does not touch the cache
    if not estimator:
        fi = prog.func(SL, 'SingleLayerOperator.bilform_matrix')
        small = None
        for s in fi.node.body:
            if isinstance(s, ast.If) and 'N*M<' in text(s.test).replace(
                    ' ', ''):
                small = s
        ok = small is not None and isinstance(
            small.body[-1], ast.Return) and not any(
                isinstance(m, ast.Call) and text(m.func) in ('np.load',
                                                             'np.save')
                for s in small.body for m in ast.walk(s))
        first_cache = min([n.lineno for n in ast.walk(fi.node)
                           if isinstance(n, ast.Call)
                           and text(n.func) == 'np.load'] or [10**9])
        ok = ok and small.lineno < first_cache
        report.check(ok, 'R-cacheio', 'bilform_matrix inline path',
                     fi.where(),
                     'the small-size path returns before any cache access',
                     construct='bilform_matrix: inline path')
    # reprs
    for file, cls in ((M, 'Element'), (HI, 'DummyElement')):
        ci = prog.cls(file, cls)
        rp = ci.methods.get('__repr__')
        ok = False
        detail = 'no __repr__'
        if rp is not None:
            ret = [n for n in ast.walk(rp.node) if isinstance(n, ast.Return)]
            if len(ret) == 1:
                ok, detail = _lossless_repr(ret[0].value,
                                            ('self.time_interval',
                                             'self.space_interval'))
        report.check(ok, 'R-cachekey', '%s.__repr__' % cls, ci.module.rel,
                     'the element repr that feeds the digest prints both '
                     'intervals with round-trip float formatting (%s)' %
                     detail, construct='%s.__repr__: lossless' % cls)
    # curve reprs distinct
    mod = prog.module(P)
    names = {}
    for cname, ci in mod.classes.items():
        rp = ci.methods.get('__repr__')
        if rp is None:
            continue
        ret = [n for n in ast.walk(rp.node) if isinstance(n, ast.Return)]
        if len(ret) == 1 and isinstance(ret[0].value, ast.Constant):
            names[cname] = ret[0].value.value
    closed = [c for c in mod.classes if c in ('Circle', 'UnitSquare',
                                              'PiSquare', 'LShape')]
    ok = all(c in names for c in closed) and len(
        set(names[c] for c in closed if c in names)) == len(closed)
    report.check(ok, 'R-cachekey', 'curve reprs distinct', P,
                 'every shipped closed curve has a constant repr distinct '
                 'from the others: %s' % names,
                 construct='curve reprs')
    if estimator:
        report.floor('R-cachekey', 8)
        report.floor('R-cacheio', 2)
    else:
        report.floor('R-cachekey', 9)
        report.floor('R-cacheio', 7)


def _lossless_repr(node, need):
    """`"...{}...{}".format(a, b)` / f-string without format specs."""
    if isinstance(node, ast.Call) and isinstance(
            node.func, ast.Attribute) and node.func.attr == 'format' and \
            isinstance(node.func.value, ast.Constant) and isinstance(
                node.func.value.value, str):
        fmt = node.func.value.value
        fields = re.findall(r'\{([^{}]*)\}', fmt)
        args = [text(a) for a in node.args]
        if any(f not in ('', ) and not f.isdigit() for f in fields):
            return False, 'format spec in %r' % fmt
        if len(fields) != len(args):
            return False, 'field/argument mismatch'
        if not all(n in args for n in need):
            return False, 'arguments %s' % args
        return True, 'format %r' % fmt
    if isinstance(node, ast.JoinedStr):
        vals = [v for v in node.values if isinstance(v, ast.FormattedValue)]
        if any(v.format_spec is not None for v in vals):
            return False, 'format spec in f-string'
        args = [text(v.value) for v in vals]
        if not all(n in args for n in need):
            return False, 'arguments %s' % args
        return True, 'f-string'
    return False, 'unrecognised repr construction `%s`' % text(node)[:50]


def _enclosing_try(fnode, target):
    best = None
    for n in ast.walk(fnode):
        if isinstance(n, ast.Try):
            if any(m is target for s in n.body for m in ast.walk(s)):
                best = n
    return best


def check_reductions(prog, report):
    """Reductions over collections whose iteration order is not fixed by
    the program (a `set` of freshly built objects iterates in address
    order) must be order independent: math.fsum is correctly rounded, the
    builtin sum / np.sum are not associative in floating point."""
    fi = prog.func(IP, 'InitialOperator.linform')
    # is leaf_elements of the domain mesh a set?
    im = prog.func('src/initial_mesh.py', 'InitialMesh.__init__')
    is_set = any(isinstance(n, ast.Assign) and text(
        n.targets[0]) == 'self.leaf_elements' and text(
            n.value).replace(' ', '') == 'set()' for n in ast.walk(im.node))
    loops = [n for n in fi.node.body if isinstance(n, ast.For)]
    over_set = len(loops) == 1 and text(loops[0].iter).endswith(
        '.leaf_elements')
    ret = [n for n in fi.node.body if isinstance(n, ast.Return)]
    red = None
    if len(ret) == 1 and isinstance(ret[0].value, ast.Tuple):
        red = ret[0].value.elts[0]
    fn = text(red.func) if isinstance(red, ast.Call) else None
    ok = fn in ('math.fsum', 'fsum') or not (is_set and over_set)
    report.check(ok, 'R-determinism', 'linform reduction', fi.where(),
                 'the cell contributions are collected while iterating a '
                 'set (address order: differs between the parent process '
                 'and forked workers); their sum must be order independent '
                 '(math.fsum); found `%s`' % fn,
                 construct='linform: reduction over a set')


# --------------------------------------------------------------------------
# R-memo: evaluation routines that write object state
# --------------------------------------------------------------------------
EVALUATORS = [
    ('src/norms.py', 'Slobodeckij.seminorm_h_1_4'),
    ('src/norms.py', 'Slobodeckij.seminorm_h_1_2'),
    ('src/norms.py', 'Slobodeckij.seminorm_h_1_2_pw'),
    ('src/quadrature.py', 'QuadScheme1D.integrate'),
    ('src/quadrature.py', 'QuadScheme2D.integrate'),
    ('src/quadrature.py', 'QuadScheme3D.integrate'),
    (SL, 'SingleLayerOperator.bilform'),
    (SL, 'SingleLayerOperator.__integrate'),
    (SL, 'SingleLayerOperator.evaluate'),
    (SL, 'SingleLayerOperator.evaluate_exact'),
    (SL, 'SingleLayerOperator.potential'),
    (IP, 'InitialOperator.linform'),
    (IP, 'InitialOperator.evaluate'),
    (EE, 'ErrorEstimator.weighted_l2'),
    (EE, 'ErrorEstimator.sobolev_space'),
    (EE, 'ErrorEstimator.sobolev_time'),
    (EE, 'ErrorEstimator.__integrate_h_1_2'),
    (EE, 'ErrorEstimator.__integrate_h_1_4'),
    ('src/initial_mesh.py', 'InitialMesh.vertex_from_coords'),
    ('src/mesh.py', 'Prolongate'),
]


def _dict_memo_store(node, attr):
    """self.<attr>[key] = value"""
    return isinstance(node, ast.Assign) and len(node.targets) == 1 and \
        isinstance(node.targets[0], ast.Subscript) and text(
            node.targets[0].value) == 'self.' + attr


def _key_parts(k):
    return list(k.elts) if isinstance(k, ast.Tuple) else [k]


def _check_dict_memo(prog, report, fi, q, attr, node):
    """A memo kept in a dictionary on the object.  (1) every lookup uses
    the key the value is stored under; (2) the key identifies every
    argument the value depends on: the argument itself, or its glob_idx
    (then the uniqueness of indices over the mesh history becomes an
    obligation of this property), never id() of an object the memo does not
    keep alive, and not a mere attribute of it."""
    from .flow import own_nodes
    from . import meshrules
    store_key = node.targets[0].slice
    where = fi.where(node)
    D = 'self.' + attr
    lookups = []
    for m in own_nodes(fi.node):
        if isinstance(m, ast.Call) and isinstance(
                m.func, ast.Attribute) and m.func.attr == 'get' and text(
                    m.func.value) == D and m.args:
            lookups.append(m.args[0])
        elif isinstance(m, ast.Compare) and len(m.ops) == 1 and isinstance(
                m.ops[0], (ast.In, ast.NotIn)) and text(
                    m.comparators[0]) == D:
            lookups.append(m.left)
        elif isinstance(m, ast.Subscript) and isinstance(
                m.ctx, ast.Load) and text(m.value) == D:
            lookups.append(m.slice)
    env = {}
    for st in own_nodes(fi.node):
        if isinstance(st, ast.Assign) and len(st.targets) == 1 and \
                isinstance(st.targets[0], ast.Name):
            env.setdefault(st.targets[0].id, st.value)

    def norm(k):
        from .absint import subst
        return ast.dump(ast.Tuple(elts=[subst(x, env)
                                        for x in _key_parts(k)],
                                  ctx=ast.Load()))
    if not lookups:
        raise AnalysisError('%s: memo %s is written but never looked up '
                            'in this routine' % (where, D))
    bad = [text(k) for k in lookups if norm(k) != norm(store_key)]
    report.check(
        not bad, 'R-memo', '%s memo %s lookup key' % (q, D), where,
        'the value is stored under `%s`; every lookup must use the same '
        'key (found %s): otherwise a value computed for other arguments is '
        'returned' % (text(store_key), bad or 'the same key'),
        construct='%s: memo %s looked up under another key' % (q, D))
    params = [p_ for p_ in fi.params if p_ != 'self']
    from .absint import subst
    parts = [subst(x, env) for x in _key_parts(store_key)]
    need_unique = False
    for p_ in params:
        # how does the key speak about parameter p_?
        modes = set()
        for part in parts:
            for m in ast.walk(part):
                if isinstance(m, ast.Name) and m.id == p_:
                    modes.add('attr')
            if isinstance(part, ast.Name) and part.id == p_:
                modes.add('self')
            if isinstance(part, ast.Attribute) and isinstance(
                    part.value, ast.Name) and part.value.id == p_ and \
                    part.attr == 'glob_idx':
                modes.add('index')
            if isinstance(part, ast.Call) and text(part.func) == 'id' and \
                    part.args and text(part.args[0]) == p_:
                modes.add('id')
        # does the stored value depend on p_ at all?
        # does the stored value depend on p_ at all? (temporaries inlined)
        full = {}
        for st in own_nodes(fi.node):
            if isinstance(st, ast.Assign) and len(st.targets) == 1 and \
                    isinstance(st.targets[0], ast.Name):
                full[st.targets[0].id] = st.value
        seen_, todo_ = set(), [node.value]
        used = False
        while todo_:
            e_ = todo_.pop()
            for m in ast.walk(e_):
                if isinstance(m, ast.Name):
                    if m.id == p_:
                        used = True
                    elif m.id in full and m.id not in seen_:
                        seen_.add(m.id)
                        todo_.append(full[m.id])
        if not used:
            continue
        if 'id' in modes:
            report.violation(
                'R-memo', '%s memo %s keyed on id(%s)' % (q, D, p_), where,
                'id() of an object that the memo does not keep alive is '
                'reused by later objects: the memo answers for a dead '
                'argument', construct='%s: memo %s keyed on id()' % (q, D))
        elif 'self' in modes:
            report.ok('R-memo', '%s memo %s identifies %s' % (q, D, p_),
                      where, 'the argument itself is part of the key')
        elif 'index' in modes:
            need_unique = True
            report.ok('R-memo', '%s memo %s identifies %s by glob_idx' %
                      (q, D, p_), where,
                      'sound iff an index is never handed out twice over '
                      'the history of the mesh (checked below)')
        else:
            report.violation(
                'R-memo', '%s memo %s does not identify %s' % (q, D, p_),
                where, 'the stored value depends on the argument `%s` but '
                'the key `%s` %s: a later call with another %s is answered '
                'from the memo' % (p_, text(store_key),
                                   'only mentions some of its attributes'
                                   if 'attr' in modes else
                                   'does not mention it', p_),
                construct='%s: memo %s key misses %s' % (q, D, p_))
    if need_unique:
        meshrules.check_leafbook(prog, report)
    # the value may also depend on state of the object itself
    reads = set()
    for m in own_nodes(fi.node):
        if isinstance(m, ast.Attribute) and isinstance(
                m.ctx, ast.Load) and text(m.value) == 'self' and \
                m.attr != attr and not m.attr.startswith('__'):
            reads.add(m.attr)
    cls = fi.cls
    stale = []
    if cls is not None and reads:
        for mname, mfi in cls.methods.items():
            if mfi is fi or mname == '__init__':
                continue
            writes = set()
            clears = False
            for m in ast.walk(mfi.node):
                if isinstance(m, ast.Attribute) and text(
                        m.value) == 'self':
                    par_store = isinstance(m.ctx, (ast.Store, ast.Del))
                    if par_store and m.attr in reads:
                        writes.add(m.attr)
                if isinstance(m, ast.Call) and isinstance(
                        m.func, ast.Attribute) and m.func.attr in (
                            'append', 'extend', 'insert', 'remove', 'pop',
                            'add', 'update', 'clear', 'setdefault') and \
                        isinstance(m.func.value, ast.Attribute) and text(
                            m.func.value.value) == 'self':
                    if m.func.value.attr in reads:
                        writes.add(m.func.value.attr)
                    if m.func.value.attr == attr and m.func.attr in (
                            'clear', 'pop'):
                        clears = True
                if isinstance(m, ast.Assign) and any(
                        text(t) == D for t in m.targets):
                    clears = True
                if isinstance(m, ast.Subscript) and isinstance(
                        m.ctx, ast.Store) and isinstance(
                            m.value, ast.Attribute) and text(
                                m.value.value) == 'self' and \
                        m.value.attr in reads:
                    writes.add(m.value.attr)
            if writes and not clears:
                stale.append((mname, sorted(writes)))
    report.check(
        not stale, 'R-memo', '%s memo %s invalidation' % (q, D), where,
        'the routine reads %s of the object; %s' % (
            sorted(reads) or 'no state',
            'every method that changes them resets the memo' if not stale
            else '%s changes %s without resetting the memo: an answer '
            'remembered before the change is returned after it' %
            (stale[0][0], stale[0][1])),
        construct='%s: memo %s not invalidated' % (q, D))


def check_global_memos(prog, report, files):
    """A module-level dictionary that functions write into is a memo that
    outlives every mesh, curve and operator of the process.  Its key must
    identify the objects the value was computed from: an object itself (or
    its glob_idx, with index uniqueness as an obligation); a key made of
    derived values only (lengths, type names, coordinates, sizes) is shared
    by different objects that happen to agree on them."""
    from . import meshrules
    n = 0
    for rel in sorted(files):
        m = prog.module(rel)
        dicts = {k for k, v in m.consts.items()
                 if isinstance(v, (ast.Dict, ast.Call)) and (
                     isinstance(v, ast.Dict) and not v.keys
                     or isinstance(v, ast.Call) and text(v.func) in (
                         'dict', 'OrderedDict', 'defaultdict')
                     and not v.args)}
        if not dicts:
            continue
        for q, fi in m.funcs.items():
            if not isinstance(fi.node, (ast.FunctionDef,
                                        ast.AsyncFunctionDef)):
                continue
            env = {}
            for st in ast.walk(fi.node):
                if isinstance(st, ast.Assign) and len(st.targets) == 1 and \
                        isinstance(st.targets[0], ast.Name):
                    env.setdefault(st.targets[0].id, st.value)
            for st in ast.walk(fi.node):
                if not (isinstance(st, ast.Assign) and len(st.targets) == 1
                        and isinstance(st.targets[0], ast.Subscript)
                        and isinstance(st.targets[0].value, ast.Name)
                        and st.targets[0].value.id in dicts):
                    continue
                if isinstance(st.targets[0].value, ast.Name) and isinstance(
                        st.targets[0].slice, ast.Constant):
                    continue
                n += 1
                D = st.targets[0].value.id
                from .absint import subst
                parts = [subst(x, env)
                         for x in _key_parts(st.targets[0].slice)]
                objects = [p_ for p_ in parts if isinstance(p_, ast.Name)
                           or (isinstance(p_, ast.Attribute)
                               and p_.attr == 'glob_idx')]
                if any(isinstance(p_, ast.Attribute) for p_ in objects):
                    meshrules.check_leafbook(prog, report)
                report.check(
                    bool(objects), 'R-memo', '%s memo %s' % (q, D),
                    fi.where(st),
                    'a module-level memo keyed on `%s`: %s' % (
                        text(st.targets[0].slice)[:60],
                        'identifies an object' if objects else
                        'derived values only -- another mesh / curve / '
                        'list that agrees on them is answered from the '
                        'memo'),
                    construct='%s: module-level memo %s keyed on derived '
                    'values' % (q, D))
    if n == 0:
        report.ok('R-memo', 'no module-level memo', ', '.join(sorted(files)),
                  'no function writes into a module-level dictionary (the '
                  'pool hand-over through globals() is covered by '
                  'R-handover)')


def check_memo(prog, report, files=None):
    """An evaluation routine that stores to `self` keeps a memo.  A memo of
    the recognised shape `self.A = (key, values...)` guarded by a comparison
    of `self.A[0]` with the key is checked for key completeness: every
    parameter / local the cached values depend on must be part of the key.
    Any other store to self inside an evaluator is outside the recognised
    idioms (ANALYSIS-ERROR)."""
    from .absint import subst
    from .flow import own_nodes
    n = 0
    for file, q in EVALUATORS:
        if files is not None and file not in files:
            continue
        fi = prog.func(file, q)
        n += 1
        stores = []
        for node in own_nodes(fi.node):
            tg = []
            if isinstance(node, ast.Assign):
                tg = node.targets
            elif isinstance(node, ast.AugAssign):
                tg = [node.target]
            for t in tg:
                base = t
                while isinstance(base, ast.Subscript):
                    base = base.value
                if isinstance(base, ast.Attribute) and text(
                        base.value) == 'self':
                    stores.append((base.attr, node))
        if not stores:
            report.ok('R-memo', q, fi.where(),
                      'the routine writes no object state: its result '
                      'depends on its arguments only')
            continue
        for attr, node in stores:
            if _dict_memo_store(node, attr):
                _check_dict_memo(prog, report, fi, q, attr, node)
                continue
            if not (isinstance(node, ast.Assign) and isinstance(
                    node.value, ast.Tuple) and len(node.value.elts) >= 2
                    and isinstance(node.targets[0], ast.Attribute)):
                raise AnalysisError(
                    '%s: evaluation routine writes self.%s in an '
                    'unrecognised way; history dependence cannot be '
                    'excluded' % (fi.where(node), attr))
            key = node.value.elts[0]
            key_names = {m.id for m in ast.walk(key)
                         if isinstance(m, ast.Name)}
            # guard: an enclosing `if` that tests self.attr / self.attr[0]
            guard = None
            for g in own_nodes(fi.node):
                if isinstance(g, ast.If) and any(
                        x is node for s_ in g.body for x in ast.walk(s_)) \
                        and 'self.' + attr in text(g.test):
                    guard = g
            if guard is None or text(key) not in text(guard.test):
                raise AnalysisError(
                    '%s: memo self.%s without a recognisable key test' %
                    (fi.where(node), attr))
            # dependencies of the cached values, key variables kept atomic
            env = {}
            for st in list(fi.node.body) + list(guard.body):
                if isinstance(st, ast.Assign) and len(
                        st.targets) == 1 and isinstance(
                            st.targets[0], ast.Name) and \
                        st.targets[0].id not in key_names:
                    env[st.targets[0].id] = subst(st.value, env)
            params = set(fi.params) - {'self'}
            missing = set()
            for v in node.value.elts[1:]:
                iv = subst(v, env)
                for m in ast.walk(iv):
                    if isinstance(m, ast.Name) and m.id in params and \
                            m.id not in key_names:
                        missing.add(m.id)
            # callables passed as parameters are applied, not cached: a
            # parameter that only occurs as the function of a call is fine
            report.check(
                not missing, 'R-memo', '%s memo self.%s' % (q, attr),
                fi.where(node),
                'the cached values depend on %s but the memo is keyed on '
                '`%s` only: a later call that differs in %s is answered '
                'from the cache' % (sorted(missing) or 'nothing else',
                                    text(key), sorted(missing) or '-'),
                construct='%s: memo key of self.%s' % (q, attr))
    return n
