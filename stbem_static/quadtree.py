"""C16 / C08 -- domain quadtree rules (initial_mesh.py) and the rank domain
for scalar contexts (R-scalar)."""
import ast
import re

from .absint import text, cond_dnf, fact_key
from .core import AnalysisError

IM = 'src/initial_mesh.py'
IP = 'src/initial_potential.py'

TOP = frozenset({0, 1, 2, 3})


def has_stmt(body, code):
    want = ast.dump(ast.parse(code).body[0])
    return any(ast.dump(s) == want for s in body)


def walk_stmts(fnode):
    for n in ast.walk(fnode):
        if isinstance(n, ast.stmt):
            yield n


# --------------------------------------------------------------------------
# R-scalar: rank domain
# --------------------------------------------------------------------------
ATTR_RANK = {'x': {0}, 'y': {0}, 't': {0}, 'xy_np': {2}, 'xy': {1},
             'diam': {0}, 'h_x': {0}, 'h_t': {0}, 'level': {0}, 'idx': {0}}
SCALAR_SINKS = ('isclose', 'math.isclose', 'float', 'int', 'math.sqrt',
                'math.exp', 'math.log', 'math.floor', 'math.ceil')
PUBLIC_PARAM_RANKS = {
    ('InitialMesh.refine_msh_bdr', 'v0'): {1, 2},
    ('InitialMesh.refine_msh_bdr', 'v1'): {1, 2},
    ('InitialMesh.vertex_from_coords', 'xy'): {1, 2},
}


def list_depth(node):
    if isinstance(node, (ast.List, ast.Tuple)):
        if not node.elts:
            return 1
        return 1 + max(list_depth(e) for e in node.elts)
    return 0


class RankEval:
    def __init__(self, fi, report, rule='R-scalar'):
        self.fi = fi
        self.report = report
        self.rule = rule
        self.env = {}
        self.hooks = {}
        self.n = 0
        for (q, p), r in PUBLIC_PARAM_RANKS.items():
            if q == fi.qualname:
                self.env[p] = set(r)

    ELEMENTWISE = ('erf', 'erfc', 'expi', 'exp1', 'np.exp', 'np.sqrt',
                   'np.sin', 'np.cos', 'np.log', 'np.abs', 'abs',
                   'np.real', 'np.squeeze_keep')

    def rank(self, e):
        """set of possible ranks, or None (unknown)"""
        if isinstance(e, ast.Constant):
            return {0} if isinstance(e.value, (int, float, complex)) \
                else None
        if isinstance(e, ast.Attribute) and text(e) in ('np.pi', 'math.pi'):
            return {0}
        if isinstance(e, ast.Attribute) and e.attr in ('real', 'imag', 'T'):
            return self.rank(e.value)
        if isinstance(e, ast.Call) and text(e.func) in self.hooks:
            return set(self.hooks[text(e.func)])
        if isinstance(e, ast.Call) and text(e.func) in self.ELEMENTWISE \
                and e.args:
            return self.rank(e.args[0])
        if isinstance(e, ast.Call) and text(e.func) == 'np.squeeze' and \
                e.args:
            r = self.rank(e.args[0])
            return {0} if r is not None else None
        if isinstance(e, ast.Name):
            return self.env.get(e.id)
        if isinstance(e, (ast.List, ast.Tuple)):
            return {list_depth(e)}
        if isinstance(e, ast.Attribute):
            if e.attr in ATTR_RANK:
                return set(ATTR_RANK[e.attr])
            return None
        if isinstance(e, ast.UnaryOp):
            return self.rank(e.operand)
        if isinstance(e, ast.BinOp):
            l, r = self.rank(e.left), self.rank(e.right)
            if l is None or r is None:
                return None
            return {max(a, b) for a in l for b in r}
        if isinstance(e, ast.Lambda):
            return None
        if isinstance(e, ast.Subscript):
            base = self.rank(e.value)
            if base is None:
                return None
            sl = e.slice
            idxs = sl.elts if isinstance(sl, ast.Tuple) else [sl]
            k = sum(0 if isinstance(i, ast.Slice) else 1 for i in idxs)
            return {max(0, b - k) for b in base}
        if isinstance(e, ast.Call):
            fn = text(e.func)
            if fn in ('np.array', 'np.asarray') and e.args:
                r = self.rank(e.args[0])
                return r
            if fn in ('abs', 'np.abs') and e.args:
                return self.rank(e.args[0])
            if fn in ('float', 'int', 'len', 'np.linalg.norm', 'np.dot',
                      'np.sum', 'max', 'min') and e.args:
                if fn in ('max', 'min'):
                    rs = [self.rank(a) for a in e.args]
                    if any(r is None for r in rs):
                        return None
                    return set().union(*rs)
                return {0}
            if isinstance(e.func, ast.Attribute):
                m = e.func.attr
                if m == 'reshape':
                    args = e.args
                    if len(args) == 1 and isinstance(args[0], ast.Tuple):
                        return {len(args[0].elts)}
                    return {len(args)}
                if m in ('flatten', 'ravel'):
                    return {1}
                if m == 'item':
                    return {0}
                if m == 'copy':
                    return self.rank(e.func.value)
            return None
        return None

    def assign(self, tgt, val):
        if isinstance(tgt, ast.Name):
            r = self.rank(val)
            if r is None:
                self.env.pop(tgt.id, None)
            else:
                self.env[tgt.id] = r
        elif isinstance(tgt, (ast.Tuple, ast.List)):
            if isinstance(val, (ast.Tuple, ast.List)) and len(
                    val.elts) == len(tgt.elts):
                # simultaneous assignment: evaluate all first
                rs = [self.rank(v) for v in val.elts]
                for t, r in zip(tgt.elts, rs):
                    if isinstance(t, ast.Name):
                        if r is None:
                            self.env.pop(t.id, None)
                        else:
                            self.env[t.id] = r
            else:
                for t in tgt.elts:
                    if isinstance(t, ast.Name):
                        self.env.pop(t.id, None)

    def sinks_in(self, st):
        exprs = []
        if isinstance(st, (ast.If, ast.While, ast.Assert)):
            exprs = [st.test]
        elif isinstance(st, (ast.Assign, ast.AugAssign, ast.Expr,
                             ast.Return)):
            exprs = [st.value] if st.value is not None else []
        for ex in exprs:
            for n in ast.walk(ex):
                if isinstance(n, ast.Call) and text(n.func) in SCALAR_SINKS:
                    args = n.args[:2] if 'isclose' in text(n.func) else \
                        n.args[:1]
                    for a in args:
                        r = self.rank(a)
                        self.n += 1
                        inst = '%s %s(`%s`)' % (self.fi.qualname,
                                                text(n.func), text(a)[:30])
                        if r is None:
                            self.report.note(
                                'R-scalar undetermined: %s at %s' %
                                (inst, self.fi.where(n)))
                            self.report.ok(self.rule + '-undetermined',
                                           inst, self.fi.where(n),
                                           'rank not determined')
                            continue
                        self.report.check(
                            r == {0}, self.rule, inst, self.fi.where(n),
                            'an argument of %s must be a scalar (rank 0): '
                            'NumPy >= 2 refuses to convert a 1-element '
                            'array of rank >= 1; possible ranks here %s' %
                            (text(n.func), sorted(r)),
                            construct='%s: %s on an array of rank %s' %
                            (self.fi.qualname, text(n.func), sorted(r)))

    def run(self, stmts):
        for st in stmts:
            self.sinks_in(st)
            if isinstance(st, ast.Assign):
                for t in st.targets:
                    self.assign(t, st.value)
            elif isinstance(st, ast.For):
                # loop variables: elements of unknown collections; tuple
                # targets over `.edges` are vertices
                for t in ast.walk(st.target):
                    if isinstance(t, ast.Name):
                        self.env.pop(t.id, None)
                self.run(st.body)
            elif isinstance(st, (ast.If, ast.While)):
                self.run(st.body)
                self.run(st.orelse)
            elif isinstance(st, (ast.With, ast.Try)):
                self.run(st.body)


def check_scalar(prog, report, files=(IM, IP)):
    n = 0
    for rel in files:
        m = prog.module(rel)
        for q, fi in m.funcs.items():
            if not isinstance(fi.node, ast.FunctionDef):
                continue
            src = text(fi.node)
            if not any(s in src for s in ('isclose(', 'float(', 'int(')):
                continue
            ev = RankEval(fi, report)
            ev.run(fi.node.body)
            n += ev.n
    if n < 8:
        raise AnalysisError('R-scalar: only %d scalar contexts found' % n)
    return n


# --------------------------------------------------------------------------
# quadtree structure
# --------------------------------------------------------------------------
def _appended_at_once(block, create, name, lst='self.vertices'):
    """idx = len(lst) is the position the vertex will have only if nothing
    is added to lst between its creation and `lst.append(name)`: the two
    statements sit in the same block and no statement between them calls a
    method of self or touches lst."""
    if create not in block:
        return False
    k = block.index(create)
    for st in block[k + 1:]:
        if text(st).replace(' ', '') == '%s.append(%s)' % (lst, name):
            return True
        for n in ast.walk(st):
            if isinstance(n, ast.Call) and text(n.func).startswith('self.'):
                return False
            if text(n) == lst and not isinstance(st, ast.Assert):
                return False
    return False


def check_quad_children(prog, report):
    fi = prog.func(IM, 'InitialMesh.refine')
    fn = fi.node
    # corner names
    unpack = None
    for s in fn.body:
        if isinstance(s, ast.Assign) and isinstance(
                s.targets[0], ast.Tuple) and text(
                    s.value) == fi.params[1] + '.vertices':
            unpack = [text(e) for e in s.targets[0].elts]
    if unpack is None or len(unpack) != 4:
        raise AnalysisError('%s: corner unpacking not found' % fi.where())
    pos = {unpack[0]: (0, 0), unpack[1]: (2, 0), unpack[2]: (2, 2),
           unpack[3]: (0, 2)}  # (x, y) ordinals
    mids = {}
    for s in fn.body:
        if isinstance(s, ast.Assign) and isinstance(
                s.value, ast.Call) and text(
                    s.value.func) == 'self.bisect_edge':
            a, b = (text(x) for x in s.value.args)
            if a not in pos or b not in pos:
                raise AnalysisError('%s: bisect of unknown vertices' %
                                    fi.where(s))
            pos[text(s.targets[0])] = ((pos[a][0] + pos[b][0]) // 2,
                                       (pos[a][1] + pos[b][1]) // 2)
            mids[text(s.targets[0])] = (a, b)
        if isinstance(s, ast.Assign) and isinstance(
                s.value, ast.Call) and text(s.value.func) == 'Vertex':
            kw = {k.arg: text(k.value).replace(' ', '')
                  for k in s.value.keywords}
            mx = re.fullmatch(r'\((\w+)\.x\+(\w+)\.x\)/2', kw.get('x', ''))
            my = re.fullmatch(r'\((\w+)\.y\+(\w+)\.y\)/2', kw.get('y', ''))
            okc = bool(mx and my) and {mx.group(1), mx.group(2)} == {
                my.group(1), my.group(2)} and all(
                    g in pos for g in (mx.group(1), mx.group(2)))
            if okc:
                a, b = mx.group(1), mx.group(2)
                pos[text(s.targets[0])] = ((pos[a][0] + pos[b][0]) // 2,
                                           (pos[a][1] + pos[b][1]) // 2)
            app = has_stmt(fn.body, 'self.vertices.append(%s)' %
                           text(s.targets[0])) and _appended_at_once(
                               fn.body, s, text(s.targets[0]))
            report.check(
                okc and kw.get('idx') == 'len(self.vertices)' and app,
                'R-quad-children', 'interior vertex', fi.where(s),
                'the centre is the midpoint of a diagonal, gets idx = '
                'len(vertices) and is appended at once',
                construct='InitialMesh.refine: interior vertex')
    # all four sides bisected, in edge orientation (a,b) of element.edges
    sides = sorted(tuple(v) for v in mids.values())
    want = sorted([(unpack[0], unpack[1]), (unpack[1], unpack[2]),
                   (unpack[2], unpack[3]), (unpack[3], unpack[0])])
    report.check(sides == want, 'R-quad-children', 'four sides bisected',
                 fi.where(),
                 'each directed side (v_i, v_i+1) is bisected once, in the '
                 'orientation under which the cell registered it (so the '
                 'reversed key finds the neighbour\'s midpoint); got %s' %
                 sides, construct='InitialMesh.refine: sides bisected')
    kids = None
    for s in fn.body:
        if isinstance(s, ast.Assign) and text(
                s.targets[0]) == 'children' and isinstance(s.value,
                                                           ast.List):
            kids = s
    if kids is None or len(kids.value.elts) != 4:
        raise AnalysisError('%s: four children expected' % fi.where())
    rects = []
    for i, c in enumerate(kids.value.elts):
        kw = {k.arg: k.value for k in c.keywords}
        vs = [text(e) for e in kw['vertices'].elts]
        if any(v not in pos for v in vs):
            raise AnalysisError('%s: unknown vertex in child' % fi.where(c))
        v = [pos[x] for x in vs]
        # Element asserts: v0.y==v1.y, v1.x==v2.x, v2.y==v3.y, v3.x==v0.x,
        # v0.x<v2.x, v0.y<v2.y, square
        ok = (v[0][1] == v[1][1] and v[1][0] == v[2][0]
              and v[2][1] == v[3][1] and v[3][0] == v[0][0]
              and v[0][0] < v[2][0] and v[0][1] < v[2][1]
              and v[2][0] - v[0][0] == v[2][1] - v[0][1])
        okp = text(kw.get('parent')) == fi.params[1]
        report.check(ok and okp, 'R-quad-children', 'child %d' % i,
                     fi.where(c),
                     'vertices counter-clockwise from the lower-left '
                     'corner of an axis-parallel square, parent = the '
                     'refined cell; got %s' % v,
                     construct='InitialMesh.refine: child orientation')
        rects.append((v[0][0], v[2][0], v[0][1], v[2][1]))
    tile = sorted(rects) == [(0, 1, 0, 1), (0, 1, 1, 2), (1, 2, 0, 1),
                             (1, 2, 1, 2)]
    report.check(tile, 'R-quad-children', 'children tile the parent',
                 fi.where(kids), 'the four children are the four quadrants; '
                 'got %s' % rects,
                 construct='InitialMesh.refine: tiling')
    # bookkeeping
    ok = (has_stmt(fn.body, 'self.elements.extend(children)')
          and has_stmt(fn.body, 'self.leaf_elements.remove(%s)' %
                       fi.params[1])
          and has_stmt(fn.body, 'self.leaf_elements.update(children)')
          and has_stmt(fn.body, 'return children'))
    report.check(ok, 'R-quad-book', 'leaf bookkeeping', fi.where(),
                 'the refined cell leaves the leaf set, its four children '
                 'enter it and are returned',
                 construct='InitialMesh.refine: leaf bookkeeping')
    reg = False
    for s in fn.body:
        if isinstance(s, ast.For) and text(s.iter) == 'children':
            c = text(s.target)
            for s2 in s.body:
                if isinstance(s2, ast.For) and text(
                        s2.iter) == c + '.edges':
                    reg = has_stmt(s2.body, 'self.nbrs[%s] = %s' %
                                   (text(s2.target), c))
    report.check(reg, 'R-register', 'children edges registered', fi.where(),
                 'all four directed edges of every child are entered in the '
                 'edge->cell map the balance closure reads',
                 construct='InitialMesh.refine: nbrs registration')
    report.floor('R-quad-children', 8)


def check_quad_bisect(prog, report):
    fi = prog.func(IM, 'InitialMesh.bisect_edge')
    fn = fi.node
    a, b = fi.params[1], fi.params[2]
    iff = [s for s in fn.body if isinstance(s, ast.If)]
    if len(iff) != 1:
        raise AnalysisError('%s: reuse branch not found' % fi.where())
    t = text(iff[0].test).replace(' ', '')
    d = [n for n in ast.walk(iff[0].test) if isinstance(n, ast.Attribute)]
    dname = text(d[0]) if d else 'self.__bisect_edge'
    okc = t == '(%s,%s)in%s' % (b, a, dname)
    okr = has_stmt(iff[0].body, 'new_vtx = %s[%s, %s]' % (dname, b, a)) or \
        has_stmt(iff[0].body, 'new_vtx = %s[(%s, %s)]' % (dname, b, a))
    report.check(okc and okr, 'R-vreuse', 'bisect_edge reuse', fi.where(iff[0]),
                 'the midpoint is reused iff the reversed edge (b, a) was '
                 'bisected before, and it is that edge\'s midpoint',
                 construct='InitialMesh.bisect_edge: reuse')
    new = [s for s in iff[0].orelse if isinstance(s, ast.Assign)
           and isinstance(s.value, ast.Call)
           and text(s.value.func) == 'Vertex']
    okn = False
    if len(new) == 1:
        kw = {k.arg: text(k.value).replace(' ', '')
              for k in new[0].value.keywords}
        okn = kw.get('x') == '(%s.x+%s.x)/2' % (a, b) and kw.get(
            'y') == '(%s.y+%s.y)/2' % (a, b) and kw.get(
                'idx') == 'len(self.vertices)' and has_stmt(
                    iff[0].orelse, 'self.vertices.append(new_vtx)') and \
            _appended_at_once(iff[0].orelse, new[0], 'new_vtx')
    report.check(okn, 'R-vreuse', 'bisect_edge fresh vertex',
                 fi.where(iff[0]),
                 'a fresh midpoint gets idx = len(vertices) and is appended',
                 construct='InitialMesh.bisect_edge: fresh vertex')
    okreg = (has_stmt(fn.body, '%s[%s, %s] = new_vtx' % (dname, a, b))
             and has_stmt(fn.body, 'self.parent_edge[%s, new_vtx] = '
                          '(%s, %s)' % (a, a, b))
             and has_stmt(fn.body, 'self.parent_edge[new_vtx, %s] = '
                          '(%s, %s)' % (b, a, b))
             and has_stmt(fn.body, 'return new_vtx'))
    report.check(okreg, 'R-register', 'bisect_edge registration', fi.where(),
                 'the midpoint is recorded under (a, b) and both halves '
                 '(a, m), (m, b) point to their parent edge (a, b)',
                 construct='InitialMesh.bisect_edge: registration')
    once = has_stmt(fn.body, 'assert not (%s, %s) in %s' % (a, b, dname)) \
        or has_stmt(fn.body, 'assert (%s, %s) not in %s' % (a, b, dname))
    report.check(once, 'R-vreuse', 'bisect_edge once', fi.where(),
                 'a directed edge is bisected at most once',
                 construct='InitialMesh.bisect_edge: once')


def check_quad_closure(prog, report):
    fi = prog.func(IM, 'InitialMesh.refine')
    fn = fi.node
    el = fi.params[1]
    first = [s for s in fn.body if not (isinstance(s, ast.Expr)
                                        and isinstance(s.value,
                                                       ast.Constant))]
    cl = first[0]
    ok = isinstance(cl, ast.For) and text(cl.iter) == el + '.edges' and \
        isinstance(cl.target, ast.Tuple)
    if not ok:
        report.violation('R-closure', 'quadtree closure scope', fi.where(cl),
                         'the balance closure must run over all four edges '
                         'before the first mutation',
                         construct='InitialMesh.refine: closure scope')
        return
    a, b = (text(x) for x in cl.target.elts)
    # expected nested structure
    want = ast.parse(
        'for {a}, {b} in {el}.edges:\n'
        '    if not ({b}, {a}) in self.nbrs:\n'
        '        if not ({a}, {b}) in self.parent_edge: continue\n'
        '        pa, pb = self.parent_edge[({a}, {b})]\n'
        '        if (pb, pa) in self.nbrs:\n'
        '            assert self.nbrs[(pb, pa)].level == {el}.level - 1\n'
        '            self.refine(self.nbrs[(pb, pa)])\n'.format(
            a=a, b=b, el=el)).body[0]
    same = ast.dump(want) == ast.dump(cl)
    if same:
        report.ok('R-closure', 'quadtree closure', fi.where(cl),
                  'for every edge without a same-level neighbour whose '
                  'parent edge has a neighbour: that (coarser by exactly '
                  'one level) neighbour is refined first')
        report.ok('R-closure', 'quadtree closure level', fi.where(cl),
                  'asserted level difference is exactly one')
        return
    # decompose: which part deviates
    txt = text(cl).replace(' ', '')
    parts = {
        'no same-level neighbour test':
        'ifnot({b},{a})inself.nbrs'.format(a=a, b=b),
        'root edge skip':
        'ifnot({a},{b})inself.parent_edge:\ncontinue'.format(a=a, b=b),
        'parent edge lookup':
        '(pa,pb)=self.parent_edge[{a},{b}]'.format(a=a, b=b),
        'coarser neighbour test': 'if(pb,pa)inself.nbrs',
        'level exactly one less':
        'assertself.nbrs[pb,pa].level=={el}.level-1'.format(el=el),
        'recursion': 'self.refine(self.nbrs[pb,pa])',
    }
    txt2 = txt.replace('pa,pb=', '(pa,pb)=')
    missing = [k for k, v in parts.items() if v not in txt2]
    if not missing:
        raise AnalysisError('%s: closure deviates from the recognised '
                            'shape in an unrecognised way' % fi.where(cl))
    report.violation('R-closure', 'quadtree closure', fi.where(cl),
                     'the balance closure lacks / changes: %s' % missing,
                     construct='InitialMesh.refine: balance closure (%s)' %
                     ', '.join(missing))


def check_bdr_search(prog, report):
    fi = prog.func(IM, 'InitialMesh.refine_msh_bdr')
    fn = fi.node
    body = list(walk_stmts(fn))
    v0, v1 = fi.params[1], fi.params[2]
    ok_cast = has_stmt(fn.body, '%s = np.array(%s).reshape(-1, 1)' %
                       (v0, v0)) and has_stmt(
                           fn.body, '%s = np.array(%s).reshape(-1, 1)' %
                           (v1, v1))
    ok_sort = has_stmt(fn.body,
                       'if tuple(%s.flatten()) > tuple(%s.flatten()): '
                       '%s, %s = %s, %s' % (v0, v1, v0, v1, v1, v0))
    report.check(ok_cast and ok_sort, 'R-contain', 'segment normalisation',
                 fi.where(),
                 'both end points are cast to 2x1 arrays and sorted '
                 'lexicographically, so either orientation and tuples, '
                 'lists or arrays give the same search',
                 construct='refine_msh_bdr: input normalisation')
    # axis detection
    ok_axis = False
    for s in fn.body:
        if isinstance(s, ast.For) and text(s.iter) == 'range(2)':
            i = text(s.target)
            ok_axis = has_stmt(s.body, 'if %s[%s] == %s[%s]: axis = %s' %
                               (v0, i, v1, i, i))
    ok_axis = ok_axis and has_stmt(fn.body, 'assert axis is not None') and \
        has_stmt(fn.body, 'n_axis = int(not axis)')
    report.check(ok_axis, 'R-contain', 'constant axis', fi.where(),
                 'the segment is axis parallel: `axis` is the coordinate on '
                 'which both end points agree, n_axis the other one',
                 construct='refine_msh_bdr: axis detection')
    # edge sorting, constant-axis equality, containment chain, return test
    loop = None
    for s in body:
        if isinstance(s, ast.For) and text(s.iter).endswith('.edges'):
            loop = s
    if loop is None:
        raise AnalysisError('%s: edge loop not found' % fi.where())
    a, b = (text(x) for x in loop.target.elts)
    ok_es = has_stmt(loop.body,
                     'if {a}.xy <= {b}.xy:\n    va, vb = {a}.xy_np, '
                     '{b}.xy_np\nelse:\n    va, vb = {b}.xy_np, {a}.xy_np'
                     .format(a=a, b=b))
    ok_eq = has_stmt(loop.body,
                     'if not ({v0}[axis] == va[axis] == vb[axis]):\n'
                     '    continue'.format(v0=v0))
    report.check(ok_es and ok_eq, 'R-contain', 'edge normalisation',
                 fi.where(loop),
                 'each cell edge is sorted the same way and must lie on the '
                 'segment\'s line (equality on the constant axis)',
                 construct='refine_msh_bdr: edge normalisation')
    cont = [s for s in loop.body if isinstance(s, ast.If) and isinstance(
        s.test, ast.Compare) and len(s.test.ops) == 3]
    okc = False
    okr = False
    if len(cont) == 1:
        t = cont[0].test
        parts = [t.left] + list(t.comparators)
        ops = [type(o).__name__ for o in t.ops]
        tx = [text(p).replace(' ', '') for p in parts]
        okc = ops == ['LtE', 'LtE', 'LtE'] and tx[1] == '%s[n_axis]' % v0 \
            and tx[2] == '%s[n_axis]' % v1 and tx[0] in (
                'va[n_axis]-eps*abs(va[n_axis])', 'va[n_axis]') and tx[
                    3] in ('vb[n_axis]+eps*abs(vb[n_axis])', 'vb[n_axis]')
        inner = [s for s in cont[0].body if isinstance(s, ast.If)]
        if len(inner) == 1:
            got = cond_dnf(inner[0].test, {})
            want = cond_dnf(ast.parse(
                'isclose(va[n_axis, 0], {v0}[n_axis, 0]) and '
                'isclose({v1}[n_axis, 0], vb[n_axis, 0])'.format(
                    v0=v0, v1=v1), mode='eval').body, {})
            norm = lambda d: sorted(sorted(map(str, map(fact_key, c)))
                                    for c in d)
            okr = norm(got) == norm(want) and has_stmt(
                inner[0].body, 'return ' + text(loop.iter)[:-len('.edges')])
        okp = has_stmt(cont[0].body, 'parent = ' +
                       text(loop.iter)[:-len('.edges')])
        okr = okr and okp
    report.check(okc, 'R-contain', 'containment test', fi.where(loop),
                 'two-sided chain edge.lo <= seg.lo <= seg.hi <= edge.hi '
                 'on the varying axis (with relative tolerance)',
                 construct='refine_msh_bdr: containment chain')
    report.check(okr, 'R-contain', 'coincidence test', fi.where(loop),
                 'the cell is returned iff lower ends and upper ends agree '
                 'pairwise (edge.lo ~ seg.lo and seg.hi ~ edge.hi); '
                 'otherwise it is the next cell to refine',
                 construct='refine_msh_bdr: coincidence test')
    desc = has_stmt(body, 'children = self.refine(parent)') and has_stmt(
        body, 'assert parent') and has_stmt(
            fn.body, 'children = self.leaf_elements')
    encl = None
    for n in ast.walk(fn):
        if isinstance(n, (ast.For, ast.While)) and any(
                text(m).replace(' ', '') == 'children=self.refine(parent)'
                for m in n.body):
            encl = n
    if encl is not None and isinstance(encl, ast.While) and not (
            isinstance(encl.test, ast.Constant) and encl.test.value):
        raise AnalysisError('%s: the descent loop has a condition the rule '
                            'does not read' % fi.where(encl))
    # a counted loop bounds the depth: a dyadic segment below that level
    # is then never reached although the search would terminate
    desc = desc and isinstance(encl, ast.While)
    report.check(desc, 'R-contain', 'descent', fi.where(),
                 'the search starts from all leaves and descends into the '
                 'children of the containing cell until the edges coincide, '
                 'with no bound on the number of descents',
                 construct='refine_msh_bdr: descent')
    # vertex_from_coords uniqueness
    fv = prog.func(IM, 'InitialMesh.vertex_from_coords')
    loops = [s for s in fv.node.body if isinstance(s, ast.For)]
    oku = False
    if len(loops) == 1:
        iff = [s for s in loops[0].body if isinstance(s, ast.If)]
        if len(iff) == 1:
            v = text(loops[0].target)
            p = fv.params[1]
            got = cond_dnf(iff[0].test, {})
            want = cond_dnf(ast.parse(
                'isclose({v}.x, {p}[0]) and isclose({v}.y, {p}[1])'.format(
                    v=v, p=p), mode='eval').body, {})
            norm = lambda d: sorted(sorted(map(str, map(fact_key, c)))
                                    for c in d)
            oku = norm(got) == norm(want) and has_stmt(
                iff[0].body, 'assert result is None') and has_stmt(
                    iff[0].body, 'result = ' + v)
    oku = oku and has_stmt(fv.node.body, 'return result')
    report.check(oku, 'R-contain', 'vertex lookup', fv.where(),
                 'a vertex is found by both coordinates and the match is '
                 'asserted unique', construct='vertex_from_coords: lookup')
    report.floor('R-contain', 7)


def check_diam(prog, report):
    """the cell size used as the Jacobian of the load integrals is the side
    length read off the vertices (not inferred from the level: root cells
    need not have side 1)"""
    ci = prog.cls(IM, 'Element')
    d = ci.methods.get('diam')
    if d is None:
        raise AnalysisError('%s: Element.diam not found' % IM)
    ret = [n for n in ast.walk(d.node) if isinstance(n, ast.Return)]
    from .lift import same_any
    ok = len(ret) == 1 and len(d.node.body) == 1 and same_any(
        ret[0].value, 'self.vertices[1].x - self.vertices[0].x',
        'self.vertices[2].x - self.vertices[3].x',
        'self.vertices[3].y - self.vertices[0].y',
        'self.vertices[2].y - self.vertices[1].y')
    report.check(ok, 'R-geometry', 'initial_mesh Element.diam', d.where(),
                 'diam is one side of the square, measured between two '
                 'adjacent vertices', construct='initial_mesh.Element.diam')


def check_quad_init(prog, report):
    fi = prog.func(IM, 'InitialMesh.__init__')
    fn = fi.node
    ok = False
    for s in fn.body:
        if isinstance(s, ast.For) and text(s.iter) == 'self.elements':
            e = text(s.target)
            for s2 in s.body:
                if isinstance(s2, ast.For) and text(
                        s2.iter) == e + '.edges':
                    ok = has_stmt(s2.body, 'self.nbrs[%s] = %s' %
                                  (text(s2.target), e))
    report.check(ok, 'R-register', 'root edges registered', fi.where(),
                 'every directed edge of every root cell is entered in the '
                 'edge->cell map', construct='InitialMesh.__init__: nbrs')
    ci = prog.cls(IM, 'Element')
    ed = ci.methods['edges']
    ret = [n for n in ast.walk(ed.node) if isinstance(n, ast.Return)]
    oke = len(ret) == 1 and text(ret[0].value).replace(' ', '') == (
        '[(self.vertices[0],self.vertices[1]),(self.vertices[1],'
        'self.vertices[2]),(self.vertices[2],self.vertices[3]),'
        '(self.vertices[3],self.vertices[0])]')
    report.check(oke, 'R-register', 'Element.edges', ed.where(),
                 'directed edges (v_i, v_i+1) counter-clockwise',
                 construct='initial_mesh.Element.edges')
    # literal root meshes
    for name, n_el in (('UnitSquare', 1), ('PiSquare', 1), ('LShape', 3)):
        f = prog.func(IM, name)
        call = [n for n in ast.walk(f.node) if isinstance(n, ast.Call)
                and text(n.func) == 'InitialMesh']
        if len(call) != 1:
            raise AnalysisError('%s: InitialMesh call not found' % f.where())
        kw = {k.arg: k.value for k in call[0].keywords}
        from .lift import Lifter
        L = Lifter(f.module)
        verts = [tuple(L.lift(c) for c in v.elts)
                 for v in kw['vertices'].elts]
        els = ast.literal_eval(kw['elements'])
        ok = len(els) == n_el
        for el in els:
            v = [verts[i] for i in el]
            ok = ok and (v[0][1] == v[1][1] and v[1][0] == v[2][0]
                         and v[2][1] == v[3][1] and v[3][0] == v[0][0]
                         and (v[2][0] - v[0][0]).is_positive
                         and (v[2][1] - v[0][1]).is_positive
                         and v[2][0] - v[0][0] == v[2][1] - v[0][1])
        report.check(ok, 'R-quad-children', 'root cells of %s' % name,
                     f.where(),
                     'every root cell is an axis-parallel square listed '
                     'counter-clockwise from its lower-left corner',
                     construct='%s: root cells' % name)


def check_tolerances(prog, report):
    """The coincidence / lookup tests of the boundary search are tolerance
    based (vertices come from repeated midpoint arithmetic, inexact on the
    pi square) and the tolerance stays far below the smallest admitted
    segment length 2^-10."""
    n = 0
    mod = prog.module(IM)
    imp = mod.imports.get('isclose')
    src_mod = imp[0] if imp else None
    report.check(
        src_mod == 'math', 'R-tolerance', 'isclose is math.isclose', IM,
        'the point comparisons use math.isclose (relative tolerance 1e-9, '
        'no absolute tolerance); numpy.isclose defaults to rtol=1e-5, '
        'atol=1e-8, which merges distinct vertices from level 17 on; '
        'imported from: %s' % (imp, ),
        construct='initial_mesh: isclose import')
    for q in ('InitialMesh.refine_msh_bdr', 'InitialMesh.vertex_from_coords'):
        fi = prog.func(IM, q)
        for node in ast.walk(fi.node):
            if not isinstance(node, ast.If):
                continue
            t = node.test
            conj = t.values if isinstance(t, ast.BoolOp) and isinstance(
                t.op, ast.And) else [t]
            # tests that decide "same point": every conjunct compares a
            # vertex coordinate with a target coordinate
            calls = [c for c in conj if isinstance(c, ast.Call) and text(
                c.func) in ('isclose', 'math.isclose', 'np.isclose')]
            exact = [c for c in conj if isinstance(c, ast.Compare) and len(
                c.ops) == 1 and isinstance(c.ops[0], ast.Eq) and any(
                    isinstance(m, ast.Subscript) for m in ast.walk(c))
                and 'axis' in text(c) and 'n_axis' in text(c)]
            if not calls and not exact:
                continue
            if exact and any('n_axis' in text(c) for c in exact):
                n += 1
                report.violation(
                    'R-tolerance', '%s exact coordinate test' % q,
                    fi.where(node),
                    'end points on the varying axis are compared with '
                    'exact ==; midpoint-generated vertices differ from the '
                    'target by rounding on non-dyadic domains (pi square)',
                    construct=q + ': exact coordinate comparison')
            for c in calls:
                n += 1
                kw = {k.arg: k.value for k in c.keywords}
                ok = True
                why = 'default tolerances'
                for name, bound in (('abs_tol', 2.0**-13),
                                    ('rel_tol', 1e-6)):
                    if name in kw:
                        v = kw[name]
                        if not (isinstance(v, ast.Constant) and isinstance(
                                v.value, (int, float))):
                            raise AnalysisError(
                                '%s: non-literal tolerance' % fi.where(c))
                        why = '%s=%g' % (name, v.value)
                        if v.value > bound:
                            ok = False
                report.check(
                    ok, 'R-tolerance', '%s `%s`' % (q, text(c)[:44]),
                    fi.where(c),
                    'a tolerance of the point comparison must stay below '
                    'the resolution the property admits (segments of '
                    'length 2^-10): abs_tol <= 2^-13, rel_tol <= 1e-6; '
                    'found ' + why,
                    construct=q + ': isclose tolerance')
    if n < 4:
        raise AnalysisError('R-tolerance: only %d point comparisons found'
                            % n)
