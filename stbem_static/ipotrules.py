"""C08 -- initial-potential load vector: K6/K7 certificates, R-prefactor,
linearity in u0."""
import ast
import random

import sympy as sp

from .absint import text
from .core import AnalysisError, Program
from .kernels import Cert, collect_returns, heat_kernel, R2, Z
from .lift import Lifter

IP = 'src/initial_potential.py'


def _lam_expr(fi, state_val, sym):
    lam = state_val
    if not isinstance(lam, ast.Lambda):
        raise AnalysisError('%s: lambda expected' % fi.where())
    L = Lifter(fi.module, dict(sym, **{lam.args.args[0].arg: R2}))
    return L.lift(lam.body)


def cert_K6(repo):
    prog = Program(repo)
    c = Cert('K6')
    fi = prog.func(IP, 'time_integrated_kernel')
    rets = collect_returns(fi, ['0 <= a', 'a < b'])['']
    a, b = sp.symbols('a b', positive=True)
    A = ast.parse('a', mode='eval').body
    Zr = ast.parse('0', mode='eval').body
    got = {}
    for state, val, st in rets:
        zero = state.entails_cmp(A, '==', Zr)
        e = _lam_expr(fi, val, {'a': a, 'b': b})
        got['a==0' if zero else 'a>0'] = (e, st)
    if set(got) != {'a==0', 'a>0'}:
        raise AnalysisError('%s: the two cases a == 0 / a > 0 were not '
                            'found' % fi.where())
    e1, st1 = got['a>0']
    c.ident('K6', 'time_integrated_kernel: d/db = G_b', fi.where(st1),
            sp.diff(e1, b) - heat_kernel(b, R2),
            'the E1 form is the time integral of the heat kernel over '
            '[a,b]: derivative in the upper limit')
    c.ident('K6', 'time_integrated_kernel: d/da = -G_a', fi.where(st1),
            sp.diff(e1, a) + heat_kernel(a, R2),
            'derivative in the lower limit')
    c.ident('K6', 'time_integrated_kernel: value at b=a is 0',
            fi.where(st1), e1.subs(b, a), 'empty time interval')
    e0, st0 = got['a==0']
    # the branch a == 0 is the limit a -> 0+ (E1(inf) = 0)
    c.ident('K6', 'time_integrated_kernel: case a == 0', fi.where(st0),
            sp.diff(e0, b) - heat_kernel(b, R2),
            'for a = 0 the lower-limit term E1(r^2/(4a)) -> E1(inf) = 0 is '
            'dropped: derivative in b is still G_b')
    try:
        lim = sp.limit(e0, b, 0, '+')
    except Exception:
        lim = None
    c.add('K6', 'time_integrated_kernel: case a == 0 vanishes at b -> 0+',
          fi.where(st0),
          True if lim == 0 else (None if lim is None else False),
          'limit computed: %s' % lim,
          construct='initial_potential.time_integrated_kernel: a == 0 '
          'limit')
    # K7: inline copy in linform
    fl = prog.func(IP, 'InitialOperator.linform')
    inl = {}
    from .absint import cond_dnf, fact_key
    want0 = [sorted(map(str, map(fact_key, c_))) for c_ in cond_dnf(
        ast.parse('a == 0', mode='eval').body, {})]
    for fnode, where in ((fi.node, fi), (fl.node, fl)):
        for n in ast.walk(fnode):
            if isinstance(n, ast.If):
                try:
                    got0 = [sorted(map(str, map(fact_key, c_)))
                            for c_ in cond_dnf(n.test, {})]
                except Exception:
                    continue
                if got0 != want0:
                    continue
                exact = isinstance(n.test, ast.Compare) and len(
                    n.test.ops) == 1 and isinstance(n.test.ops[0], ast.Eq)
                c.add('K6', '%s: start-at-zero test is exact' %
                      where.qualname, where.where(n), exact,
                      'the case "interval starts at t = 0" must be decided '
                      'by an exact comparison: for any a > 0, however '
                      'small, the lower-limit term E1(r^2/(4a)) is part of '
                      'the integral; found `%s`' % text(n.test),
                      construct='%s: exact a == 0 test' % where.qualname)
    for n in ast.walk(fl.node):
        if isinstance(n, ast.If) and [sorted(map(str, map(fact_key, c_)))
                                      for c_ in cond_dnf(n.test, {})] == \
                want0:
            for branch, key in ((n.body, 'a==0'), (n.orelse, 'a>0')):
                for s in branch:
                    if isinstance(s, ast.Assign) and text(
                            s.targets[0]) == 'fx':
                        inl[key] = s
    if set(inl) != {'a==0', 'a>0'}:
        raise AnalysisError('%s: inline time kernel not found' % fl.where())
    U0 = sp.Symbol('U0', positive=True)
    for key, s in inl.items():
        def hook(L, node):
            if text(node.func) == 'self.u0':
                return U0
            return None
        dist = [text(x) for x in ast.walk(s.value)
                if isinstance(x, ast.Name) and x.id not in ('a', 'b',
                                                            'exp1')]
        names = {d: R2 for d in dist}
        L = Lifter(fl.module, dict({'a': a, 'b': b}, **names),
                   call_hook=hook)
        e = L.lift(s.value)
        ref = got[key][0]
        fpi = Lifter(fl.module).lift(ast.parse('FPI_INV', mode='eval').body)
        c.ident('K7', 'linform inline kernel (%s)' % key, fl.where(s),
                sp.simplify(e * fpi - U0 * ref),
                'u0 * inline E1 expression * FPI_INV equals u0 * '
                'time_integrated_kernel(a, b): the factor (4 pi)^-1 sits in '
                'the prefactor of this branch')
    return c


def check_prefactor(prog, report):
    fi = prog.func(IP, 'InitialOperator.linform')
    fn = fi.node
    vals = [n for n in ast.walk(fn) if isinstance(n, ast.Assign)
            and text(n.targets[0]) == 'val']
    if len(vals) != 2:
        raise AnalysisError('%s: two branch values expected' % fi.where())
    h, diam, dc, DOT = sp.symbols('h diam dc DOT', positive=True)
    fpi = sp.Symbol('FPI', positive=True)

    def hook(L, node):
        if text(node.func) == 'np.dot':
            return DOT
        return None

    def names(t):
        return {'h': h, 'elem.diam': diam, 'FPI_INV': fpi}.get(t)
    seen = {}
    for v in vals:
        L = Lifter(None, {'d': sp.Symbol('d'), 'c': sp.Symbol('c')},
                   call_hook=hook, name_hook=names)
        e = L.lift(v.value)
        e = e.subs(sp.Symbol('d') - sp.Symbol('c'), dc)
        e = sp.simplify(e.subs(sp.Symbol('d'), dc + sp.Symbol('c')))
        if 'duff_3d_id' in text(v.value):
            seen['identical'] = (e, v)
        else:
            seen['touch/disjoint'] = (e, v)
    if set(seen) != {'identical', 'touch/disjoint'}:
        raise AnalysisError('%s: branch values not recognised' % fi.where())
    e, v = seen['identical']
    # G_time (time_integrated_kernel) carries (4 pi)^-1 itself
    fbody = None
    for n in ast.walk(fn):
        if isinstance(n, ast.Assign) and text(
                n.targets[0]) == 'f' and isinstance(n.value, ast.Lambda):
            fbody = n.value
    okf = fbody is not None and text(fbody.body).replace(' ', '') == (
        'self.u0(gamma_Q(xyz[0],xyz[2]))*G_time(h**2*((xyz[0]-xyz[1])**2+'
        'xyz[2]**2))')
    gq = any(isinstance(n, ast.Assign) and text(n.targets[0]) == 'gamma_Q'
             and text(n.value).replace(' ', '') ==
             'lambdax,z:n0+(n1-n0)*x+(n2-n0)*z' for n in ast.walk(fn))
    report.check(
        sp.simplify(e - h**3 * DOT) == 0 and okf and gq, 'R-prefactor',
        'identical cell', fi.where(v),
        'cell area h^2 times segment length h, (4 pi)^-1 inside G_time; '
        'integrand u0(Q(x,z)) * G_time(|Q(x,z) - K(y)|^2) with |.|^2 = '
        'h^2((x-y)^2 + z^2) on the square cell spanned from v0; found '
        'prefactor %s' % e, construct='linform: identical-cell prefactor')
    e, v = seen['touch/disjoint']
    report.check(
        sp.simplify(e - diam**2 * dc * fpi * DOT) == 0, 'R-prefactor',
        'touching / disjoint cell', fi.where(v),
        'cell area diam^2 times segment length (d - c) times (4 pi)^-1 '
        'exactly once (the inline E1 expression carries no constant); '
        'found %s' % e, construct='linform: touch/disjoint prefactor')
    # squared distance from the mapped points
    src = {text(n.targets[0]): text(n.value).replace(' ', '')
           for n in ast.walk(fn) if isinstance(n, ast.Assign)
           and len(n.targets) == 1}
    okd = src.get('xz') == 'gamma_Q(xyz[0],xyz[2])' and src.get(
        'y') == 'gamma_K(xyz[1])' and src.get(
            'xyz') == 'self.duff_3d_touch.points'
    xs = [text(n.value).replace(' ', '') for n in ast.walk(fn)
          if isinstance(n, ast.Assign) and text(n.targets[0]) == 'xz_y']
    okd = okd and xs == ['(xz-y)**2', 'xz_y[0]+xz_y[1]']
    report.check(okd, 'R-prefactor', 'touch/disjoint distance', fi.where(),
                 'cell coordinates (x, z) and segment coordinate y of the '
                 '3-D rule; squared Euclidean distance of the mapped points',
                 construct='linform: touch/disjoint distance')
    # linear in u0: every fx is a product with exactly one self.u0 factor
    n_u0 = 0
    bad = []
    for n in ast.walk(fn):
        if isinstance(n, ast.Assign) and text(n.targets[0]) == 'fx' and \
                'duff_3d_id' not in text(n.value):
            u = [m for m in ast.walk(n.value) if isinstance(m, ast.Call)
                 and text(m.func) == 'self.u0']
            top = n.value
            ok = isinstance(top, ast.BinOp) and isinstance(
                top.op, ast.Mult) and len(u) == 1 and (
                    top.left is u[0] or top.right is u[0])
            n_u0 += 1
            if not ok:
                bad.append(text(n.value)[:50])
    u = [m for m in ast.walk(fbody.body) if isinstance(m, ast.Call)
         and text(m.func) == 'self.u0'] if fbody is not None else []
    report.check(not bad and n_u0 == 2 and len(u) == 1, 'R-prefactor',
                 'linear in u0', fi.where(),
                 'every integrand is (one evaluation of u0) times a kernel '
                 'factor, so the load is linear in the initial datum',
                 construct='linform: linearity in u0')
    ok1 = any(text(n).replace(' ', '') == 'assertid_bdr==1'
              for n in ast.walk(fn) if isinstance(n, ast.Assert))
    ret = [n for n in fn.body if isinstance(n, ast.Return)]
    oks = len(ret) == 1 and text(ret[0].value).replace(' ', '') == \
        '(math.fsum([valforelem,valinips]),ips)'
    report.check(ok1 and oks, 'R-prefactor', 'cell partition', fi.where(),
                 'exactly one domain cell has the segment as an edge '
                 '(asserted), every leaf cell contributes one term and the '
                 'load is their sum', construct='linform: sum over cells')
    # every leaf cell is visited: identical / touch v0 / touch v1 / disjoint
    loop = [n for n in fn.body if isinstance(n, ast.For)]
    okl = len(loop) == 1 and text(
        loop[0].iter) == 'initial_mesh.leaf_elements'
    report.check(okl, 'R-prefactor', 'all leaf cells', fi.where(),
                 'the loop runs over all leaves of the matched domain mesh',
                 construct='linform: loop over leaf cells')
    report.floor('R-prefactor', 6)


def cert_evaluate(repo):
    """InitialOperator.evaluate: integrand = G_t(x - y) u0(y)."""
    prog = Program(repo)
    c = Cert('K6e')
    for q in ('InitialOperator.evaluate', 'InitialOperator.evaluate_mesh'):
        fi = prog.func(IP, q)
        inner = [n for n in fi.node.body if isinstance(n, ast.FunctionDef)]
        if len(inner) != 1:
            raise AnalysisError('%s: integrand not found' % fi.where())
        rets = collect_returns(fi)
        r = rets.get(inner[0].name, [])
        if len(r) != 1:
            raise AnalysisError('%s: integrand return' % fi.where())
        state, val, st = r[0]
        t = sp.Symbol('t', positive=True)
        U0 = sp.Symbol('U0', positive=True)

        def hook(L, node):
            if text(node.func) == 'self.u0':
                return U0
            if text(node.func) == 'np.sum' and node.keywords:
                return R2
            return None
        L = Lifter(fi.module, {'t': t}, call_hook=hook)
        e = L.lift(val)
        c.ident('K6', '%s integrand' % q.split('.')[-1], fi.where(st),
                e - heat_kernel(t, R2) * U0,
                'the domain integrand is the heat kernel at time t times '
                'u0')
        # |x - y|^2
        a = {text(n.targets[0]): text(n.value).replace(' ', '')
             for n in inner[0].body if isinstance(n, ast.Assign)}
        c.add('K6', '%s distance' % q.split('.')[-1], fi.where(st),
              a.get('xy') == 'x-y' and a.get('xy_sqr') ==
              'np.sum(xy**2,axis=0)', 'squared distance |x - y|^2',
              construct=q + ': distance')
    return c
