"""R-dep -- no silent pass when an unexamined dependency changed.

A property's rules examine a set of functions (the ones they look up).  The
code they examine calls other functions and reads attributes that other
functions write.  Those dependencies are trusted to behave as they do in the
reference copy (that is where the property was established); the rules do
not model them.  If such a dependency differs from its reference version and
the equivalence prover (canon.py) cannot show the difference to be behaviour
preserving, the check must not answer "holds": it answers ANALYSIS-ERROR
naming the dependency.  A violation found by the rules takes precedence.
Only the files the property is anchored in (properties.jsonl) are considered:
name-based call resolution is too coarse to blame a property for changes in
files it is not anchored in.

Dependency relation (name based, over all non-test modules): a function
depends on every repository function whose name it calls or reads as an
attribute (methods, properties; any module), on the constructor of every class
it instantiates, and on the module-level code of the module that defines a
global name it reads.  Data flow through plain attributes (who wrote the field
that is read here) is deliberately not followed: it would connect everything
with everything; the field-level facts the properties need are established by
rules of their own (R-geometry, R-own, R-leafbook, ...).
"""
import ast

from .core import _top_functions


def _index(prog):
    by_name = {}      # callable name -> [(rel, qual)]
    writers = {}      # attribute name -> [(rel, qual)]
    globals_ = {}     # module-level name -> rel
    nodes = {}
    for rel, m in prog.modules.items():
        for st in m.tree.body:
            if isinstance(st, ast.Assign):
                for t in st.targets:
                    for n in ast.walk(t):
                        if isinstance(n, ast.Name):
                            globals_.setdefault(n.id, rel)
        for qual, node in _top_functions(m.tree):
            if isinstance(node, ast.If):
                continue
            nodes[(rel, qual)] = node
            short = qual.split('.')[-1]
            if short == '__init__' and '.' in qual:
                # a constructor is reached through its class name only
                by_name.setdefault(qual.split('.')[0], []).append(
                    (rel, qual))
            elif not (short.startswith('__') and short.endswith('__')):
                by_name.setdefault(short, []).append((rel, qual))
            for n in ast.walk(node):
                if isinstance(n, ast.Attribute) and isinstance(
                        n.ctx, (ast.Store, ast.Del)):
                    writers.setdefault(n.attr, []).append((rel, qual))
    return by_name, writers, globals_, nodes


def _deps(node, by_name, writers, globals_, bases=()):
    out = set()
    for b in bases:
        out.update(by_name.get(b, ()))
    for n in ast.walk(node):
        if isinstance(n, ast.Call):
            f = n.func
            name = f.id if isinstance(f, ast.Name) else (
                f.attr if isinstance(f, ast.Attribute) else None)
            if name:
                if name.startswith('_') and '__' in name[1:] and \
                        name not in by_name:
                    name = '__' + name[1:].split('__', 1)[1]
                out.update(by_name.get(name, ()))
        elif isinstance(n, ast.Attribute) and isinstance(n.ctx, ast.Load):
            out.update(by_name.get(n.attr, ()))   # properties / methods
        elif isinstance(n, ast.Name) and isinstance(n.ctx, ast.Load) and \
                n.id in globals_:
            out.add((globals_[n.id], '<module>'))
    return out


def anchor_files(prop):
    """files the property is anchored in (properties.jsonl)"""
    import json
    import os
    from .core import VERIF
    try:
        with open(os.path.join(VERIF, 'properties.jsonl')) as fh:
            for line in fh:
                rec = json.loads(line)
                if rec.get('id') == prop:
                    return set(rec.get('anchors', {}).get('files', []))
    except OSError:
        pass
    return set()


def unexamined_changes(prog, prop=None):
    """[(rel, qual, via)]: changed, not provably equivalent functions of the
    property's anchor files that lie in the dependency cone of the consulted
    functions and that no rule consulted"""
    changed = set(prog.changed_funcs)
    if prop is not None:
        files = anchor_files(prop)
        changed = {c for c in changed if c[0] in files}
    if not changed:
        return []
    by_name, writers, globals_, nodes = _index(prog)
    roots = set(prog.consulted_funcs)
    examined = set(roots)
    seen = {}
    todo = [(r, None) for r in roots]
    while todo:
        cur, via = todo.pop()
        if cur in seen:
            continue
        seen[cur] = via
        node = nodes.get(cur)
        if node is None:
            continue
        bases = ()
        if '.' in cur[1] and cur[1].endswith('.__init__'):
            cname = cur[1].split('.')[0]
            for st in prog.modules[cur[0]].tree.body:
                if isinstance(st, ast.ClassDef) and st.name == cname:
                    bases = [b.id for b in st.bases
                             if isinstance(b, ast.Name)]
        for d in _deps(node, by_name, writers, globals_, bases):
            if d not in seen:
                todo.append((d, cur))
    out = []
    for c in sorted(changed):
        if c in seen and c not in examined:
            # chain back to a consulted function
            chain = []
            x = c
            while x is not None and len(chain) < 6:
                chain.append('%s' % x[1])
                x = seen.get(x)
            out.append((c[0], c[1], ' <- '.join(chain)))
    return out
