"""Static verification of rvanvenetie/stbem (see /verif/DESIGN.md)."""
