import hashlib
import math
import multiprocessing as mp
import time
from math import pi, sqrt

import cython
import numpy as np
import numpy.typing as npt
from scipy.special import erf, expi

from .mesh import Element
from .parametrization import PiecewisePolygon
from .quadrature import (DuffyScheme2D, ProductScheme2D,
                         gauss_quadrature_scheme, log_quadrature_scheme)
from .single_layer_exact import (spacetime_evaluated_1,
                                 spacetime_integrated_kernel)

FPI_INV = cython.declare(cython.double)
FPI_INV = (4 * pi)**-1
PI_SQRT = cython.declare(cython.double)
PI_SQRT = math.sqrt(pi)


def kernel(t, x):
    assert isinstance(t, float) and isinstance(x, float)
    if (t <= 0): return 0
    else: return FPI_INV * 1. / t * np.exp(-x**2 / (4 * t))


def alpha(z):
    """ Returns lambda a_z(x) """
    return lambda x: np.sum(x**2, axis=0) / (4 * z)


def noop(x):
    return 0


def g(a, b):
    """ Returns g_z for z = a - b. """
    if a <= b:
        return noop
    z = a - b
    return lambda x: FPI_INV * expi(-np.sum(x**2, axis=0) / (4 * z))


def f(a, b):
    """ Returns f_z for z = a - b"""
    if a <= b:
        return noop
    z = a - b

    def f_z(x_sqr):
        a_z = x_sqr / (4 * z)
        return FPI_INV * (z * np.exp(-a_z) + z * (1 + a_z) * expi(-a_z))

    return f_z


def time_integrated_kernel(t, a, b):
    """ Returns heat kernel G(t-s,x) integrated over s in [a,b]. """
    assert a < b
    g_ta = g(t, a)
    g_tb = g(t, b)
    return lambda x: g_tb(x) - g_ta(x)


def double_time_integrated_kernel(a, b, c, d):
    """ Returns kernel integrated in time over [a,b] x [c, d], """
    assert a < b and c < d

    def G(x):
        x_sqr = np.sum(x**2, axis=0) / 4
        result = 0
        if b > d:
            z = b - d
            result += FPI_INV * (z * np.exp(-x_sqr / z) +
                                 (x_sqr + z) * expi(-x_sqr / z))
        if b > c:
            z = b - c
            result -= FPI_INV * (z * np.exp(-x_sqr / z) +
                                 (x_sqr + z) * expi(-x_sqr / z))
        if a > c:
            z = a - c
            result += FPI_INV * (z * np.exp(-x_sqr / z) +
                                 (x_sqr + z) * expi(-x_sqr / z))
        if a > d:
            z = a - d
            result -= FPI_INV * (z * np.exp(-x_sqr / z) +
                                 (x_sqr + z) * expi(-x_sqr / z))

        return result

    return G


def MP_SL_matrix_col(j: int) -> npt.ArrayLike:
    """ Function to evaluate SL in parallel using the multiprocessing library. """
    global __SL, __elems_test, __elems_trial
    elem_trial = __elems_trial[j]
    col = np.zeros(len(__elems_test))
    for i, elem_test in enumerate(__elems_test):
        if elem_test.time_interval[1] <= elem_trial.time_interval[0]:
            continue
        col[i] = __SL.bilform(elem_trial, elem_test)
    return col


class SingleLayerOperator:
    def __init__(self, mesh, quad_order=12, pw_exact=False, cache_dir=None):
        # The closed forms only hold on straight pieces.
        self.pw_exact = pw_exact and isinstance(mesh.gamma_space,
                                                PiecewisePolygon)
        self.gauss_scheme = gauss_quadrature_scheme(23)
        self.gauss_2d = ProductScheme2D(self.gauss_scheme)
        self.log_scheme = log_quadrature_scheme(quad_order, quad_order)
        self.log_scheme_m = self.log_scheme.mirror()
        self.log_log = ProductScheme2D(self.log_scheme, self.log_scheme)
        self.duff_log_log = DuffyScheme2D(self.log_log, symmetric=False)
        self.mesh = mesh
        self.gamma_len = self.mesh.gamma_space.gamma_length
        self.glue_space = self.mesh.glue_space
        self.cache_dir = cache_dir
        self._init_elems(self.mesh.leaf_elements)

    def _init_elems(self, elems):
        # For all elements in the mesh, register the log scheme.
        for elem in elems:
            a, b = elem.space_interval
            elem.__log_scheme_y = elem.gamma_space(a + (b - a) *
                                                   self.log_scheme.points)
            elem.__log_scheme_m_y = elem.gamma_space(a + (b - a) *
                                                     self.log_scheme_m.points)

    @cython.locals(h_x=cython.double, h_y=cython.double)
    def __integrate(self, f: object, a: float, b: float, c: float,
                    d: float) -> float:
        """ Integrates a symmetric singular f over the square [a,b]x[c,d]. """
        h_x = b - a
        h_y = d - c
        assert h_x > 1e-8 and h_y > 1e-8
        assert (a < b and c < d)
        assert (a, b) <= (c, d)

        # If are the same panel.
        if a == c and b == d:
            return self.duff_log_log.integrate(f, a, b, c, d)

        # If the panels touch in the middle, split into even parts.
        if b == c:
            if abs(h_x - h_y) < 1e-10:
                return self.duff_log_log.mirror_x().integrate(f, a, b, c, d)
            elif h_x > h_y:
                return self.duff_log_log.mirror_x().integrate(
                    f, b - h_y, b, c, d) + self.__integrate(
                        f, a, b - h_y, c, d)
            else:
                return self.duff_log_log.mirror_x().integrate(
                    f, a, b, c, c + h_x) + self.__integrate(
                        f, a, b, c + h_x, d)
        assert not math.isclose(b, c)

        # If the panels touch through in the glued boundary, split into even parts.
        if a == 0 and d == self.gamma_len and self.glue_space:
            assert b < c
            if abs(h_x - h_y) < 1e-10:
                return self.duff_log_log.mirror_y().integrate(f, a, b, c, d)
            elif h_x > h_y:
                return self.duff_log_log.mirror_y().integrate(
                    f, a, a + h_y, c, d) + self.__integrate(
                        f, a + h_y, b, c, d)
            else:
                return self.__integrate(
                    f, a, b, c,
                    d - h_x) + self.duff_log_log.mirror_y().integrate(
                        f, a, b, d - h_x, d)

        # If we are disjoint.  TODO: Do more singular stuff if close?
        # TODO: Gauss 2d for disjoint..
        if b < c:
            #return self.gauss_2d.integrate(f, a, b, c, d)
            if c - b < self.gamma_len - d + a or not self.glue_space:
                return self.log_log.mirror_x().integrate(f, a, b, c, d)
            else:
                return self.log_log.mirror_y().integrate(f, a, b, c, d)

        # If the first panel is longer than the second panel.
        if d < b:
            # TODO: Is this correct?
            return self.__integrate(
                f, a, d, c, d) + self.duff_log_log.mirror_y().integrate(
                    f, d, b, c, d)

        # First panel is contained in second one.
        if a == c:
            assert b < d
            return self.__integrate(f, a, b, c, b) + self.__integrate(
                f, a, b, b, d)
        assert not math.isclose(a, c)

        # We have overlap, split this in two parts.
        assert a < c
        return self.__integrate(f, a, c, c, d) + self.__integrate(
            f, c, b, c, d)

    @cython.locals(a=cython.double,
                   b=cython.double,
                   c=cython.double,
                   d=cython.double)
    def bilform(self, elem_trial: Element, elem_test: Element) -> float:
        """ Evaluates <V 1_trial, 1_test>. """
        # If the test element lies below the trial element, we are done.
        if elem_test.time_interval[1] <= elem_trial.time_interval[0]:
            return 0

        if self.pw_exact and elem_test.gamma_space is elem_trial.gamma_space:
            return spacetime_integrated_kernel(*elem_test.time_interval,
                                               *elem_trial.time_interval,
                                               *elem_test.space_interval,
                                               *elem_trial.space_interval)

        a, b = elem_test.time_interval
        c, d = elem_trial.time_interval

        # Calculate the time integrated kernel.
        G_time = double_time_integrated_kernel(a, b, c, d)

        gamma_test = elem_test.gamma_space
        gamma_trial = elem_trial.gamma_space

        if elem_test.space_interval <= elem_trial.space_interval:
            G_time_parametrized = lambda x: G_time(
                gamma_test(x[0]) - gamma_trial(x[1]))

            return self.__integrate(G_time_parametrized,
                                    *elem_test.space_interval,
                                    *elem_trial.space_interval)
        else:
            # Swap x,y coordinates.
            G_time_parametrized = lambda x: G_time(
                gamma_test(x[1]) - gamma_trial(x[0]))

            return self.__integrate(G_time_parametrized,
                                    *elem_trial.space_interval,
                                    *elem_test.space_interval)

    def bilform_matrix(self, elems_test=None, elems_trial=None, use_mp=False):
        """ Returns the dense matrix <V 1_trial, 1_test>. """
        if elems_test is None:
            elems_test = list(self.mesh.leaf_elements)
        if elems_trial is None:
            elems_trial = elems_test

        N = len(elems_test)
        M = len(elems_trial)

        # For small N, M, simply construct matrix inline and return.
        if N * M < 100:
            mat = np.zeros((N, M))
            for i, elem_test in enumerate(elems_test):
                for j, elem_trial in enumerate(elems_trial):
                    mat[i, j] = self.bilform(elem_trial, elem_test)
            return mat

        if self.cache_dir is not None:
            md5 = hashlib.md5((str(self.mesh.gamma_space) + str(elems_test) +
                               str(elems_trial)).encode()).hexdigest()
            cache_fn = "{}/SL_{}_{}x{}_{}.npy".format(self.cache_dir,
                                                      self.mesh.gamma_space, N,
                                                      M, md5)
            try:
                mat = np.load(cache_fn)
                print("Loaded Single Layer from file {}".format(cache_fn))
                return mat
            except:
                pass

        time_mat_begin = time.time()

        mat = np.zeros((N, M))
        if not use_mp:
            for i, elem_test in enumerate(elems_test):
                for j, elem_trial in enumerate(elems_trial):
                    mat[i, j] = self.bilform(elem_trial, elem_test)
        else:
            # Set up global variables for parallelizing.
            globals()['__elems_test'] = elems_test
            globals()['__elems_trial'] = elems_trial
            globals()['__SL'] = self
            cpu = mp.cpu_count()
            for j, col in enumerate(
                    mp.Pool(mp.cpu_count()).imap(MP_SL_matrix_col, range(M),
                                                 M // (16 * cpu) + 1)):
                mat[:, j] = col

        if self.cache_dir is not None:
            try:
                np.save(cache_fn, mat)
                print("Stored Single Layer to {}".format(cache_fn))
            except:
                pass

        print('Calculating SL matrix took {}s'.format(time.time() -
                                                      time_mat_begin))
        return mat

    def potential(self, elem_trial, t, x):
        """ Evaluates (V 1_trial)(t,x) for t,x not on the bdr. """
        assert x.shape == (2, 1)
        if t <= elem_trial.time_interval[0]: return 0

        # Calculate the time integrated kernel.
        G_time = time_integrated_kernel(t, *elem_trial.time_interval)
        G_time_parametrized = lambda y: G_time(x - elem_trial.gamma_space(y))
        return self.gauss_scheme.integrate(G_time_parametrized,
                                           *elem_trial.space_interval)

    def potential_vector(self, t, x):
        """ Returns the vector (V 1_elem)(t, x) for all elements in mesh. """
        elems = list(self.mesh.leaf_elements)
        N = len(elems)
        vec = np.zeros(shape=N)
        for j, elem_trial in enumerate(elems):
            vec[j] = self.potential(elem_trial, t, x)
        return vec

    @cython.locals(x_a=cython.double,
                   x_b=cython.double,
                   d_a=cython.double,
                   d_b=cython.double,
                   t_a=cython.double,
                   t_b=cython.double)
    def evaluate(self, elem_trial: Element, t: float, x_hat: float,
                 x: npt.ArrayLike) -> float:
        """ Evaluates (V 1_trial)(t, gamma(x_hat)) for t, x_hat in the param domain. """
        if t <= elem_trial.time_interval[0]: return 0
        #if x is None: x = self.mesh.gamma_space.eval(x_hat)
        x_a = elem_trial.space_interval[0]
        x_b = elem_trial.space_interval[1]
        t_a = elem_trial.time_interval[0]
        t_b = elem_trial.time_interval[1]

        # Check if singularity lies in this element.
        if x_a * (1 + 1e-10) <= x_hat <= x_b * (1 - 1e-10):
            # Calculate the time integrated kernel.
            def G_time_parametrized(y_hat: npt.ArrayLike):
                xy = (x - elem_trial.gamma_space(y_hat))**2
                xy = xy[0] + xy[1]
                a, b = elem_trial.time_interval
                if t <= b:
                    return -FPI_INV * expi(-xy / (4 * (t - a)))
                else:
                    return FPI_INV * (expi(-xy / (4 *
                                                  (t - b))) - expi(-xy /
                                                                   (4 *
                                                                    (t - a))))

            return self.log_scheme_m.integrate(
                G_time_parametrized, x_a, x_hat) + self.log_scheme.integrate(
                    G_time_parametrized, x_hat, x_b)

        # Calculate distance of x_hat to both endpoints.
        if self.glue_space:
            d_a = min(abs(x_hat - x_a), abs(self.gamma_len - x_hat + x_a))
            d_b = min(abs(x_hat - x_b), abs(self.gamma_len - x_b + x_hat))
        else:
            d_a = abs(x_hat - x_a)
            d_b = abs(x_hat - x_b)

        # Calculate |x - gamma(yhat)|^2 for the quadrature rule.
        if d_a <= d_b:
            xy_sqr = (x - elem_trial.__log_scheme_y)**2
        else:
            xy_sqr = (x - elem_trial.__log_scheme_m_y)**2
        xy = xy_sqr[0] + xy_sqr[1]

        # Evaluate the time integrated kernel for the above points.
        if t <= t_b:
            vec = -FPI_INV * expi(-xy / (4 * (t - t_a)))
        else:
            vec = FPI_INV * (expi(-xy / (4 * (t - t_b))) - expi(-xy /
                                                                (4 *
                                                                 (t - t_a))))
        # Return the quadrature result.
        return (x_b - x_a) * np.dot(self.log_scheme.weights, vec)

    def evaluate_exact(self, elem_trial: Element, t: float, x: float) -> float:
        """ Evaluates (V 1_trial)(t, x) for elem_trial lying on the
            same pane as x. """
        if t <= elem_trial.time_interval[0]: return 0
        a, b = elem_trial.space_interval
        if x < a or x > b:
            h = min(abs(a - x), abs(b - x))
            k = max(abs(a - x), abs(b - x))
            a, b = elem_trial.time_interval
            if t <= b:
                return -FPI_INV * (PI_SQRT * (2 * sqrt(
                    (t - a))) * (erf(h / (2 * sqrt(
                        (t - a)))) - erf(k / (2 * sqrt(
                            (t - a))))) - h * expi(-(h**2 / (4 * (t - a)))) +
                                   k * expi(-(k**2 / (4 * (t - a)))))
            else:
                return FPI_INV * (
                    2 * PI_SQRT *
                    (sqrt(t - a) *
                     (-erf(h / (2 * sqrt(t - a))) + erf(k /
                                                        (2 * sqrt(t - a)))) +
                     sqrt(t - b) *
                     (erf(h / (2 * sqrt(t - b))) - erf(k /
                                                       (2 * sqrt(t - b))))) +
                    h * expi(h**2 / (4 * (a - t))) - k * expi(k**2 /
                                                              (4 * (a - t))) -
                    h * expi(h**2 / (4 * (b - t))) + k * expi(k**2 /
                                                              (4 * (b - t))))
        elif a < x < b:
            return spacetime_evaluated_1(
                t, *elem_trial.time_interval, x - a) + spacetime_evaluated_1(
                    t, *elem_trial.time_interval, b - x)
        elif x == a or x == b:
            return spacetime_evaluated_1(t, *elem_trial.time_interval, b - a)

    def evaluate_vector(self, t, x_hat):
        """ Returns the vector (V 1_elem)(t, gamma(x_hat)) for all elements in mesh. """
        elems = list(self.mesh.leaf_elements)
        N = len(elems)
        vec = np.zeros(shape=N)
        x = self.mesh.gamma_space.eval(x_hat)
        for j, elem_trial in enumerate(elems):
            vec[j] = self.evaluate(elem_trial, t, x_hat, x)
        return vec

    def rhs_vector(self, f, gauss_order=23):
        """ Returns the vector f(1_elem) for all elements in the mesh. """
        gauss_scheme = gauss_quadrature_scheme(gauss_order)
        gauss_2d = ProductScheme2D(gauss_scheme, gauss_scheme)
        elems = list(self.mesh.leaf_elements)
        N = len(elems)
        vec = np.zeros(shape=N)
        for i, elem_test in enumerate(elems):
            f_param = lambda tx: f(tx[0], elem_test.gamma_space(tx[1]))
            vec[i] = gauss_2d.integrate(f_param, *elem_test.time_interval,
                                        *elem_test.space_interval)
        return vec
