import time

import numpy as np

from .hierarchical_error_estimator import DummyElement


class HH2ErrorEstimator:
    def __init__(self, SL, M0=None, g=None, use_mp=True):
        self.SL = SL
        self.M0 = M0
        self.g = g
        self.use_mp = use_mp

    def estimate(self, elems, Phi, problem=None):
        """ Returns the hierarchical basis estimator for given function Phi. """

        # Calcualte uniform refinement of the mesh.
        elems_coarse = elems
        elem_2_children = DummyElement.uniform_refinement(elems_coarse)

        # Flatten list and calculate mapping of indices.
        elems_fine = [
            child for children in elem_2_children for child in children
        ]
        #elem_2_idx_fine = {k: v for v, k in enumerate(elems_fine)}

        # Evaluate SL matrix on the fine mesh.
        mat_fine = self.SL.bilform_matrix(elems_test=elems_fine,
                                          elems_trial=elems_fine,
                                          use_mp=self.use_mp)

        # Evaluate rhs on the fine mesh.
        rhs = np.zeros(len(elems_fine))

        # Evaluate the dirichlet data
        if self.g:
            rhs += self.g(elems_fine)

        # Evaluate the RHS on the fine mesh.
        if self.M0:
            rhs -= self.M0.linform_vector(elems=elems_fine, use_mp=self.use_mp)

        # Solve
        time_solve_begin = time.time()
        Phi_fine = np.linalg.solve(mat_fine, rhs)
        print('Solving fine matrix took {}s'.format(time.time() -
                                                    time_solve_begin))

        # Prolongate the normal phi.
        Phi_prolong = np.repeat(Phi, 4)
        assert Phi_prolong[0] == Phi_prolong[1]

        # Calculate error.
        diff = Phi_fine - Phi_prolong
        return np.sqrt(diff.T @ mat_fine @ diff)
