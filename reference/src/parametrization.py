import numpy as np

from .quadrature import ProductScheme2D, gauss_quadrature_scheme


# Simple parametrizations.
def circle(x_hat):
    """ Simple circle parametrization. """
    return np.vstack([np.cos(x_hat), np.sin(x_hat)])


def circle_project(x):
    """ Finds t that minimized |circle(t) - x|_2. """
    return np.atan(x[1] / x[0])


def line(a, b, x_start=0):
    """ Returns parametrization of the segment from a to b. """
    norm = np.linalg.norm(b - a)
    direct = (b - a) / norm

    direct = np.copy(direct.reshape(2, 1))
    a = np.copy(a.reshape(2, 1))

    def fun(x_hat):
        return (x_hat - x_start) * direct + a

    return fun, norm


def line_project(a, b, x_start=0):
    """ Finds t that minimized |line_ab(t) - y|_2. """
    norm = np.linalg.norm(b - a)
    direct = (b - a) / norm

    def fun(y):
        t_proj = np.dot(y - a, direct) / np.dot(direct, direct) + x_start
        return t_proj

    return fun


def central_derivative(gamma, x, h=1e-5):
    return (gamma(x + h) - gamma(x - h)) / (2 * h)


class PiecewiseParametrization:
    def __init__(self, pw_start, pw_gamma, closed=True):
        self.pw_start = pw_start
        self.pw_gamma = pw_gamma
        self.closed = closed
        self.gamma_length = pw_start[-1]

        assert self.pw_start[0] == 0 and self.gamma_length > 0

        # Assert that the curve is closed.
        if self.closed:
            assert (np.allclose(self.eval(0), self.eval(self.gamma_length)))

        # Estimate derivative and ensure gamma has arc length.
        gamma_deriv = central_derivative(
            self.eval, np.linspace(1e-4, self.gamma_length - 1e-4))
        assert np.allclose(np.linalg.norm(gamma_deriv, axis=0), 1)

    def eval(self, x_hat):
        """ Evaluates this piecewise gamma. """
        # Wrap indices around.
        assert np.all((0 <= x_hat) & (x_hat <= self.gamma_length))
        #x_hat = (x_hat + self.gamma_length) % self.gamma_length
        if len(self.pw_gamma) == 1:
            return self.pw_gamma[0](x_hat)

        # Else use numpy. NOTE: Expensive.
        condlist = []
        pw_eval = []
        for i in range(len(self.pw_gamma)):
            condlist.append((self.pw_start[i] <= x_hat)
                            & (x_hat <= self.pw_start[i + 1]))
            pw_eval.append(self.pw_gamma[i](x_hat))

        return np.select(condlist, pw_eval)

    def plot(self):
        import matplotlib.pyplot as plt

        # Evaluate gamma on a set of points and plot.
        pts = self.eval(
            np.linspace(0, self.gamma_length,
                        int(self.gamma_length) * 10 + 1))
        plt.figure()
        plt.plot(pts[0, :], pts[1, :])


class PiecewisePolygon(PiecewiseParametrization):
    def __init__(self, vertices, closed=True):
        for vertex in vertices:
            assert len(vertex) == 2
        if closed:
            assert (np.all(vertices[0] == vertices[-1]))

        # Create piecewise functions.
        pw_start = [0]
        pw_gamma = []
        pw_proj = []
        for i in range(len(vertices) - 1):
            a, b = vertices[i], vertices[i + 1]
            gamma, length = line(a, b, x_start=pw_start[i])

            assert np.all(
                gamma(pw_start[i]).flatten() == np.array(vertices[i]))
            assert np.all(
                gamma(pw_start[i] + length).flatten() == np.array(vertices[i +
                                                                           1]))
            pw_proj.append(line_project(a, b, x_start=pw_start[i]))

            pw_start.append(length + pw_start[i])
            pw_gamma.append(gamma)

        # Invoke parent.
        super().__init__(pw_start=pw_start, pw_gamma=pw_gamma, closed=closed)


class Circle(PiecewiseParametrization):
    def __init__(self):
        # Parametrization is simply the circle.
        pw_start = [0, 2 * np.pi]
        pw_gamma = [circle]

        # Invoke parent.
        super().__init__(pw_start=pw_start, pw_gamma=pw_gamma)

    def integrator(self, poly_order):
        import quadpy
        #scheme = quadpy.s2.get_good_scheme(poly_order)
        assert (poly_order % 2 != 0)
        n = (poly_order + 1) // 2
        scheme = quadpy.s2._lether.lether(n)
        assert scheme.degree == poly_order
        return lambda f: scheme.integrate(f, [0.0, 0.0], 1.0)

    def project(self, x):
        """ Projects the vector x onto the surface and returns the params. """

    def __repr__(self):
        return "Circle"


class UnitSquare(PiecewisePolygon):
    def __init__(self):
        v0 = np.array([0, 0])
        v1 = np.array([1, 0])
        v2 = np.array([1, 1])
        v3 = np.array([0, 1])
        super().__init__(vertices=[v0, v1, v2, v3, v0])

    def integrator(self, poly_order):
        #scheme = quadpy.c2.product(quadpy.c1.gauss_legendre(poly_order))
        scheme = ProductScheme2D(gauss_quadrature_scheme(poly_order))
        return lambda f: scheme.integrate(f, 0, 1, 0, 1)
        #scheme = quadpy.c2.get_good_scheme(poly_order)
        #return lambda f: scheme.integrate(
        #    f,
        #    [[[0.0, 0.0], [1.0, 0.0]], [[0.0, 1.0], [1.0, 1.0]]],
        #)

    def __repr__(self):
        return "UnitSquare"


class PiSquare(PiecewisePolygon):
    def __init__(self):
        v0 = np.array([0, 0])
        v1 = np.array([np.pi, 0])
        v2 = np.array([np.pi, np.pi])
        v3 = np.array([0, np.pi])
        super().__init__(vertices=[v0, v1, v2, v3, v0])

    def integrator(self, poly_order):
        #scheme = quadpy.c2.product(quadpy.c1.gauss_legendre(poly_order))
        scheme = ProductScheme2D(gauss_quadrature_scheme(poly_order))
        return lambda f: scheme.integrate(f, 0, np.pi, 0, np.pi)
        #scheme = quadpy.c2.get_good_scheme(poly_order)
        #return lambda f: scheme.integrate(
        #    f,
        #    [[[0.0, 0.0], [1.0, 0.0]], [[0.0, 1.0], [1.0, 1.0]]],
        #)

    def __repr__(self):
        return "PiSquare"


class LShape(PiecewisePolygon):
    def __init__(self):
        v0 = np.array([0, 0])
        v1 = np.array([0, -1])
        v2 = np.array([1, -1])
        v3 = np.array([1, 1])
        v4 = np.array([-1, 1])
        v5 = np.array([-1, 0])
        super().__init__(vertices=[v0, v1, v2, v3, v4, v5, v0])

    def __repr__(self):
        return "LShape"

    def integrator(self, poly_order):
        scheme = ProductScheme2D(gauss_quadrature_scheme(poly_order))
        return lambda f: scheme.integrate(f, -1, 0, 0, 1) + scheme.integrate(
            f, 0, 1, 0, 1) + scheme.integrate(f, 0, 1, -1, 0)


class UnitInterval(PiecewisePolygon):
    def __init__(self):
        v0 = np.array([0, 0])
        v1 = np.array([1, 0])
        super().__init__(vertices=[v0, v1], closed=False)


if __name__ == "__main__":
    # Unit Interval
    gamma = UnitInterval()
    gamma.plot()

    # Circle.
    gamma = Circle()
    gamma.plot()

    # Unit square.
    gamma = UnitSquare()
    gamma.plot()

    # L-shape.
    gamma = LShape()
    gamma.plot()
