import numpy as np

from .quadrature import (ProductScheme2D, QuadScheme2D,
                         gauss_quadrature_scheme,
                         gauss_sqrtinv_quadrature_scheme,
                         gauss_x_quadrature_scheme)


class Slobodeckij:
    def __init__(self, N_poly_1_4, N_poly_1_2=None):
        if N_poly_1_2 is None: N_poly_1_2 = N_poly_1_4
        # Scheme for H^{1/4}.
        self.gauss_sqrtinv = gauss_sqrtinv_quadrature_scheme(N_poly_1_4)
        gauss_sqrtinv_2d = ProductScheme2D(self.gauss_sqrtinv,
                                           self.gauss_sqrtinv)
        x = gauss_sqrtinv_2d.points[0]
        y = gauss_sqrtinv_2d.points[1]
        self.semi_1_4_xy = x * (1 - y)
        self.semi_1_4_weights = 2 * gauss_sqrtinv_2d.weights / y

        # Scheme for H^{1/2}
        self.gauss_leg = gauss_quadrature_scheme(N_poly_1_2)
        self.gauss_x = gauss_x_quadrature_scheme(N_poly_1_2)
        gauss_x_leg_2d = ProductScheme2D(self.gauss_x, self.gauss_leg)

        # Identical gamma's use this.
        x = gauss_x_leg_2d.points[0]
        y = gauss_x_leg_2d.points[1]
        self.semi_1_2_xy = x * y
        self.semi_1_2_weights = gauss_x_leg_2d.weights

        # Touching elements, will use this.
        points = [np.hstack([1 - x, 1 - x * y]), np.hstack([x * y, x])]
        weights = np.hstack([gauss_x_leg_2d.weights, gauss_x_leg_2d.weights])
        self.semi_1_2_pw = QuadScheme2D(points, weights)

    def seminorm_h_1_4(self, f, a, b):
        """ Evaluates the squared H^{1/4}-seminorm of smooth f on the interval [a,b]. """
        h = b - a
        x = a + h * self.gauss_sqrtinv.points
        xy = a + h * self.semi_1_4_xy
        fx = np.repeat(f(x), len(x))
        fxy = np.asarray(f(xy))
        return h**(1 / 2) * np.dot((fx - fxy)**2, self.semi_1_4_weights)

    def seminorm_h_1_2(self, f, a, b, gamma=None):
        """ Evaluates the squared H^{1/2}-seminorm of smooth f on the interval [a,b].

        If gamma is none, evaluates: |f(x) - f(y)|^2 / |x - y|^2.
        Else: |f(x, gamma(x)) - f(y, gamma(y))|^2 / |gamma(x) - gamma(y)|^2.
        """
        h = b - a
        x_hat = a + h * self.gauss_x.points
        xy_hat = a + h * self.semi_1_2_xy
        if gamma is None:
            x = x_hat
            xy = xy_hat
            xy_sqr = (np.repeat(x, len(x)) - xy)**2
            fx = np.repeat(f(x), len(x))
            fxy = np.asarray(f(xy))
        else:
            x = gamma(x_hat)
            xy = gamma(xy_hat)
            xy_sqr = np.sum((np.repeat(x, len(x_hat), axis=1) - xy)**2, axis=0)
            fx = np.repeat(f(x_hat, gamma), len(x_hat))
            fxy = np.asarray(f(xy_hat, gamma))

        return 2 * h**2 * np.dot((fx - fxy)**2 / xy_sqr, self.semi_1_2_weights)

    def seminorm_h_1_2_pw(self, f, a_1, b_1, gamma_1, a_2, b_2, gamma_2):
        """ Evaluates the squared H^{1/2}-seminorm of smooth f over the
            two elemens induced by gamma_1 and gamma_2.  """
        assert gamma_1 is not gamma_2
        assert np.all(gamma_1(b_1) == gamma_2(a_2))

        # Evaluate seminorm of f on [a_1, b_1].
        result = self.seminorm_h_1_2(f, a_1, b_1, gamma_1)

        # Evaluate seminorm of f on [a_2, b_2].
        result += self.seminorm_h_1_2(f, a_2, b_2, gamma_2)

        def slo(xy):
            x_hat = xy[0]
            y_hat = xy[1]
            x = gamma_1(x_hat)
            y = gamma_2(y_hat)
            xy_sqr = np.sum((x - y)**2, axis=0)
            return (f(x_hat, gamma_1) - f(y_hat, gamma_2))**2 / xy_sqr

        # Evaluate seminorm of f on [a_1, b_1] cross [a_2, b_2]
        result += 2 * self.semi_1_2_pw.integrate(slo, a_1, b_1, a_2, b_2)
        return result
