from math import isclose

import numpy as np


class Vertex:
    def __init__(self, x, y, idx):
        self.x = x
        self.y = y
        self.xy = (x, y)
        self.xy_np = np.array([[float(x)], [float(y)]])
        self.idx = idx

    def __repr__(self):
        return "({},{})".format(self.x, self.y)


class Element:
    def __init__(self, vertices, parent=None):
        self.vertices = vertices
        self.parent = parent

        if parent:
            self.level = parent.level + 1
        else:
            self.level = 0

        assert vertices[0].y == vertices[1].y
        assert vertices[1].x == vertices[2].x
        assert vertices[2].y == vertices[3].y
        assert vertices[3].x == vertices[0].x
        assert vertices[0].x < vertices[2].x
        assert vertices[0].y < vertices[2].y

        # Check that we are square.
        assert isclose(self.vertices[1].x - self.vertices[0].x,
                       self.vertices[3].y - self.vertices[0].y)

    @property
    def edges(self):
        return [(self.vertices[0], self.vertices[1]),
                (self.vertices[1], self.vertices[2]),
                (self.vertices[2], self.vertices[3]),
                (self.vertices[3], self.vertices[0])]

    @property
    def diam(self):
        return self.vertices[1].x - self.vertices[0].x

    # Check whether this element contains a given point.
    def contains(self, pt):
        return self.vertices[0].x <= pt[0] <= self.vertices[
            2].x and self.vertices[0].y <= pt[1] <= self.vertices[2].y

    # Returns parametrization of [0,1]^2 to this elem.
    def gamma(self):
        n0 = self.vertices[0].xy_np
        n1 = self.vertices[1].xy_np
        n3 = self.vertices[3].xy_np
        return lambda x, z: n0 + (n1 - n0) * x + (n3 - n0) * z

    # Returns the two vertices sharing a boundary with the given vertex.
    def connected_to_vertex(self, vertex):
        assert vertex in self.vertices
        result = []
        for vtx in self.vertices:
            if (vtx.x == vertex.x) ^ (vtx.y == vertex.y):
                result.append(vtx)
        assert len(result) == 2
        return result

    def __repr__(self):
        return "Elem({}, {})".format(self.vertices[0], self.vertices[2])


class InitialMesh:
    def __init__(self, vertices, elements):
        self.vertices = []
        for i, xy in enumerate(vertices):
            self.vertices.append(Vertex(x=xy[0], y=xy[1], idx=i))
        self.__bisect_edge = {}
        self.parent_edge = {}
        self.elements = []
        self.leaf_elements = set()
        self.nbrs = {}
        for v0, v1, v2, v3 in elements:
            self.elements.append(
                Element(vertices=(self.vertices[v0], self.vertices[v1],
                                  self.vertices[v2], self.vertices[v3])))
            self.leaf_elements.add(self.elements[-1])

        for elem in self.elements:
            for edge in elem.edges:
                self.nbrs[edge] = elem

    def vertex_from_coords(self, xy):
        xy = np.array(xy).flatten()
        result = None
        for vtx in self.vertices:
            if isclose(vtx.x, xy[0]) and isclose(vtx.y, xy[1]):
                assert result is None
                result = vtx
        return result

    def bisect_edge(self, a, b):
        assert not (a, b) in self.__bisect_edge

        if (b, a) in self.__bisect_edge:
            new_vtx = self.__bisect_edge[(b, a)]
        else:
            new_vtx = Vertex(x=(a.x + b.x) / 2,
                             y=(a.y + b.y) / 2,
                             idx=len(self.vertices))
            self.vertices.append(new_vtx)
            assert (a.x == b.x == new_vtx.x) ^ (a.y == b.y == new_vtx.y)

        self.__bisect_edge[(a, b)] = new_vtx
        self.parent_edge[(a, new_vtx)] = (a, b)
        self.parent_edge[(new_vtx, b)] = (a, b)

        return new_vtx

    def refine(self, element):
        # Check neighbours.
        for a, b in element.edges:
            # If we have no neighbours along this edge, first refine the nbr.
            if not (b, a) in self.nbrs:
                # Root edge does not need to be refined.
                if not (a, b) in self.parent_edge: continue

                # Find the parent edge.
                pa, pb = self.parent_edge[(a, b)]

                # Check if we have a nbr along this edge, if not it is on bdr.
                if (pb, pa) in self.nbrs:
                    assert self.nbrs[(pb, pa)].level == element.level - 1
                    self.refine(self.nbrs[(pb, pa)])

        # Unpack vertices.
        v0, v1, v2, v3 = element.vertices

        # Bisect all edges.
        v01 = self.bisect_edge(v0, v1)
        v12 = self.bisect_edge(v1, v2)
        v23 = self.bisect_edge(v2, v3)
        v30 = self.bisect_edge(v3, v0)

        # Create interior vertex.
        vi = Vertex(x=(v0.x + v2.x) / 2,
                    y=(v0.y + v2.y) / 2,
                    idx=len(self.vertices))
        self.vertices.append(vi)

        # Create the four children.
        children = [
            Element(vertices=[v0, v01, vi, v30], parent=element),
            Element(vertices=[v01, v1, v12, vi], parent=element),
            Element(vertices=[vi, v12, v2, v23], parent=element),
            Element(vertices=[v30, vi, v23, v3], parent=element)
        ]

        # Register ourselves in the nbrs list.
        for child in children:
            for edge in child.edges:
                self.nbrs[edge] = child

        # Update leaf elements
        self.elements.extend(children)
        self.leaf_elements.remove(element)
        self.leaf_elements.update(children)
        return children

    def uniform_refine(self):
        leaves = list(self.leaf_elements)
        for elem in leaves:
            self.refine(elem)

    def refine_msh_bdr(self, v0, v1, eps=1e-10):
        """ Locally refines the mesh until it contains an element (touching the boundary)
            that has an edge that coincides with the given edge v0 <--> v1. """
        # Cast the input to a vector.
        v0 = np.array(v0).reshape(-1, 1)
        v1 = np.array(v1).reshape(-1, 1)

        # Sort the input
        if tuple(v0.flatten()) > tuple(v1.flatten()): v0, v1 = v1, v0
        axis = None
        for i in range(2):
            if v0[i] == v1[i]:
                axis = i
        assert axis is not None
        n_axis = int(not axis)

        # Start with all elements.
        children = self.leaf_elements
        while True:
            parent = None

            # Find the element that contains edge v0 -- v1.
            for elem in children:
                for a, b in elem.edges:
                    if a.xy <= b.xy:
                        va, vb = a.xy_np, b.xy_np
                    else:
                        va, vb = b.xy_np, a.xy_np

                    # Check that we lie on correct edge.
                    if not (v0[axis] == va[axis] == vb[axis]):
                        continue

                    # Check whether v0 v1 is contained in other edge.
                    assert v0[n_axis] <= v1[n_axis]
                    if va[n_axis] - eps * abs(va[n_axis]) <= v0[n_axis] <= v1[
                            n_axis] <= vb[n_axis] + eps * abs(vb[n_axis]):
                        # If this elements edge coincides with v0, v1, return!
                        if isclose(va[n_axis, 0], v0[n_axis, 0]) and isclose(
                                v1[n_axis, 0], vb[n_axis, 0]):
                            return elem
                        parent = elem

            assert parent
            children = self.refine(parent)

    def gmsh(self):
        """Returns the (leaf) grid in gmsh format."""
        result = "$MeshFormat\n2.2 0 8\n$EndMeshFormat\n$Nodes\n{}\n".format(
            len(self.vertices))
        for i, vtx in enumerate(self.vertices):
            result += "{} {} {} 0\n".format(i + 1, vtx.x, vtx.y)

        result += "$EndNodes\n$Elements\n{}\n".format(len(self.leaf_elements))
        for idx, element in enumerate(self.leaf_elements):
            result += "{} 3 2 0 0 {} {} {} {}\n".format(
                idx + 1, element.vertices[0].idx + 1,
                element.vertices[1].idx + 1, element.vertices[2].idx + 1,
                element.vertices[3].idx + 1)
        result += "$EndElements\n"
        return result


def UnitSquare():
    return InitialMesh(vertices=[(0, 0), (1, 0), (1, 1), (0, 1)],
                       elements=[(0, 1, 2, 3)])


def PiSquare():
    return InitialMesh(vertices=[(0, 0), (np.pi, 0), (np.pi, np.pi),
                                 (0, np.pi)],
                       elements=[(0, 1, 2, 3)])


def LShape():
    return InitialMesh(vertices=[(0, 0), (0, -1), (1, -1), (1, 0), (1, 1),
                                 (0, 1), (-1, 1), (-1, 0)],
                       elements=[(1, 2, 3, 0), (0, 3, 4, 5), (7, 0, 5, 6)])


def UnitSquareBoundaryRefined(v0, v1):
    mesh = UnitSquare()
    mesh.refine_msh_bdr(v0, v1)
    return mesh


def PiSquareBoundaryRefined(v0, v1):
    mesh = PiSquare()
    mesh.refine_msh_bdr(v0, v1)
    return mesh


def LShapeBoundaryRefined(v0, v1):
    mesh = LShape()
    mesh.refine_msh_bdr(v0, v1)
    return mesh
