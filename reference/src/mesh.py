import hashlib
from collections import OrderedDict

import numpy as np

from .parametrization import PiecewiseParametrization


class Vertex:
    def __init__(self, t, x, idx):
        self.t = t
        self.x = x
        self.idx = idx

    @property
    def tx(self):
        return (self.t, self.x)

    def __repr__(self):
        return "({},{})".format(self.t, self.x)


class Edge:
    """ Represents a single edge of some element. """
    def __init__(self, vertices, parent=None):
        self.vertices = vertices
        self.parent = parent

        # These are to be filled.
        self.elem = None
        self.nbr_edge = None
        self.children = []

        if parent:
            self.on_boundary = parent.on_boundary
            self.glued = parent.glued
        else:
            self.on_boundary = False
            self.glued = False

    @property
    def space_edge(self):
        return self.vertices[0].t == self.vertices[1].t

    @property
    def time_edge(self):
        return self.vertices[0].x == self.vertices[1].x

    def bisect(self, child_vertex):
        """ Bisects this edge given the child_vertex. """
        if not self.children:
            a, b = self.vertices
            self.children = (Edge((a, child_vertex),
                                  self), Edge((child_vertex, b), self))

            # Update neighbouring relations between edges.
            if self.nbr_edge and self.nbr_edge.children:
                if not self.glued:
                    assert self.vertices[0] == self.nbr_edge.vertices[1]
                    assert self.vertices[1] == self.nbr_edge.vertices[0]
                assert not self.nbr_edge.children[0].nbr_edge
                assert not self.nbr_edge.children[1].nbr_edge

                self.children[0].nbr_edge = self.nbr_edge.children[1]
                self.children[1].nbr_edge = self.nbr_edge.children[0]
                self.nbr_edge.children[0].nbr_edge = self.children[1]
                self.nbr_edge.children[1].nbr_edge = self.children[0]

        return self.children

    def neighbour_elements(self):
        """ Find the neighbouring element of this edge. """
        # If we have a neighbour edge that is not refined, return the nbr elem.
        if self.nbr_edge and not self.nbr_edge.children:
            return [self.nbr_edge.elem]

        # If we have a neighbour edge that is refined, return its children.
        if self.nbr_edge and self.nbr_edge.children:
            return [child.elem for child in self.nbr_edge.children]

        # If we have have no neighbouring edge, but our parent does, return this.
        if not self.nbr_edge and self.parent and self.parent.nbr_edge:
            return self.parent.neighbour_elements()

        # Else we do not have neighbours, must be on the boundary.
        assert self.on_boundary and not self.glued
        return []

    def __repr__(self):
        return "Edge({}, {})".format(self.vertices[0], self.vertices[1])


class Element:
    def __init__(self, edges, levels, parent=None):
        """
        Edges are in order (v0 v1), (v1, v2), (v2, v3), (v3, v0)
        Vertices in order of (0, 0), (0, 1), (1, 1), (1, 0).  """
        self.edges = edges
        self.levels = levels
        self.vertices = [edge.vertices[0] for edge in edges]
        self.parent = parent
        self.children = []

        if parent:
            self.gamma_space = parent.gamma_space
        else:
            assert levels == (0, 0)
            self.gamma_space = None
        #print('Create elem with vertices {}'.format(self.vertices))

        # Register ourselves in the edges.
        for edge in edges:
            assert not edge.elem
            edge.elem = self

        # Sanity check.
        for i in range(4):
            assert edges[i - 1].vertices[1] == edges[i].vertices[0]
        assert len(edges) == 4 and len(levels) == 2
        assert self.vertices[0].t == self.vertices[1].t
        assert self.vertices[1].x == self.vertices[2].x
        assert self.vertices[2].t == self.vertices[3].t
        assert self.vertices[3].x == self.vertices[0].x
        assert self.vertices[0].t < self.vertices[2].t
        assert self.vertices[0].x < self.vertices[1].x

        self.center = Vertex(t=(self.vertices[0].t + self.vertices[2].t) / 2,
                             x=(self.vertices[0].x + self.vertices[1].x) / 2,
                             idx=-1)

        self.time_interval = self.vertices[0].t, self.vertices[2].t
        self.space_interval = self.vertices[0].x, self.vertices[2].x
        self.h_t = abs(self.vertices[2].t - self.vertices[0].t)
        self.h_x = abs(self.vertices[2].x - self.vertices[0].x)
        assert self.h_x == self.space_interval[1] - self.space_interval[0]
        assert self.h_t == self.time_interval[1] - self.time_interval[0]

    def dist(self, other):
        """ Calculates the distance in the embedded space. """
        assert self.gamma_space and other.gamma_space
        return np.linalg.norm(
            self.gamma_space(self.center) - other.gamma_space(other.center))

    @property
    def level_time(self):
        return self.levels[0]

    @property
    def level_space(self):
        return self.levels[1]

    def edges_axis(self, ax):
        assert 0 <= ax <= 1
        return (self.edges[1 - ax], self.edges[3 - ax])

    def __repr__(self):
        return "Elem(t={}, x={})".format(self.time_interval,
                                         self.space_interval)


class Mesh:
    def __init__(self,
                 glue_space=False,
                 initial_space_mesh=[0, 1],
                 initial_time_mesh=[0, 1]):
        self.glue_space = glue_space

        # Generate all vertices on both time boundaries.
        vertices = []
        for j, t in enumerate(initial_time_mesh):
            for i, x in enumerate(initial_space_mesh):
                vertices.append(Vertex(t=t, x=x, idx=len(vertices)))

        # Generate all the necessary elements + edges.
        roots = []
        N_t = len(initial_time_mesh) - 1
        N_x = len(initial_space_mesh) - 1
        for j in range(N_t):
            for i in range(N_x):
                v0 = vertices[j * len(initial_space_mesh) + i]
                v1 = vertices[j * len(initial_space_mesh) + i + 1]
                v2 = vertices[(j + 1) * len(initial_space_mesh) + i + 1]
                v3 = vertices[(j + 1) * len(initial_space_mesh) + i]

                # Create four edges and the element.
                e1 = Edge(vertices=(v0, v1))
                e2 = Edge(vertices=(v1, v2))
                e3 = Edge(vertices=(v2, v3))
                e4 = Edge(vertices=(v3, v0))
                roots.append(Element(edges=[e1, e2, e3, e4], levels=(0, 0)))
                roots[-1].glob_idx = len(roots) - 1

                # Set boundary edges correctly.
                if j == 0: e1.on_boundary = True
                if i + 1 == N_x: e2.on_boundary = True
                if i == 0: e4.on_boundary = True
                if j + 1 == N_t: e3.on_boundary = True

                # Set the space edge nbrs correctly.
                if i > 0:
                    roots[-2].edges[1].nbr_edge = roots[-1].edges[3]
                    roots[-1].edges[3].nbr_edge = roots[-2].edges[1]

                # Set time edge nbrs correctly.
                if j > 0:
                    roots[(j - 1) * N_x +
                          i].edges[2].nbr_edge = roots[-1].edges[0]
                    roots[-1].edges[0].nbr_edge = roots[(j - 1) * N_x +
                                                        i].edges[2]

            # Glue the outside time edges in case we have a closed manifold.
            if glue_space:
                roots[j * N_x].edges[3].glued = True
                roots[-1].edges[1].glued = True

                roots[j * N_x].edges[3].nbr_edge = roots[-1].edges[1]
                roots[-1].edges[1].nbr_edge = roots[j * N_x].edges[3]

        self.vertices = vertices
        self.roots = roots
        self.leaf_elements = OrderedDict.fromkeys(roots)
        self.N_elements = len(roots)

    def __bisect_edge(self, edge):
        """ Bisects edge and returns the vertex in the middle of edge. """
        assert not edge.children

        # Check if the vertex in the middle already exists.
        if not edge.glued and edge.nbr_edge and edge.nbr_edge.children:
            child_vertex = edge.nbr_edge.children[0].vertices[1]
        else:
            a, b = edge.vertices
            child_vertex = Vertex(t=(a.t + b.t) / 2,
                                  x=(a.x + b.x) / 2,
                                  idx=len(self.vertices))
            self.vertices.append(child_vertex)
            assert (a.t == b.t == child_vertex.t) ^ (a.x == b.x ==
                                                     child_vertex.x)

        edge.bisect(child_vertex)
        return child_vertex

    def __create_edges(self, vertices):
        """ Creates both edges between vertices. """
        e1 = Edge(vertices=(vertices[0], vertices[1]), parent=None)
        e2 = Edge(vertices=(vertices[1], vertices[0]), parent=None)
        e1.nbr_edge = e2
        e2.nbr_edge = e1
        return e1, e2

    def refine_axis(self, elem, ax):
        assert 0 <= ax <= 1

        # Ensure conformity in the current axis.
        for edge in elem.edges:
            for nbr_elem in edge.neighbour_elements():
                if nbr_elem.levels[ax] < elem.levels[ax]:
                    self.refine_axis(nbr_elem, ax)

        # Remove current elem from the currente dges.
        assert not elem.children
        for edge in elem.edges:
            assert edge.elem == elem
            edge.elem = None

        # Lets bisect the edges in the given axis and store new vertices.
        new_vertices = []
        for edge in elem.edges_axis(ax):
            new_vertices.append(self.__bisect_edge(edge))
        assert new_vertices[0].tx[ax] == new_vertices[1].tx[ax]
        assert new_vertices[0].tx[1 - ax] != new_vertices[1].tx[1 - ax]

        # Create the edges between new vertices.
        e1, e2 = self.__create_edges(new_vertices)

        # Create the two new elements
        edges = elem.edges
        if ax == 0:
            # Refining in time
            child1 = Element(edges=(edges[0], edges[1].children[0], e1,
                                    edges[3].children[1]),
                             levels=(elem.level_time + 1, elem.level_space),
                             parent=elem)
            child2 = Element(edges=(e2, edges[1].children[1], edges[2],
                                    edges[3].children[0]),
                             levels=(elem.level_time + 1, elem.level_space),
                             parent=elem)
        else:
            # Refining in space
            child1 = Element(edges=(edges[0].children[0], e1,
                                    edges[2].children[1], edges[3]),
                             levels=(elem.level_time, elem.level_space + 1),
                             parent=elem)
            child2 = Element(edges=(edges[0].children[1], edges[1],
                                    edges[2].children[0], e2),
                             levels=(elem.level_time, elem.level_space + 1),
                             parent=elem)

        child1.glob_idx = self.N_elements
        child2.glob_idx = self.N_elements + 1
        self.N_elements += 2

        # Update datastructures with new elements.
        self.leaf_elements.pop(elem)
        self.leaf_elements.setdefault(child1)
        self.leaf_elements.setdefault(child2)

        elem.children = (child1, child2)
        return elem.children

    def refine_time(self, elem):
        return self.refine_axis(elem, 0)

    def refine_space(self, elem):
        return self.refine_axis(elem, 1)

    def refine(self, elem):
        result = []
        for child in self.refine_time(elem):
            result.extend(self.refine_space(child))
        return result

    def uniform_refine(self):
        leaves = sorted(list(self.leaf_elements),
                        key=lambda elem: elem.level_time)
        for elem in leaves:
            self.refine_time(elem)

        leaves = sorted(list(self.leaf_elements),
                        key=lambda elem: elem.level_space)
        for elem in leaves:
            self.refine_space(elem)

    def uniform_refine_space(self):
        leaves = sorted(list(self.leaf_elements),
                        key=lambda elem: elem.level_space)
        for elem in leaves:
            self.refine_space(elem)

    def dorfler_refine_isotropic(self, eta_sqr, theta):
        print('Dorfler marking with theta = {}'.format(theta))
        elems = list(self.leaf_elements)
        N = len(elems)
        assert len(eta_sqr) == N
        s_idx = list(reversed(np.argsort(eta_sqr)))
        eta_tot_sqr = np.sum(eta_sqr)
        cumsum = 0.0
        marked = []
        for i in s_idx:
            marked.append(elems[i])
            cumsum += eta_sqr[i]
            if cumsum >= eta_tot_sqr * theta**2:
                break
        assert np.sqrt(cumsum) >= theta * np.sqrt(eta_tot_sqr)
        print('Marked {} / {} elements'.format(len(marked), N))

        # First refine in time.
        marked.sort(key=lambda elem: elem.level_time)
        children_time = []
        for elem in marked:
            assert not elem.children
            children_time.extend(self.refine_time(elem))

        # Then refine in space.
        children_time.sort(key=lambda elem: elem.level_space)
        for elem in children_time:
            assert not elem.children
            self.refine_space(elem)
        print(
            'Refinement added {} elements'.format(len(self.leaf_elements) - N))

    def dorfler_refine_anisotropic(self, eta_sqr, theta):
        print('Dorfler marking with theta = {}'.format(theta))
        elems = list(self.leaf_elements)
        N = len(elems)
        assert eta_sqr.shape == (N, 2)
        # Concatenate both lists.
        errs = [(val, elem, 0) for val, elem in zip(eta_sqr[:, 0], elems)]
        errs += [(val, elem, 1) for val, elem in zip(eta_sqr[:, 1], elems)]
        errs.sort(reverse=True, key=lambda tup: tup[0])
        eta_tot_sqr = np.sum(eta_sqr)
        cumsum = 0.0
        marked = [[], []]
        for val, elem, refine_axis in errs:
            marked[refine_axis].append(elem)
            cumsum += val
            if cumsum >= eta_tot_sqr * theta**2:
                break
        assert np.sqrt(cumsum) >= theta * np.sqrt(eta_tot_sqr)
        print('Marked {} elements for time refinemenent.'.format(len(
            marked[0])))
        print('Marked {} elements for space refinemenent.'.format(
            len(marked[1])))

        # First refine in time.
        marked[0].sort(key=lambda elem: elem.level_time)
        for elem in marked[0]:
            assert not elem.children
            self.refine_time(elem)

        # Replace elements marked for space refinement that have been refined
        # by the time refinemenent.
        marked_space = []
        for elem in marked[1]:
            if elem.children:
                marked_space.extend(elem.children)
            else:
                marked_space.append(elem)

        marked_space.sort(key=lambda elem: elem.level_space)
        for elem in marked_space:
            assert not elem.children
            self.refine_space(elem)
        print(
            'Refinement added {} elements'.format(len(self.leaf_elements) - N))

    def refine_grading(self, sigma=2, K=4):
        """ Refines the mesh such that h_t eqsim h_x**sigma. """
        print('Refine grading with sigma = {}'.format(sigma))
        N = len(self.leaf_elements)
        marked_space = True
        marked_time = True
        while marked_space or marked_time:
            marked_space = []
            marked_time = []
            elems = list(self.leaf_elements)
            for elem in elems:
                if elem.h_t / K >= elem.h_x**sigma:
                    marked_time.append(elem)
                elif elem.h_x**sigma >= K * elem.h_t:
                    marked_space.append(elem)
                else:
                    assert elem.h_t / K < elem.h_x**sigma < K * elem.h_t

            marked_time.sort(key=lambda elem: elem.level_time)
            for elem in marked_time:
                self.refine_time(elem)

            # Replace elements marked for space refinement that have been
            # refined by the time refinemenent.
            marked = marked_space
            marked_space = []
            for elem in marked:
                if elem.children:
                    marked_space.extend(elem.children)
                else:
                    marked_space.append(elem)

            marked_space.sort(key=lambda elem: elem.level_space)
            for elem in marked_space:
                assert not elem.children
                self.refine_space(elem)
        print('Grading added {} elements'.format(len(self.leaf_elements) - N))

    def md5(self):
        return hashlib.md5(self.gmsh().encode()).hexdigest()

    def gmsh(self, use_gamma=False, element_data=None):
        """Returns the (leaf) grid in gmsh format."""
        result = "$MeshFormat\n2.2 0 8\n$EndMeshFormat\n$Nodes\n{}\n".format(
            len(self.vertices))
        if not use_gamma:
            for vertex in self.vertices:
                result += "{} {} {} 0\n".format(vertex.idx + 1, vertex.t,
                                                vertex.x)
        else:
            for vertex in self.vertices:
                x, y = self.gamma_space.eval(vertex.x)[:, 0]
                result += "{} {} {} {}\n".format(vertex.idx + 1, vertex.t, x,
                                                 y)
        result += "$EndNodes\n$Elements\n{}\n".format(len(self.leaf_elements))
        for idx, element in enumerate(self.leaf_elements):
            result += "{} 3 2 0 0 {} {} {} {}\n".format(
                idx + 1, element.vertices[0].idx + 1,
                element.vertices[1].idx + 1, element.vertices[2].idx + 1,
                element.vertices[3].idx + 1)
        result += "$EndElements\n"

        if element_data is not None:
            result += "$ElementData\n1\n\"data\"\n0\n3\n0\n1\n{}\n".format(
                len(element_data))
            for idx, val in enumerate(element_data):
                result += "{} {}\n".format(idx + 1, val)
            result += "$EndElementData\n"
        return result


class MeshParametrized(Mesh):
    def __init__(self,
                 gamma_space,
                 initial_space_mesh=None,
                 initial_time_mesh=[0, 1]):
        assert isinstance(gamma_space, PiecewiseParametrization)
        if initial_space_mesh is None:
            initial_space_mesh = gamma_space.pw_start

        assert initial_space_mesh[0] == 0
        assert initial_space_mesh[-1] == gamma_space.pw_start[-1]

        super().__init__(glue_space=gamma_space.closed,
                         initial_space_mesh=initial_space_mesh,
                         initial_time_mesh=initial_time_mesh)
        self.gamma_space = gamma_space
        for elem in self.roots:
            for i in range(len(gamma_space.pw_start)):
                if gamma_space.pw_start[i] <= elem.vertices[
                        0].x < gamma_space.pw_start[i + 1]:
                    elem.gamma_space = gamma_space.pw_gamma[i]
                    break
            assert elem.gamma_space

        # Count vertices.
        assert len([vtx for vtx in self.vertices
                    if vtx.x == 0]) == len(initial_time_mesh)
        assert len([vtx for vtx in self.vertices
                    if vtx.t == 0]) == len(initial_space_mesh)
        assert len([
            vtx for vtx in self.vertices
            if vtx.x == self.gamma_space.gamma_length
        ]) == len(initial_time_mesh)
        assert len([
            vtx for vtx in self.vertices if vtx.t == initial_time_mesh[-1]
        ]) == len(initial_space_mesh)

        # Ensure that the initial space consists at least of three elements.
        if self.glue_space and len(initial_space_mesh) - 1 < 3:
            for elem in self.roots:
                self.refine_space(elem)
            leaves = list(self.leaf_elements)
            for elem in leaves:
                self.refine_space(elem)


def Prolongate(vec_coarse, elems_coarse, elems_fine):
    """ Helper function to prolongate a vector. """
    elem_coarse_2_idx = {k: v for v, k in enumerate(elems_coarse)}
    vec_fine = np.zeros(len(elems_fine))

    for j, elem_fine in enumerate(elems_fine):
        elem_coarse = elem_fine
        while elem_coarse not in elem_coarse_2_idx:
            assert elem_coarse.parent
            elem_coarse = elem_coarse.parent
        assert elem_coarse in elem_coarse_2_idx
        i = elem_coarse_2_idx[elem_coarse]
        vec_fine[j] = vec_coarse[i]
    return vec_fine
