import hashlib
import math
import multiprocessing as mp
from math import sqrt

import cython
import numpy as np
import numpy.typing as npt

from .norms import Slobodeckij
from .parametrization import PiecewisePolygon
from .quadrature import ProductScheme2D, gauss_quadrature_scheme


def MP_estim_l2(i):
    global __elems, __error_estimator, __residual
    return __error_estimator.weighted_l2(__elems[i], __residual)


def MP_estim_sobolev_time(i):
    global __elems, __error_estimator, __residual
    return __error_estimator.sobolev_time(__elems[i],
                                          __residual,
                                          nbrs_symmetry=True)


def MP_estim_sobolev_space(i):
    global __elems, __error_estimator, __residual
    return __error_estimator.sobolev_space(__elems[i],
                                           __residual,
                                           nbrs_symmetry=True)


class ErrorEstimator:
    def __init__(self, mesh, N_poly=5, cache_dir=None, problem=None):
        assert mesh.glue_space
        if not isinstance(N_poly, tuple):
            N_poly = (N_poly, N_poly, N_poly, N_poly)
        self.N_poly = N_poly
        N_weighted_l2, N_slobo_outer, N_slobo_time, N_slobo_space = N_poly
        print(
            'N_weighted_l2={}\nN_slobo_outer={}\nN_slobo_time={}\nN_slobo_space={}'
            .format(*N_poly))

        self.bdr_mesh = mesh
        self.gamma_len = mesh.gamma_space.gamma_length
        self.gauss_2d = ProductScheme2D(gauss_quadrature_scheme(N_weighted_l2))

        self.gauss = gauss_quadrature_scheme(N_slobo_outer)
        self.slobodeckij = Slobodeckij(N_slobo_time, N_slobo_space)

        # Storing options.
        self.cache_dir = cache_dir
        if problem is None: problem = str(self.bdr_mesh.gamma_space)
        self.problem = problem

    def __integrate_h_1_2(self, residual, t_a, t_b, elem_left, elem_right):
        val = np.zeros(self.gauss.weights.shape)
        h_t = float(t_b - t_a)
        points = t_a + h_t * self.gauss.points
        for i, t in enumerate(points):

            def residual_t(x_hat: npt.ArrayLike,
                           x: npt.ArrayLike) -> npt.ArrayLike:
                return residual(np.repeat(t, len(x_hat)), x_hat, x)

            if elem_right is None:
                val[i] = self.slobodeckij.seminorm_h_1_2(
                    residual_t, *elem_left.space_interval,
                    elem_left.gamma_space)
            elif elem_left.gamma_space is elem_right.gamma_space:
                gamma = elem_left.gamma_space
                assert np.allclose(gamma(elem_left.space_interval[1]),
                                   gamma(elem_right.space_interval[0]))
                val[i] = self.slobodeckij.seminorm_h_1_2(
                    residual_t, elem_left.space_interval[0],
                    elem_right.space_interval[1], gamma)
            else:
                val[i] = self.slobodeckij.seminorm_h_1_2_pw(
                    residual_t, *elem_left.space_interval,
                    elem_left.gamma_space, *elem_right.space_interval,
                    elem_right.gamma_space)

        approx = h_t * np.dot(val, self.gauss.weights)
        return approx

    def __integrate_h_1_4(self, residual, t_a, t_b, x_a, x_b, gamma):
        val = np.zeros(self.gauss.weights.shape)
        h_x = float(x_b - x_a)

        points = x_a + h_x * self.gauss.points
        for i, x_hat in enumerate(points):

            def slo(t: npt.ArrayLike) -> npt.ArrayLike:
                return residual(t, np.repeat(x_hat, len(t)), gamma)

            val[i] = self.slobodeckij.seminorm_h_1_4(slo, t_a, t_b)

        approx = h_x * np.dot(val, self.gauss.weights)
        return approx

    def sobolev_space(self, elem, residual, nbrs_symmetry=False):
        """ This calculates the sobolev space error estimator.

        That is, for every neighbour along a time axis, we evaluate
            |r|^2_{L(J cap J'; H^{1/2}(K cup K'))}.
        """
        time_neighbours = [elem]
        for edge in elem.edges_axis(0):
            time_neighbours += edge.neighbour_elements()

        ips = []
        for time_nbr in time_neighbours:
            # If we use neighbour symmetry, we only evaluate this comb. once!
            if nbrs_symmetry and elem.glob_idx > time_nbr.glob_idx: continue

            t_a = max(time_nbr.time_interval[0], elem.time_interval[0])
            t_b = min(time_nbr.time_interval[1], elem.time_interval[1])
            assert t_a < t_b

            # Determine the space parametrization.
            if time_nbr.vertices[2].x == self.gamma_len and elem.vertices[
                    0].x == 0:
                elem_left = time_nbr
                elem_right = elem
            elif elem.vertices[2].x == self.gamma_len and time_nbr.vertices[
                    0].x == 0:
                elem_left = elem
                elem_right = time_nbr
            elif elem.vertices[0].x < time_nbr.vertices[0].x:
                elem_left = elem
                elem_right = time_nbr
            elif time_nbr.vertices[0].x < elem.vertices[0].x:
                elem_left = time_nbr
                elem_right = elem
            else:
                assert time_nbr is elem
                elem_left = elem
                elem_right = None

            ips.append((time_nbr.glob_idx,
                        self.__integrate_h_1_2(residual, t_a, t_b, elem_left,
                                               elem_right)))
        assert len(ips) >= 1
        return math.fsum([val for elem, val in ips]), ips

    def sobolev_time(self, elem, residual, nbrs_symmetry=False):
        """ This calculates the sobolev time error estimator.

            That is, for every neighbour along a space axis, we evaluate
            |r|^2_{H^{1/4}(J cup J'; L_2(K cap  K')}.
        """
        space_neighbours = [elem]
        for edge in elem.edges_axis(1):
            space_neighbours += edge.neighbour_elements()

        ips = []
        for space_nbr in space_neighbours:
            # If we use neighbour symmetry, we only evaluate this comb. once!
            if nbrs_symmetry and elem.glob_idx > space_nbr.glob_idx: continue

            assert elem.gamma_space == space_nbr.gamma_space
            # Intersection.
            x_a = max(space_nbr.space_interval[0], elem.space_interval[0])
            x_b = min(space_nbr.space_interval[1], elem.space_interval[1])
            assert x_a < x_b

            # Union.
            t_a = min(space_nbr.time_interval[0], elem.time_interval[0])
            t_b = max(space_nbr.time_interval[1], elem.time_interval[1])

            ips.append((space_nbr.glob_idx,
                        self.__integrate_h_1_4(residual, t_a, t_b, x_a, x_b,
                                               elem.gamma_space)))
        assert len(ips) >= 1
        return math.fsum([val for elem, val in ips]), ips

    def weighted_l2(self, elem, residual):
        """ Residual takes arguments t, x_hat, x. """
        # Evaluate squared integral.
        t_a = elem.time_interval[0]
        x_a = elem.space_interval[0]
        t = np.array(t_a + elem.h_t * self.gauss_2d.points[0])
        x_hat = np.array(x_a + elem.h_x * self.gauss_2d.points[1])

        res_sqr = np.asarray(residual(t, x_hat, elem.gamma_space))**2
        res_l2 = np.dot(res_sqr, self.gauss_2d.weights)

        #  h_t * h_x * h_t^(-1/2) in time.
        #  h_t * h_x * h_x^(-1) in space.
        return sqrt(elem.h_t) * elem.h_x * res_l2, elem.h_t * res_l2

    def residual(self, elems, Phi, SL, M0u0=None, g=None, SL_exact_eval=False):
        """ Returns the residual function. """
        SL._init_elems(elems)
        # The closed forms only hold on straight pieces.
        SL_exact_eval = SL_exact_eval and isinstance(
            self.bdr_mesh.gamma_space, PiecewisePolygon)

        @cython.locals(VPhi=cython.double)
        def residual(t: npt.ArrayLike, x_hat: npt.ArrayLike,
                     gamma: object) -> npt.ArrayLike:
            assert len(t) == len(x_hat)
            x = gamma(x_hat)
            result = np.zeros(len(t))
            for i, (t, x_hat, x) in enumerate(zip(t, x_hat, x.T)):
                # Evaluate the SL for our trial function.
                VPhi = 0
                for j, elem_trial in enumerate(elems):
                    if t <= elem_trial.time_interval[0]: continue
                    if SL_exact_eval and elem_trial.gamma_space is gamma:
                        VPhi += Phi[j] * SL.evaluate_exact(
                            elem_trial, t, x_hat)
                    else:
                        VPhi += Phi[j] * SL.evaluate(elem_trial, t, x_hat,
                                                     x.reshape(2, 1))
                result[i] = VPhi

                # Compare with rhs.
                if M0u0:
                    result[i] += np.squeeze(M0u0(t, x.reshape(2, 1)))
                if g:
                    result[i] -= np.squeeze(g(t, x.reshape(2, 1)))

            return result

        return residual

    def estimate_weighted_l2(self, elems, residual, use_mp=False):
        """ Returns the error estimator for given function Phi. """
        N = len(elems)
        if self.cache_dir is not None:
            md5 = hashlib.md5((str(self.bdr_mesh.gamma_space) +
                               str(elems)).encode()).hexdigest()
            cache_fn = "{}/weighted_l2_{}_{}_{}_{}.npy".format(
                self.cache_dir, self.problem, N, self.N_poly[0], md5)
            try:
                weighted_l2 = np.load(cache_fn)
                print('Loaded weighted L2 from {}.'.format(cache_fn))
                return weighted_l2
            except:
                pass

        if not use_mp:
            weighted_l2 = [self.weighted_l2(elem, residual) for elem in elems]
        else:
            globals()['__residual'] = residual
            globals()['__elems'] = elems
            globals()['__error_estimator'] = self
            cpu = mp.cpu_count()
            weighted_l2 = list(
                mp.Pool(cpu).map(MP_estim_l2, range(N), N // (8 * cpu) + 1))

        weighted_l2 = np.array(weighted_l2)
        if self.cache_dir is not None:
            print('Stored weighted L2 to {}.'.format(cache_fn))
            np.save(cache_fn, weighted_l2)
        return weighted_l2

    def estimate_sobolev(self, elems, residual, use_mp=False):
        """ Returns the error estimator for given function Phi. """
        N = len(elems)
        if self.cache_dir is not None:
            md5 = hashlib.md5((str(self.bdr_mesh.gamma_space) +
                               str(elems)).encode()).hexdigest()
            cache_fn = "{}/sobolev_{}_{}_{}_{}.npy".format(
                self.cache_dir, self.problem, N,
                '_'.join(str(y) for y in self.N_poly[1:]), md5)
            try:
                sobolev = np.load(cache_fn.format(N, self.problem, md5))
                print('Loaded Sobolev from {}.'.format(cache_fn))
                return sobolev
            except:
                pass

        if not use_mp:
            sobolev_time = [
                self.sobolev_time(elem, residual, nbrs_symmetry=True)
                for elem in elems
            ]
            sobolev_space = [
                self.sobolev_space(elem, residual, nbrs_symmetry=True)
                for elem in elems
            ]
        else:
            globals()['__residual'] = residual
            globals()['__elems'] = elems
            globals()['__error_estimator'] = self
            cpu = mp.cpu_count()
            with mp.Pool(cpu) as p:
                sobolev_time = list(
                    p.map(MP_estim_sobolev_time, range(N), N // (cpu * 8) + 1))
                sobolev_space = list(
                    p.map(MP_estim_sobolev_space, range(N),
                          N // (cpu * 8) + 1))

        # Silly code to correctly sum everything up, abuses symmetry
        # for speedup of factor 2.
        glob_2_loc = {elem.glob_idx: i for i, elem in enumerate(elems)}
        sobolev = np.zeros((N, 2))
        for i, elem in zip(range(N), elems):
            sobolev[i, 0] += sobolev_time[i][0]
            for elem_nbr, val_nbr in sobolev_time[i][1]:
                if elem.glob_idx < elem_nbr:
                    sobolev[glob_2_loc[elem_nbr], 0] += val_nbr
            sobolev[i, 1] += sobolev_space[i][0]
            for elem_nbr, val_nbr in sobolev_space[i][1]:
                if elem.glob_idx < elem_nbr:
                    sobolev[glob_2_loc[elem_nbr], 1] += val_nbr

        if self.cache_dir is not None:
            print('Stored Sobolev to {}.'.format(cache_fn))
            np.save(cache_fn, sobolev)
        return sobolev
