import numpy as np

from .quadrature_rules import (gauss_log_quadrature_rule,
                               gauss_sqrtinv_quadrature_rule,
                               gauss_x_quadrature_rule,
                               log_log_quadrature_rule, log_quadrature_rule,
                               sqrt_quadrature_rule, sqrtinv_quadrature_rule)


def gauss_quadrature_scheme(N_poly):
    """ Returns quadrature rule that is exact on 0^1 for
    p(x) for deg(p) <= N_poly.  """
    assert (N_poly % 2 != 0)
    n = (N_poly + 1) // 2
    nodes, weights = np.polynomial.legendre.leggauss(n)
    return QuadScheme1D(0.5 * (nodes + 1.0), 0.5 * weights)


def gauss_sqrtinv_quadrature_scheme(N_poly):
    """ Returns quadrature rule that is exact on 0^1 with weight 1/sqrt(x)
    for p(x) for deg(p) <= N_poly.  """
    assert (N_poly % 2 != 0)
    N = (N_poly + 1) // 2
    nodes, weights = gauss_sqrtinv_quadrature_rule(N)
    return QuadScheme1D(nodes, weights)


def gauss_x_quadrature_scheme(N_poly):
    """ Returns quadrature rule that is exact on 0^1 with weight x
    for p(x) for deg(p) <= N_poly.  """
    N = N_poly // 2 + 1
    nodes, weights = gauss_x_quadrature_rule(N)
    return QuadScheme1D(nodes, weights)


def gauss_log_quadrature_scheme(N_poly):
    """ Returns quadrature rule that is exact on 0^1 with weight x
    for p(x) for deg(p) <= N_poly.  """
    N = (N_poly + 1) // 2
    nodes, weights = gauss_log_quadrature_rule(N)
    return QuadScheme1D(nodes, weights)


def log_quadrature_scheme(N_poly, N_poly_log):
    """ Returns quadrature rule that is exact on 0^1 for
    p(x) + q(x)log(x) for deg(p) <= N_poly and deg(q) <= N_log.
    """
    nodes, weights = log_quadrature_rule(N_poly, N_poly_log)
    return QuadScheme1D(nodes, weights)


def log_log_quadrature_scheme(N_poly, N_poly_log):
    """ Returns quadrature rule that is exact on 0^1 for
    p(x) + q(x)log(x) + k(x)log(1-x) for deg(p) <= N_poly, deg(k) <= deg(q) <= N_log.
    """
    nodes, weights = log_log_quadrature_rule(N_poly, N_poly_log)
    return QuadScheme1D(nodes, weights)


def sqrt_quadrature_scheme(N_poly, N_poly_log):
    """ Returns quadrature rule that is exact on 0^1 for
    p(x) + q(x)sqrt(x) for deg(p) <= N_poly and deg(q) <= N_poly_sqrt.
    """
    nodes, weights = sqrt_quadrature_rule(N_poly, N_poly_log)
    return QuadScheme1D(nodes, weights)


def sqrtinv_quadrature_scheme(N_poly, N_poly_log):
    """ Returns quadrature rule that is exact on 0^1 for
    p(x) + q(x)sqrt(x) for deg(p) <= N_poly and deg(q) <= N_poly_sqrt.
    """
    nodes, weights = sqrtinv_quadrature_rule(N_poly, N_poly_log)
    return QuadScheme1D(nodes, weights)


class QuadScheme1D:
    def __init__(self, points, weights):
        self.points = np.array(points)
        self.weights = np.array(weights)
        self._mirror = None

    def mirror(self):
        if self._mirror is None:
            self._mirror = QuadScheme1D(1 - self.points, self.weights)
        return self._mirror

    def integrate(self, f, a: float, b: float) -> float:
        if a == b: return 0
        assert b - a > 1e-5
        fx = (b - a) * np.asarray(f(a + (b - a) * self.points))
        return np.dot(fx, self.weights)


class QuadScheme2D:
    def __init__(self, points, weights):
        self.points = np.array(points)
        self.weights = np.array(weights)
        self._mirror_x = None
        self._mirror_y = None

    def mirror_x(self):
        if self._mirror_x is None:
            self._mirror_x = QuadScheme2D([1 - self.points[0], self.points[1]],
                                          self.weights)

        return self._mirror_x

    def mirror_y(self):
        if self._mirror_y is None:
            self._mirror_y = QuadScheme2D([self.points[0], 1 - self.points[1]],
                                          self.weights)
        return self._mirror_y

    def integrate(self, f, a: float, b: float, c: float, d: float) -> float:
        assert b - a > 1e-7 and d - c > 1e-7
        x = np.array(
            [a + (b - a) * self.points[0], c + (d - c) * self.points[1]])
        fx = np.asarray(f(x))
        return (d - c) * (b - a) * np.dot(fx, self.weights)


class ProductScheme2D(QuadScheme2D):
    def __init__(self, scheme_x, scheme_y=None):
        if scheme_y is None: scheme_y = scheme_x
        assert isinstance(scheme_x, QuadScheme1D) and isinstance(
            scheme_y, QuadScheme1D)
        points = np.array([
            np.repeat(scheme_x.points, len(scheme_y.points)),
            np.tile(scheme_y.points, len(scheme_x.points))
        ])
        weights = np.kron(scheme_x.weights, scheme_y.weights)
        super().__init__(points=points, weights=weights)


class QuadpyScheme2D(QuadScheme2D):
    def __init__(self, quad_scheme):
        super().__init__(points=(quad_scheme.points + 1) * 0.5,
                         weights=quad_scheme.weights)


class DuffyScheme2D(QuadScheme2D):
    def __init__(self, scheme2d, symmetric):
        assert isinstance(scheme2d, QuadScheme2D)

        x = scheme2d.points[0]
        y = 1 - scheme2d.points[1]
        xy = x * y
        weights = scheme2d.weights * x
        if symmetric:
            points = [x, xy]
            weights = weights * 2
        else:
            points = [np.hstack([x, xy]), np.hstack([xy, x])]
            weights = np.hstack([weights, weights])

        super().__init__(points=points, weights=weights)


class QuadScheme3D:
    def __init__(self, points, weights):
        self.points = np.array(points)
        self.weights = np.array(weights)
        self._mirror_x = None
        self._mirror_y = None
        self._mirror_z = None

    def integrate(self, f, a, b, c, d, k, l):
        x = np.array([
            a + (b - a) * self.points[0], c + (d - c) * self.points[1],
            k + (l - k) * self.points[2]
        ])
        fx = np.asarray(f(x))
        return (d - c) * (b - a) * (l - k) * np.dot(fx, self.weights)

    def mirror_x(self):
        if self._mirror_x is None:
            self._mirror_x = QuadScheme3D(
                [1 - self.points[0], self.points[1], self.points[2]],
                self.weights)

        return self._mirror_x

    def mirror_y(self):
        if self._mirror_y is None:
            self._mirror_y = QuadScheme3D(
                [self.points[0], 1 - self.points[1], self.points[2]],
                self.weights)
        return self._mirror_y

    def mirror_z(self):
        if self._mirror_z is None:
            self._mirror_z = QuadScheme3D(
                [self.points[0], self.points[1], 1 - self.points[2]],
                self.weights)
        return self._mirror_z


class ProductScheme3D(QuadScheme3D):
    def __init__(self, scheme_x):
        scheme_y = scheme_z = scheme_x
        assert isinstance(scheme_x, QuadScheme1D) and isinstance(
            scheme_y, QuadScheme1D)
        points_xy = np.array([
            np.repeat(scheme_x.points, len(scheme_y.points)),
            np.tile(scheme_y.points, len(scheme_x.points))
        ])
        points = np.vstack([
            np.repeat(points_xy, len(scheme_z.points), axis=1),
            np.tile(scheme_z.points, points_xy.shape[1])
        ])
        weights = np.kron(np.kron(scheme_x.weights, scheme_y.weights),
                          scheme_z.weights)
        super().__init__(points=points, weights=weights)


class DuffySchemeIdentical3D(QuadScheme3D):
    """ Duffy scheme for unit cube having singularies of the form
        log[(x − y)^2 + z^2]. """
    def __init__(self, scheme3d, symmetric_xy):
        assert isinstance(scheme3d, QuadScheme3D)

        x = scheme3d.points[0]
        y = scheme3d.points[1]
        z = scheme3d.points[2]

        T1 = [x, x * (1 - y), x * y * z]
        T2 = [x * (1 - y + y * z), x * y * z, x]
        T3 = [x, x * (1 - y * z), x * y]

        T4 = [x * (1 - y), x, x * y * z]
        T5 = [x * y * z, x * (1 - y + y * z), x]
        T6 = [x * (1 - y * z), x, x * y]

        if symmetric_xy:
            points = np.hstack([T1, T2, T3])
            weights = 2 * np.tile(scheme3d.weights * x**2 * y, 3)
        else:
            points = np.hstack([T1, T2, T3, T4, T5, T6])
            weights = np.tile(scheme3d.weights * x**2 * y, 6)

        super().__init__(points=points, weights=weights)


class DuffySchemeTouch3D(QuadScheme3D):
    """ Duffy scheme for unit cube having singularies of the form
        log[(x + y)^2 + z^2] or log[(x^2 + (y+z)^2. """
    def __init__(self, scheme3d):
        assert isinstance(scheme3d, QuadScheme3D)

        x = scheme3d.points[0]
        y = scheme3d.points[1]
        z = scheme3d.points[2]

        P1 = [x * y, y, z * y]
        P2 = [y, x * y, z * y]
        P3 = [x * y, z * y, y]

        points = np.hstack([P1, P2, P3])
        weights = np.tile(scheme3d.weights * y**2, 3)
        super().__init__(points=points, weights=weights)
