import hashlib
import math
import multiprocessing as mp
import time

import numpy as np
from scipy.special import exp1

from .mesh import Element
from .quadrature import (DuffySchemeIdentical3D, DuffySchemeTouch3D,
                         ProductScheme2D, ProductScheme3D,
                         gauss_quadrature_scheme, log_quadrature_scheme)

FPI_INV = (4 * np.pi)**-1


def time_integrated_kernel(a, b):
    """ Returns heat kernel G(t,x) integrated over t in [a,b]. """
    if a == 0:
        return lambda xy: 1. / (4 * np.pi) * exp1(xy / (4 * b))
    else:
        return lambda xy: 1. / (4 * np.pi) * (exp1(xy /
                                                   (4 * b)) - exp1(xy /
                                                                   (4 * a)))


def MP_M0_val(j: int):
    """ Function to evaluate M0 in parallel using the multiprocessing library. """
    global __M0, __elems
    return __M0.linform(__elems[j])[0]


class InitialOperator:
    def __init__(self,
                 bdr_mesh,
                 u0,
                 initial_mesh=None,
                 quad_int=12,
                 quad_eval=19,
                 cache_dir=None,
                 problem=None):
        self.u0 = u0
        self.bdr_mesh = bdr_mesh
        self.initial_mesh = initial_mesh

        # Quadrature schemes for the evaluation.
        self.space_integrator = bdr_mesh.gamma_space.integrator(quad_eval)
        self.gauss_2d = ProductScheme2D(gauss_quadrature_scheme(quad_eval))

        # Quadrature schemes for the inner product.
        self.log_scheme = log_quadrature_scheme(quad_int, quad_int)
        self.duff_3d_id = DuffySchemeIdentical3D(ProductScheme3D(
            self.log_scheme),
                                                 symmetric_xy=False)
        self.duff_3d_touch = DuffySchemeTouch3D(
            ProductScheme3D(self.log_scheme))

        # Storing options.
        self.cache_dir = cache_dir
        if problem is None: problem = str(self.bdr_mesh.gamma_space)
        self.problem = problem

    def linform(self, elem_trial: Element):
        """ Evaluates <M_0 u_0, 1_trial>. """
        assert self.initial_mesh is not None

        # Integrate the heat kernel over time.
        a, b = elem_trial.time_interval
        G_time = time_integrated_kernel(a, b)

        # Calculate space bdr in Omega.
        c, d = elem_trial.space_interval

        # Create mesh of Omega adapted to the given v0, v1.
        initial_mesh = self.initial_mesh(elem_trial.gamma_space(c),
                                         elem_trial.gamma_space(d))

        # Find vertices associated to v0 and v1.
        v0 = initial_mesh.vertex_from_coords(elem_trial.gamma_space(c))
        v1 = initial_mesh.vertex_from_coords(elem_trial.gamma_space(d))
        assert v0 is not None and v1 is not None

        n0 = v0.xy_np
        n1 = v1.xy_np
        math.isclose(d - c, np.linalg.norm(n0 - n1))

        id_bdr = 0
        touch_bdr = 0
        ips = []
        for elem in initial_mesh.leaf_elements:
            # Check whether this element has an identical bdr,
            if v0 in elem.vertices and v1 in elem.vertices:
                id_bdr += 1
                h = d - c
                math.isclose(elem.diam, h)

                # Element has an edge v0 <-> v1. Let v2 be the unique vertex
                # having an edge v0 <-> v2.
                tmp = [v for v in elem.connected_to_vertex(v0) if v is not v1]
                assert len(tmp) == 1
                n2 = tmp[0].xy_np

                # Create parametrizations of Q.
                gamma_Q = lambda x, z: n0 + (n1 - n0) * x + (n2 - n0) * z

                f = lambda xyz: self.u0(gamma_Q(xyz[0], xyz[2])) * G_time(
                    h**2 * ((xyz[0] - xyz[1])**2 + xyz[2]**2))

                fx = f(self.duff_3d_id.points)
                val = h**3 * np.dot(fx, self.duff_3d_id.weights)
                ips.append((elem, val))
                continue
            if v0 in elem.vertices:
                touch_bdr += 1

                # Find n2 and n3, vertices on edges of elem connected to v0.
                n2, n3 = [v.xy_np for v in elem.connected_to_vertex(v0)]

                # Create parametrizations of Q and K.
                gamma_K = lambda y: n0 + (n1 - n0) * y
                gamma_Q = lambda x, z: n0 + (n2 - n0) * x + (n3 - n0) * z
                assert np.all(gamma_Q(0, 0) == gamma_K(0))

            elif v1 in elem.vertices:
                touch_bdr += 1

                # Find n2 and n3 on edges of elem connected to v1.
                n2, n3 = [v.xy_np for v in elem.connected_to_vertex(v1)]

                # Create parametrizations of Q and K.
                gamma_K = lambda y: n1 + (n0 - n1) * y
                gamma_Q = lambda x, z: n1 + (n2 - n1) * x + (n3 - n1) * z
                assert np.all(gamma_Q(0, 0) == gamma_K(0))
            else:
                # Create parametrizations of Q and K.
                gamma_K = lambda y: n0 + (n1 - n0) * y
                gamma_Q = elem.gamma()

            # We will use duffy 3d.
            xyz = self.duff_3d_touch.points
            xz = gamma_Q(xyz[0], xyz[2])
            y = gamma_K(xyz[1])

            # Evaluate time integrated kernel.
            xz_y = (xz - y)**2
            xz_y = xz_y[0] + xz_y[1]
            if a == 0:
                fx = self.u0(xz) * exp1(xz_y / (4 * b))
            else:
                fx = self.u0(xz) * (exp1(xz_y / (4 * b)) - exp1(xz_y /
                                                                (4 * a)))

            val = elem.diam**2 * (d - c) * FPI_INV * np.dot(
                fx, self.duff_3d_touch.weights)
            ips.append((elem, val))

        assert id_bdr == 1
        #assert touch_bdr >= 1
        return math.fsum([val for elem, val in ips]), ips

    def linform_vector(self, elems=None, use_mp=False):
        """ Evaluates <M_0 u_0, 1_trial> for all elems in bdr mesh. """
        if elems is None:
            elems = list(self.bdr_mesh.leaf_elements)
        N = len(elems)

        if self.cache_dir is not None:
            md5 = hashlib.md5((str(self.bdr_mesh.gamma_space) +
                               str(elems)).encode()).hexdigest()
            cache_fn = "{}/M0_{}_{}_{}.npy".format(self.cache_dir,
                                                   self.problem, N, md5)
            try:
                vec = np.load(cache_fn)
                print("Loaded Initial Operator from file {}".format(cache_fn))
                return vec
            except:
                pass

        time_rhs_begin = time.time()
        if not use_mp:
            vec = np.zeros(shape=N)
            for j, elem_trial in enumerate(elems):
                vec[j], _ = self.linform(elem_trial)
        else:
            # Set up global variables for parallelizing.
            globals()['__elems'] = elems
            globals()['__M0'] = self
            cpu = mp.cpu_count()
            vec = np.array(
                mp.Pool(mp.cpu_count()).map(MP_M0_val, range(N),
                                            N // (cpu * 8) + 1))

        print('Calculating initial potential took {}s'.format(time.time() -
                                                              time_rhs_begin))
        if self.cache_dir is not None:
            try:
                np.save(cache_fn, vec)
                print("Stored Initial Operator to {}".format(cache_fn))
            except:
                pass

        return vec

    def evaluate(self, t, x):
        """ Evaluates (M_0 u_0)(t,x) for t,x. """
        x = np.array(x)

        def f(y):
            xy = x - y
            xy_sqr = np.sum(xy**2, axis=0)
            return 1. / (4 * np.pi * t) * np.exp(-xy_sqr /
                                                 (4 * t)) * self.u0(y)

        #if (t < 0.01):
        #    print('this seems to become instable')

        return self.space_integrator(f)

    def evaluate_mesh(self, t, x, initial_mesh):
        """ Evaluates (M_0 u_0)(t,x) for t,x using a meshed Omega. """
        def f(y):
            xy = x - y
            xy_sqr = np.sum(xy**2, axis=0)
            return 1. / (4 * np.pi * t) * np.exp(-xy_sqr /
                                                 (4 * t)) * self.u0(y)

        ips = []
        for elem in initial_mesh.leaf_elements:
            val = self.gauss_2d.integrate(f, float(elem.vertices[0].x),
                                          float(elem.vertices[2].x),
                                          float(elem.vertices[0].y),
                                          float(elem.vertices[2].y))
            ips.append((elem, val))

        result_mesh = math.fsum([val for elem, val in ips])
        return result_mesh
