from math import exp, fsum, pi, sqrt

import numpy as np
from scipy.special import erf, erfc, expi

FPI_INV = (4 * pi)**-1
HPI_INV = (1 / (192 * pi))
PI_SQRT = sqrt(pi)


def sign(x, y):
    """ Returns the sign of x -y. """
    if x == y: return 0
    if x < y: return -1
    return 1


def gint_1(z: float, h: float) -> float:
    """ Returns integral of g_z(x) for [0, h]. """
    return -(
        (2 * sqrt(pi) * sqrt(z) * erf(h / (2 * sqrt(z))) - h * expi(-h**2 /
                                                                    (4 * z))) /
        (4 * pi))


def gint_2(z: float, h: float, k: float) -> float:
    """ Returns integral of g_z(x) for [h, k] for 0 < h < k. """
    assert h < k
    z_sqrt = 2 * sqrt(z)
    return FPI_INV * (PI_SQRT * z_sqrt * (erf(h / z_sqrt) - erf(k / z_sqrt)) -
                      h * expi(-(h**2 / (4 * z))) + k * expi(-(k**2 /
                                                               (4 * z))))


def fint_1(a: float, b: float, h: float) -> float:
    """ Returns integrate f_z(x-y) for x,y in [0,h]^2. """
    if a <= b:
        return 0
    else:
        z = a - b
        return 1 / (96 * pi) * fsum([
            4 * z * (exp(-(h**2 / (4 * z))) * (h**2 - 12 * z) + 12 * z),
            -64 * h * PI_SQRT * z**(3 / 2) * erf(h / (2 * sqrt(z))),
            (h**4 + 24 * h**2 * z) * expi(-(h**2 / (4 * z))),
        ])


def fint_2(a: float, b: float, h: float, k: float) -> float:
    """ Returns integrate f_z(x-y) for x,y in [-h,0]x[0,k]. """
    if a <= b:
        return 0
    else:
        z = a - b
        z4 = 4 * z
        zsqrt = sqrt(z)
        h2 = h**2
        k2 = k**2
        val = HPI_INV * fsum([
            (-4 * (h2 - 12 * z) * z) * exp(-h2 / z4),
            -(4 * (k2 - 12 * z) * z) * exp(-k2 / z4),
            (4 * ((h + k)**2 - 12 * z) * z) * exp(-(h + k)**2 / z4),
            -48 * z**2 + 64 * h * PI_SQRT * z**(3 / 2) * erf(h / (2 * zsqrt)),
            64 * k * PI_SQRT * z**(3 / 2) * erf(k / (2 * zsqrt)),
            -64 * (h + k) * PI_SQRT * z**(3 / 2) * erf((h + k) / (2 * zsqrt)),
            -(h**4 + 24 * h2 * z) * expi(-(h2 / z4)),
            -(k**4 + 24 * k2 * z) * expi(-(k2 / z4)),
            (h + k)**2 * ((h + k)**2 + 24 * z) * expi(-((h + k)**2 / z4)),
        ])
        return val


def fint_3(a: float, b: float, h: float, k: float) -> float:
    """ Returns integrate f_z(x-y) for x,y in [0,h]x[0,k]. """
    if a <= b:
        return 0
    else:
        z = a - b
        return HPI_INV * (
            (-4 * exp((h * k) / (2 * z)) *
             ((h - k)**2 - 12 * z) * z - 4 * exp(h**2 / (4 * z)) * z *
             (-k**2 + 12 * z) + exp(k**2 / (4 * z)) *
             (4 * (h**2 - 12 * z) * z + exp(h**2 / (4 * z)) *
              (48 * z**2 - 64 * h * PI_SQRT * z**
               (3 / 2) * erf(h / (2 * np.sqrt(z))) + 16 *
               (4 * h - 3 * k) * PI_SQRT * z**(3 / 2) * erf(
                   (h - k) / (2 * np.sqrt(z))) - 64 * k * PI_SQRT * z**
               (3 / 2) * erf(k / (2 * np.sqrt(z))) + h**4 * expi(-(h**2 /
                                                                   (4 * z))) +
               24 * h**2 * z * expi(-(h**2 / (4 * z))) - h**4 * expi(-(
                   (h - k)**2 / (4 * z))) + 4 * h**3 * k * expi(-(
                       (h - k)**2 / (4 * z))) - 6 * h**2 * k**2 * expi(-(
                           (h - k)**2 / (4 * z))) + 4 * h * k**3 * expi(-(
                               (h - k)**2 / (4 * z))) - k**4 * expi(-(
                                   (h - k)**2 /
                                   (4 * z))) - 24 * h**2 * z * expi(-(
                                       (h - k)**2 /
                                       (4 * z))) + 48 * h * k * z * expi(-(
                                           (h - k)**2 /
                                           (4 * z))) - 24 * k**2 * z * expi(-(
                                               (h - k)**2 / (4 * z))) + k**2 *
               (k**2 + 24 * z) * expi(-(k**2 / (4 * z)))))) / exp(
                   (h**2 + k**2) / (4 * z)) + 16 * k * PI_SQRT * z**(3 / 2) *
            (-1 + erfc(np.abs(h - k) / (2 * np.sqrt(z)))) * np.sign(h - k))


def fint_4(a: float, b: float, h: float, k: float, l: float) -> float:
    """ Returns integrate f_z(x-y) for x,y in [0,h]x[k,l] with 0 < h < k < l """
    if a <= b: return 0
    else:
        z = a - b
        hl = h - l
        hk = h - k
        z4 = 4 * z
        z32 = z**(3 / 2)
        zsqrt = sqrt(z)
        k2 = k**2
        l2 = l**2

        return HPI_INV * fsum([
            (4 * (hk**2 - 12 * z) * z) * exp(-hk**2 / z4),
            -(4 * (k2 - 12 * z) * z) * exp(-k2 / z4),
            (4 * (l2 - 12 * z) * z) * exp(-l2 / z4),
            (-4 * hl**2 * z + 48 * z**2) * exp(-hl**2 / z4),
            64 * (-h + k) * PI_SQRT * z32 * erf(hk / (2 * zsqrt)),
            64 * k * PI_SQRT * z32 * erf(k / (2 * zsqrt)),
            64 * hl * PI_SQRT * z32 * erf(hl / (2 * zsqrt)),
            -64 * l * PI_SQRT * z32 * erf(l / (2 * zsqrt)),
            hk**2 * (hk**2 + 24 * z) * expi(-(hk**2 / z4)),
            -(k**4 + 24 * k2 * z) * expi(-(k2 / z4)),
            -hl**2 * (hl**2 + 24 * z) * expi(-(hl**2 / z4)),
            (l**4 + 24 * l2 * z) * expi(-(l2 / z4)),
        ])


#def fint_5(a, b, h, k, l):
#    """ Returns integrate f_z(x-y) for x,y in [0,h]x[k,l] with 0 < h,  k < l """
#    if a <= b: return 0
#    else:
#        z = a - b
#        return(1/(192*pi))*(4*z*(((h-k)**2-12*z)/exp((h-k)**2/(4*z))-(k**2-12*z)/exp(k**2/(4*z))+(l**2-12*z)/exp(l**2/(4*z))+(-(h-l)**2+12*z)/exp((h-l)**2/(4*z)))+16*(-4*h+3*k)*np.sqrt(pi)*z**(3/2)*erf((h-k)/(2*np.sqrt(z)))+48*k*np.sqrt(pi)*z**(3/2)*erf(k/(2*np.sqrt(z)))+64*h*np.sqrt(pi)*z**(3/2)*erf((h-l)/(2*np.sqrt(z)))-48*l*np.sqrt(pi)*z**(3/2)*erf((h-l)/(2*np.sqrt(z)))-48*l*np.sqrt(pi)*z**(3/2)*erf(l/(2*np.sqrt(z)))+h**4*expi(-((h-k)**2/(4*z)))-4*h**3*k*expi(-((h-k)**2/(4*z)))+6*h**2*k**2*expi(-((h-k)**2/(4*z)))-4*h*k**3*expi(-((h-k)**2/(4*z)))+k**4*expi(-((h-k)**2/(4*z)))+24*h**2*z*expi(-((h-k)**2/(4*z)))-48*h*k*z*expi(-((h-k)**2/(4*z)))+24*k**2*z*expi(-((h-k)**2/(4*z)))-k**4*expi(-(k**2/(4*z)))-24*k**2*z*expi(-(k**2/(4*z)))-h**4*expi(-((h-l)**2/(4*z)))+4*h**3*l*expi(-((h-l)**2/(4*z)))-6*h**2*l**2*expi(-((h-l)**2/(4*z)))+4*h*l**3*expi(-((h-l)**2/(4*z)))-l**4*expi(-((h-l)**2/(4*z)))-24*h**2*z*expi(-((h-l)**2/(4*z)))+48*h*l*z*expi(-((h-l)**2/(4*z)))-24*l**2*z*expi(-((h-l)**2/(4*z)))+l**2*(l**2+24*z)*expi(-(l**2/(4*z)))+16*np.sqrt(pi)*z**(3/2)*((k-k*erfc(np.abs(h-k)/(2*np.sqrt(z))))*np.sign(h-k)+(k-k*erfc(np.abs(k)/(2*np.sqrt(z))))*np.sign(k)+l*(-1+erfc(np.abs(h-l)/(2*np.sqrt(z))))*np.sign(h-l)+l*(-1+erfc(np.abs(l)/(2*np.sqrt(z))))*np.sign(l)))

#def fint(a, b, h, i, j, k):
#    """ Returns integrate f_z(x-y) for z = a-b and
#        x,y in [h,i]x[j,k] with h < i and j < k"""
#    if a <= b: return 0
#    else:
#        z = a - b
#        expihj = expi(-((h-j)**2/(4*z)))
#        expiij = expi(-((i-j)**2/(4*z)))
#        expihk = expi(-((h-k)**2/(4*z)))
#        expiik = expi(-((i-k)**2/(4*z)))
#        print(expihj, expiij, expihk, expiik)
#        return(1/(192*pi))*(4*z*(((i-j)**2-12*z)/exp((i-j)**2/(4*z))+((h-k)**2-12*z)/exp((h-k)**2/(4*z))+(-(h-j)**2+12*z)/exp((h-j)**2/(4*z))+(-(i-k)**2+12*z)/exp((i-k)**2/(4*z)))+16*(4*h-3*j)*np.sqrt(pi)*z**(3/2)*erf((h-j)/(2*np.sqrt(z)))+16*(-4*i+3*j)*np.sqrt(pi)*z**(3/2)*erf((i-j)/(2*np.sqrt(z)))-64*h*np.sqrt(pi)*z**(3/2)*erf((h-k)/(2*np.sqrt(z)))+48*k*np.sqrt(pi)*z**(3/2)*erf((h-k)/(2*np.sqrt(z)))+64*i*np.sqrt(pi)*z**(3/2)*erf((i-k)/(2*np.sqrt(z)))-48*k*np.sqrt(pi)*z**(3/2)*erf((i-k)/(2*np.sqrt(z)))-h**4*expihj+4*h**3*j*expihj-6*h**2*j**2*expihj+4*h*j**3*expihj-j**4*expihj-24*h**2*z*expihj+48*h*j*z*expihj-24*j**2*z*expihj+i**4*expiij-4*i**3*j*expiij+6*i**2*j**2*expiij-4*i*j**3*expiij+j**4*expiij+24*i**2*z*expiij-48*i*j*z*expiij+24*j**2*z*expiij+h**4*expihk-4*h**3*k*expihk+6*h**2*k**2*expihk-4*h*k**3*expihk+k**4*expihk+24*h**2*z*expihk-48*h*k*z*expihk+24*k**2*z*expihk-(i-k)**2*((i-k)**2+24*z)*expiik+16*np.sqrt(pi)*z**(3/2)*(j*(-1+erfc(np.abs(h-j)/(2*np.sqrt(z))))*np.sign(h-j)+(j-j*erfc(np.abs(i-j)/(2*np.sqrt(z))))*np.sign(i-j)-k*(-1+erfc(np.abs(h-k)/(2*np.sqrt(z))))*np.sign(h-k)+k*(-1+erfc(np.abs(i-k)/(2*np.sqrt(z))))*np.sign(i-k)))


def spacetime_integrated_kernel_1(a: float, b: float, c: float, d: float,
                                  h: float) -> float:
    """ Returns kernel integrated in time over [a,b] x [c, d], and in space
    over [0,h]^2.
    """
    assert a < b and c < d and h > 0
    f_bd = fint_1(b, d, h)
    f_bc = fint_1(b, c, h)
    f_ca = fint_1(a, c, h)
    f_da = fint_1(a, d, h)
    return f_bd - f_bc + f_ca - f_da


def spacetime_integrated_kernel_2(a: float, b: float, c: float, d: float,
                                  h: float, k: float) -> float:
    """ Returns kernel integrated in time over [a,b] x [c, d], and in space
    over [-h,0] x [0,k]
    """
    assert a < b and c < d and h > 0
    f_bd = fint_2(b, d, h, k)
    f_bc = fint_2(b, c, h, k)
    f_ca = fint_2(a, c, h, k)
    f_da = fint_2(a, d, h, k)
    return f_bd - f_bc + f_ca - f_da


def spacetime_integrated_kernel_3(a: float, b: float, c: float, d: float,
                                  h: float, k: float) -> float:
    """ Returns kernel integrated in time over [a,b] x [c, d], and in space
    over [0,h] x [0,k]
    """
    assert a < b and c < d and h > 0
    f_bd = fint_3(b, d, h, k)
    f_bc = fint_3(b, c, h, k)
    f_ca = fint_3(a, c, h, k)
    f_da = fint_3(a, d, h, k)
    return f_bd - f_bc + f_ca - f_da


def spacetime_integrated_kernel_4(a: float, b: float, c: float, d: float,
                                  h: float, k: float, l: float) -> float:
    """ Returns kernel integrated in time over [a,b] x [c, d], and in space
    over [0,h] x [k,l] with 0 < h < k < l """
    assert a < b and c < d and h > 0
    f_bd = fint_4(b, d, h, k, l)
    f_bc = fint_4(b, c, h, k, l)
    f_ca = fint_4(a, c, h, k, l)
    f_da = fint_4(a, d, h, k, l)
    return f_bd - f_bc + f_ca - f_da


def spacetime_integrated_kernel(t_a: float, t_b: float, s_a: float, s_b: float,
                                x_a: float, x_b: float, y_a: float,
                                y_b: float) -> float:
    """ Returns kernel integrated in time over [t_a, t_b] x [s_a, s_b],
        and in space over [x_a, x_b] x [y_a, y_b]. """
    if (y_a, y_b) < (x_a, x_b):
        return spacetime_integrated_kernel(t_a, t_b, s_a, s_b, y_a, y_b, x_a,
                                           x_b)
    assert (x_a, x_b) <= (y_a, y_b)

    # Disjoint.
    if x_b < y_a:
        return spacetime_integrated_kernel_4(t_a, t_b, s_a, s_b, x_b - x_a,
                                             y_a - x_a, y_b - x_a)

    # Same.
    if x_a == y_a and x_b == y_b:
        return spacetime_integrated_kernel_1(t_a, t_b, s_a, s_b, x_b - x_a)

    # Touch.
    if x_b == y_a:
        return spacetime_integrated_kernel_2(t_a, t_b, s_a, s_b, x_b - x_a,
                                             y_b - y_a)

    # Split other cases.
    if x_a < y_a:
        return spacetime_integrated_kernel(t_a, t_b, s_a, s_b, x_a, y_a, y_a,
                                           y_b) + spacetime_integrated_kernel(
                                               t_a, t_b, s_a, s_b, y_a, x_b,
                                               y_a, y_b)

    assert x_a == y_a and x_b < y_b
    return spacetime_integrated_kernel(
        t_a, t_b, s_a, s_b, x_a, x_b, y_a, x_b) + spacetime_integrated_kernel(
            t_a, t_b, s_a, s_b, x_a, x_b, x_b, y_b)


#def spacetime_integrated_kernel(a, b, c, d, h, i, j, k):
#    """ Returns kernel integrated in time over [a,b] x [c, d], and in space
#    over [h,i] x [j,k]
#    """
#    assert a < b and c < d and h > 0
#    f_bd = fint(b, d, h, i, j, k)
#    f_bc = fint(b, c, h, i, j, k)
#    f_ca = fint(a, c, h, i, j, k)
#    f_da = fint(a, d, h, i, j, k)
#    return f_bd - f_bc + f_ca - f_da


def spacetime_evaluated_1(t: float, a: float, b: float, h: float) -> float:
    if t <= a: return 0
    result = (2 * sqrt(pi) * sqrt(t - a) * erf(h / (2 * sqrt(t - a))) -
              h * expi(-h**2 / (4 * (t - a)))) / (4 * pi)
    if t > b:
        result -= (2 * sqrt(pi) * sqrt((t - b)) * erf(h / (2 * sqrt(
            (t - b)))) - h * expi(-h**2 / (4 * (t - b)))) / (4 * pi)
    return result


def spacetime_evaluated_2(t: float, a: float, b: float, h: float,
                          k: float) -> float:
    result = 0
    if t > a: result -= gint_2(t - a, h, k)
    if t > b: result += gint_2(t - b, h, k)
    return result
