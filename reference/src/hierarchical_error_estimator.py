import numpy as np

from .mesh import Vertex


class DummyElement:
    """ Needed for calculation of the Hierarchical Error Estimator. """
    def __init__(self, vertices, gamma_space):
        self.vertices = vertices
        self.gamma_space = gamma_space

        self.time_interval = self.vertices[0].t, self.vertices[2].t
        self.space_interval = self.vertices[0].x, self.vertices[2].x
        self.h_t = float(abs(self.vertices[2].t - self.vertices[0].t))
        self.h_x = float(abs(self.vertices[2].x - self.vertices[0].x))

    def __repr__(self):
        return "Elem(t={}, x={})".format(self.time_interval,
                                         self.space_interval)

    @staticmethod
    def uniform_refinement(elems):
        """ Returns the uniform refinement of the given elements. """
        result = []
        for elem_coarse in elems:
            v0, v1, v2, v3 = elem_coarse.vertices
            v01 = Vertex(t=(v0.t + v1.t) / 2, x=(v0.x + v1.x) / 2, idx=-1)
            v12 = Vertex(t=(v1.t + v2.t) / 2, x=(v1.x + v2.x) / 2, idx=-1)
            v23 = Vertex(t=(v2.t + v3.t) / 2, x=(v2.x + v3.x) / 2, idx=-1)
            v30 = Vertex(t=(v3.t + v0.t) / 2, x=(v3.x + v0.x) / 2, idx=-1)
            vi = Vertex(t=(v0.t + v2.t) / 2, x=(v0.x + v2.x) / 2, idx=-1)

            gamma = elem_coarse.gamma_space
            children = [
                DummyElement(vertices=[v0, v01, vi, v30], gamma_space=gamma),
                DummyElement(vertices=[v01, v1, v12, vi], gamma_space=gamma),
                DummyElement(vertices=[v30, vi, v23, v3], gamma_space=gamma),
                DummyElement(vertices=[vi, v12, v2, v23], gamma_space=gamma),
            ]

            result.append(children)
        return result


class HierarchicalErrorEstimator:
    def __init__(self, SL, M0=None, g=None):
        self.SL = SL
        self.M0 = M0
        self.g = g

    def estimate(self, elems, Phi, problem=None):
        """ Returns the hierarchical basis estimator for given function Phi. """

        # Calcualte uniform refinement of the mesh.
        elems_coarse = elems
        elem_2_children = DummyElement.uniform_refinement(elems_coarse)

        # Flatten list and calculate mapping of indices.
        elems_fine = [
            child for children in elem_2_children for child in children
        ]
        elem_2_idx_fine = {k: v for v, k in enumerate(elems_fine)}

        # Evaluate SL matrix tested with the fine mesh.
        mat = self.SL.bilform_matrix(elems_test=elems_fine,
                                     elems_trial=elems_coarse,
                                     use_mp=True)
        VPhi = mat @ Phi

        rhs = np.zeros(len(elems_fine))

        # Evaluate the dirichlet data
        if self.g:
            rhs += self.g(elems_fine)

        # Evaluate the RHS on the fine mesh.
        if self.M0:
            rhs -= self.M0.linform_vector(elems=elems_fine, use_mp=True)

        estims = []
        for i, elem_coarse in enumerate(elems_coarse):
            S = self.SL.bilform_matrix(elem_2_children[i], elem_2_children[i])
            children = [elem_2_idx_fine[elem] for elem in elem_2_children[i]]
            #scaling = sum(mat[j, i] for j in children)

            estim_loc = np.zeros(3)

            # Estimator 1 -- Refinement in time.
            # Estimator 2 -- Refinement in space.
            # Estimator 3 -- Refinement in time + space.
            for k, coefs in enumerate([[1, 1, -1, -1], [1, -1, 1, -1],
                                       [1, -1, -1, 1]]):
                rhs_estim = 0
                V_estim = 0
                for j, c in zip(children, coefs):
                    rhs_estim += rhs[j] * c
                    V_estim += VPhi[j] * c
                coefs = np.array(coefs)
                scaling_estim = coefs @ (S @ coefs.T)
                assert scaling_estim > 0
                estim_loc[k] = abs(rhs_estim - V_estim)**2 / scaling_estim

            estims.append((estim_loc[0] + 0.5 * estim_loc[2],
                           estim_loc[1] + 0.5 * estim_loc[2]))

        return np.array(estims)
