import numpy as np
from scipy.special import erf, erfc


def smooth_square():
    def u_neumann(t, x_hat):
        """ evaluates the neumann trace along the lateral boundary. """
        return -np.pi * np.exp(-2 * np.pi**2 * t) * np.sin(np.pi * (x_hat % 1))

    def u0(xy):
        return np.sin(np.pi * xy[0]) * np.sin(np.pi * xy[1])

    def M0u0(t, xy):
        x = xy[0]
        y = xy[1]
        pit = np.pi * t
        sqrtt = np.sqrt(t)
        return (((-(1 / 16)) * (erf((x - 2 * 1j * pit) / (2 * sqrtt)) + erf(
            (1 - x + 2 * 1j * pit) /
            (2 * sqrtt)) - np.exp(2 * 1j * x * np.pi) * (erf(
                (1 - x - 2 * 1j * pit) / (2 * sqrtt)) + erf(
                    (x + 2 * 1j * pit) / (2 * sqrtt)))) * (erf(
                        (y - 2 * 1j * pit) / (2 * sqrtt)) + erf(
                            (1 - y + 2 * 1j * pit) /
                            (2 * sqrtt)) - np.exp(2 * 1j * y * np.pi) * (erf(
                                (1 - y - 2 * 1j * pit) / (2 * sqrtt)) + erf(
                                    (y + 2 * 1j * pit) / (2 * sqrtt))))) /
                np.exp(1j * np.pi * (x + y - 2 * 1j * pit))).real

    return {'u-trace': u_neumann, 'u0': u0, 'M0u0': M0u0}


def smooth_pisquare():
    def u_neumann(t, x_hat):
        """ evaluates the neumann trace along the lateral boundary. """
        return -np.exp(-2 * t) * np.sin((x_hat % np.pi))

    def u0(xy):
        return np.sin(xy[0]) * np.sin(xy[1])

    def M0u0(t, xy):
        x = xy[0]
        y = xy[1]
        return ((-(1 / 16)) * np.exp((-1j) * (x + y) - 2 * t) * (-1 + erf(
            (x - 2 * 1j * t) / (2 * np.sqrt(t))) + np.exp(2 * 1j * x) * (-erf(
                (x + 2 * 1j * t) / (2 * np.sqrt(t))) + erf(
                    (x - np.pi + 2 * 1j * t) / (2 * np.sqrt(t)))) + erfc(
                        (x - np.pi - 2 * 1j * t) / (2 * np.sqrt(t)))) *
                (-1 + erf(
                    (y - 2 * 1j * t) / (2 * np.sqrt(t))) + np.exp(2 * 1j * y) *
                 (-erf((y + 2 * 1j * t) / (2 * np.sqrt(t))) + erf(
                     (y - np.pi + 2 * 1j * t) / (2 * np.sqrt(t)))) + erfc(
                         (y - np.pi - 2 * 1j * t) / (2 * np.sqrt(t))))).real

    return {'u-trace': u_neumann, 'u0': u0, 'M0u0': M0u0}


def singular_square():
    def M0u0(t, xy):
        a = xy[0]
        b = xy[1]
        return (1 / 4) * (erf(
            (1 - a) / (2 * np.sqrt(t))) + erf(a / (2 * np.sqrt(t)))) * (erf(
                (1 - b) / (2 * np.sqrt(t))) + erf(b / (2 * np.sqrt(t))))

    return {'u0': lambda xy: 1, 'M0u0': M0u0}


def singular_lshape():
    def M0u0(t, xy):
        a = xy[0]
        b = xy[1]
        return (1 / 4) * ((erf((1 - a) / (2 * np.sqrt(t))) + erf(
            (1 + a) / (2 * np.sqrt(t)))) * (erf(
                (1 - b) /
                (2 * np.sqrt(t))) + erf(b / (2 * np.sqrt(t)))) + (erf(
                    (1 - a) / (2 * np.sqrt(t))) + erf(a / (2 * np.sqrt(t)))) *
                          (-erf(b / (2 * np.sqrt(t))) + erf(
                              (1 + b) / (2 * np.sqrt(t)))))

    return {'u0': lambda xy: 1, 'M0u0': M0u0}


def problem_helper(problem, domain):
    assert problem in ['Smooth', 'Dirichlet', 'Singular', 'MildSingular']
    assert domain in ['UnitSquare', 'PiSquare', 'LShape', 'Circle']

    result = {}
    if problem == 'Smooth':
        if domain == 'UnitSquare':
            result.update(smooth_square())
        elif domain == 'PiSquare':
            result.update(smooth_pisquare())
        else:
            print('Invalid domain for smooth:', domain)
            assert False
    elif problem == 'Singular':
        if domain == 'UnitSquare':
            result.update(singular_square())
        elif domain == 'LShape':
            result.update(singular_lshape())
        else:
            print('Invalid domain for singular:', domain)
            assert False
    elif problem == 'Dirichlet':
        result['g-linform'] = lambda elems: np.array(
            [elem.h_t * elem.h_x for elem in elems])
        result['g'] = lambda t, xy: 1

    elif problem == 'MildSingular':
        result['g-linform'] = lambda elems: np.array([
            1 / 3 * elem.h_x *
            (elem.time_interval[1]**3 - elem.time_interval[0]**3)
            for elem in elems
        ])
        result['g'] = lambda t, xy: t**2

    return result
