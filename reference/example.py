import argparse
import hashlib
import multiprocessing as mp
import os
import time
from math import fsum, sqrt
from pprint import pprint

import numpy as np

from problems import problem_helper
from src.error_estimator import ErrorEstimator
from src.h_h2_error_estimator import HH2ErrorEstimator
from src.hierarchical_error_estimator import HierarchicalErrorEstimator
from src.initial_mesh import (LShapeBoundaryRefined, PiSquareBoundaryRefined,
                              UnitSquareBoundaryRefined)
from src.initial_potential import InitialOperator
from src.mesh import MeshParametrized
from src.parametrization import Circle, LShape, PiSquare, UnitSquare
from src.quadrature import ProductScheme2D, gauss_quadrature_scheme
from src.single_layer import SingleLayerOperator


def calc_rate(dofs, errs):
    if len(dofs) < 2: return []
    assert len(dofs) == len(errs)
    return np.log(np.array(errs[1:]) / np.array(errs[:-1])) / np.log(
        np.array(dofs[1:]) / np.array(dofs[:-1]))


if __name__ == '__main__':
    N_procs = mp.cpu_count()
    mp.set_start_method('fork')
    print('Running parallel with {} threads.'.format(N_procs))

    parser = argparse.ArgumentParser(
        description='Solve parabolic equation using ngsolve.')
    parser.add_argument(
        '--problem',
        default='Smooth',
        help='problem (Smooth, Singular, Dirichlet, MildSingular)')
    parser.add_argument('--domain',
                        default='UnitSquare',
                        help='domain (UnitSquare, PiSquare, LShape, Circle)')
    parser.add_argument('--hierarchical',
                        default=False,
                        action=argparse.BooleanOptionalAction,
                        help='Calculate the hierarchical error estim')
    parser.add_argument('--h-h2',
                        default=True,
                        action=argparse.BooleanOptionalAction,
                        help='Calculate the h-h2 error estim')
    parser.add_argument('--sobolev',
                        default=True,
                        action=argparse.BooleanOptionalAction,
                        help='Calculate the sobolev error estim')
    parser.add_argument('--l2',
                        default=True,
                        action=argparse.BooleanOptionalAction,
                        help='Calculate the l2 error estim')
    parser.add_argument('--refinement',
                        default='uniform',
                        help='refinement (uniform, isotropic, anisotropic)')
    parser.add_argument(
        '--grading',
        default=False,
        action=argparse.BooleanOptionalAction,
        help='Assert that the mesh satisfies a certain grading')
    parser.add_argument('--grading-sigma',
                        default=2,
                        type=float,
                        help='Grading sigma')
    parser.add_argument(
        '--estimator',
        default='sobolev',
        help='estimator for marking (hierarchical, sobolev, sobolev-l2)')
    parser.add_argument('--theta',
                        default=0.9,
                        type=float,
                        help='theta used for adaptive refinement')
    parser.add_argument('--estimator-quadrature',
                        default='5355',
                        help='Quadrature order used for the error estimator.')
    parser.add_argument('--single-layer-exact',
                        default=False,
                        action=argparse.BooleanOptionalAction,
                        help="Avoids singular quadrature"
                        " for some cases on a pw polygonal domain.")
    args = parser.parse_args()

    print('Arguments:')
    pprint(vars(args))

    assert args.refinement in ['uniform', 'isotropic', 'anisotropic']
    assert args.estimator in ['sobolev', 'hierarchical', 'sobolev-l2']
    assert 0 < args.theta < 1
    assert len(args.estimator_quadrature) == 4

    # Create bdr and initial mesh.
    if args.domain == 'UnitSquare':
        mesh = MeshParametrized(UnitSquare())
        initial_mesh = UnitSquareBoundaryRefined
    elif args.domain == 'PiSquare':
        mesh = MeshParametrized(PiSquare())
        initial_mesh = PiSquareBoundaryRefined
    elif args.domain == 'LShape':
        mesh = MeshParametrized(LShape())
        initial_mesh = LShapeBoundaryRefined

        # We must divide the initial mesh in space on the long sides
        # for the initial mesh to coincide.
        elems = list(mesh.leaf_elements)
        for elem in elems:
            if elem.h_x > 1: mesh.refine_space(elem)
    elif args.domain == 'Circle':
        mesh = MeshParametrized(Circle())
    else:
        raise Exception('Invalid domain: {}'.format(args.domain))

    # Retrieve problem dependent data.
    data = problem_helper(args.problem, args.domain)
    problem = '{}_{}'.format(args.domain, args.problem)

    # Create cache dir
    cache_dir = 'data_exact' if args.single_layer_exact else 'data'
    if not os.path.exists(cache_dir):
        os.makedirs(cache_dir)

    # Create SL.
    SL = SingleLayerOperator(mesh,
                             pw_exact=args.single_layer_exact,
                             cache_dir=cache_dir)

    # Create M0 if u0 != 0 required.
    if 'u0' in data:
        M0 = InitialOperator(bdr_mesh=mesh,
                             u0=data['u0'],
                             initial_mesh=initial_mesh,
                             cache_dir=cache_dir,
                             problem=problem)
        M0u0 = data['M0u0']
    else:
        M0 = None
        M0u0 = None

    # Set g_linform if g != 0.
    if 'g' in data:
        g = data['g']
        g_linform = data['g-linform']
    else:
        g = None
        g_linform = None

    # Create error estimators.
    error_estimator = ErrorEstimator(
        mesh,
        N_poly=tuple(int(x) for x in args.estimator_quadrature),
        cache_dir=cache_dir,
        problem=problem)
    hierarch_error_estimator = HierarchicalErrorEstimator(SL=SL,
                                                          M0=M0,
                                                          g=g_linform)
    h_h2_error_estimator = HH2ErrorEstimator(SL=SL, M0=M0, g=g_linform)

    dofs = []
    errs_trace = []

    errs_unweighted_l2 = []
    errs_weighted_l2 = []
    errs_weighted_l2_time = []
    errs_weighted_l2_space = []
    errs_slo = []
    errs_slo_time = []
    errs_slo_space = []
    errs_hierch = []
    errs_h_h2 = []

    for k in range(100):
        elems = list(mesh.leaf_elements)
        N = len(elems)
        md5 = hashlib.md5(
            (str(mesh.gamma_space) + str(elems)).encode()).hexdigest()
        print('Loop with {} dofs'.format(N), flush=True)
        print(mesh.gmsh(use_gamma=True),
              file=open(
                  "./{}/mesh_{}_{}_{}.gmsh".format(cache_dir, problem, N, md5),
                  "w"))
        dofs.append(N)

        # Calculate SL matrix.
        mat = SL.bilform_matrix(elems, elems, use_mp=True)

        # Calculate RHS.
        rhs = np.zeros(N)
        if M0:
            rhs = -M0.linform_vector(elems=elems, use_mp=True)
        if g_linform:
            rhs += g_linform(elems)

        # Solve.
        time_solve_begin = time.time()
        Phi = np.linalg.solve(mat, rhs)
        print('Solving matrix took {}s\n'.format(time.time() -
                                                 time_solve_begin),
              flush=True)
        print(mesh.gmsh(use_gamma=True, element_data=Phi),
              file=open(
                  "./{}/solution_{}_{}_{}.gmsh".format(cache_dir, problem, N,
                                                       md5), "w"))

        # Estimate the l2 error of the neumann trace.
        if 'u-trace' in data:
            u_neumann = data['u-trace']
            time_trace_begin = time.time()
            gauss_2d = ProductScheme2D(gauss_quadrature_scheme(11))
            err_trace = []
            for i, elem in enumerate(elems):
                err = lambda tx: (Phi[i] - u_neumann(tx[0], tx[1]))**2
                err_trace.append(
                    gauss_2d.integrate(err, *elem.time_interval,
                                       *elem.space_interval))
            errs_trace.append(sqrt(fsum(err_trace)))
            print('Error estimation of \Phi - \partial_n took {}s\n'.format(
                time.time() - time_trace_begin),
                  flush=True)
        else:
            errs_trace.append(0)

        # Do the h-h2 error estimator.
        if args.h_h2:
            time_h_h2_begin = time.time()
            errs_h_h2.append(h_h2_error_estimator.estimate(elems, Phi))
            print('h/h2 error estimator took {}s\n'.format(time.time() -
                                                           time_h_h2_begin),
                  flush=True)
        else:
            errs_h_h2.append(0)

        # Do the hierarhical error estimator.
        hierch_fn = '{}/hierarch_{}_{}_{}.npy'.format(cache_dir, N, problem,
                                                      md5)
        if os.path.isfile(hierch_fn):
            hierarch = np.load(hierch_fn)
            errs_hierch.append(np.sqrt(np.sum(hierarch)))
            print('Hierarchical error estimator loaded from {}\n'.format(
                hierch_fn))
        elif args.hierarchical:
            time_hierarch_begin = time.time()
            hierarch = hierarch_error_estimator.estimate(elems, Phi)
            print('\nHierarch\t time: {}\t space: {}\t'.format(
                np.sum(hierarch[:, 0]), np.sum(hierarch[:, 1])))
            np.save(hierch_fn, hierarch)
            errs_hierch.append(np.sqrt(np.sum(hierarch)))
            print('Hierarchical error estimator took {}s\n'.format(
                time.time() - time_hierarch_begin))
        else:
            errs_hierch.append(0)

        # Calculate the weighted l2 + sobolev error of the residual.
        residual = error_estimator.residual(
            elems, Phi, SL, M0u0, g, SL_exact_eval=args.single_layer_exact)

        if args.l2:
            time_begin = time.time()
            weighted_l2 = error_estimator.estimate_weighted_l2(elems,
                                                               residual,
                                                               use_mp=True)
            print('Weighted L2\t time: {}\t space: {}\t'.format(
                np.sum(weighted_l2[:, 0]), np.sum(weighted_l2[:, 1])))
            errs_weighted_l2_time.append(np.sqrt(np.sum(weighted_l2[:, 0])))
            errs_weighted_l2_space.append(np.sqrt(np.sum(weighted_l2[:, 1])))
            errs_weighted_l2.append(np.sqrt(np.sum(weighted_l2)))
            print('Error estimation of weighted residual took {}s\n'.format(
                time.time() - time_begin))

            # Calculate the _unweighted_ l2 error.
            err_unweighted_l2 = 0
            for i, elem in enumerate(elems):
                err_unweighted_l2 += sqrt(elem.h_t) * weighted_l2[i, 0]
                err_unweighted_l2 += elem.h_x * weighted_l2[i, 1]
            errs_unweighted_l2.append(sqrt(err_unweighted_l2))
        else:
            errs_weighted_l2.append(0)
            errs_unweighted_l2.append(0)

        print(mesh.gmsh(use_gamma=True,
                        element_data=np.sum(weighted_l2, axis=1)),
              file=open(
                  "./{}/weighted_l2_mesh_{}_{}_{}.gmsh".format(
                      cache_dir, problem, N, md5), "w"))

        if args.sobolev:
            time_begin = time.time()
            sobolev = error_estimator.estimate_sobolev(elems,
                                                       residual,
                                                       use_mp=True)
            print('Sobolev\t time: {}\t space: {}\t'.format(
                np.sum(sobolev[:, 0]), np.sum(sobolev[:, 1])))
            errs_slo.append(np.sqrt(np.sum(sobolev)))
            errs_slo_time.append(np.sqrt(np.sum(sobolev[:, 0])))
            errs_slo_space.append(np.sqrt(np.sum(sobolev[:, 1])))
            print('Error estimation of Slobodeckij normtook {}s'.format(
                time.time() - time_begin))
        else:
            errs_slo.append(0)

        print(mesh.gmsh(use_gamma=True, element_data=np.sum(sobolev, axis=1)),
              file=open(
                  "./{}/sobolev_mesh_{}_{}_{}.gmsh".format(
                      cache_dir, problem, N, md5), "w"))

        rates_unweighted_l2 = calc_rate(dofs, errs_unweighted_l2)
        rates_weighted_l2 = calc_rate(dofs, errs_weighted_l2)
        rates_slo = calc_rate(dofs, errs_slo)
        rates_trace = calc_rate(dofs, errs_trace)
        rates_hierch = calc_rate(dofs, errs_hierch)
        rates_h_h2 = calc_rate(dofs, errs_h_h2)

        print(
            '\ndofs={}\nerrs_trace={}\nerr_hierch={}\nerr_h_h2={}\nerr_unweighted_l2={}\nerr_weighted_l2={}\nerrs_slo={}\n\nerrs_weighted_l2_time={}\nerrs_weighted_l2_space={}\nerrs_slo_time={}\nerrs_slo_space={}\n\nrates_trace={}\nrates_hierch={}\nrates_h_h2={}\nrates_unweighted_l2={}\nrates_weighted_l2={}\nrates_slo={}\n------'
            .format(dofs, errs_trace, errs_hierch, errs_h_h2,
                    errs_unweighted_l2, errs_weighted_l2, errs_slo,
                    errs_weighted_l2_time, errs_weighted_l2_space,
                    errs_slo_time, errs_slo_space, rates_trace, rates_hierch,
                    rates_h_h2, rates_unweighted_l2, rates_weighted_l2,
                    rates_slo))

        # Find the correct estimator for marking.
        if args.estimator == 'hierarchical':
            assert args.hierarchical
            eta = hierarch
        elif args.estimator == 'sobolev':
            assert args.sobolev
            eta = sobolev
        elif args.estimator == 'sobolev-l2':
            assert args.sobolev and args.l2
            eta = sobolev + weighted_l2
        else:
            assert False

        # Refine the mesh.
        if args.refinement == 'uniform':
            mesh.uniform_refine()
        elif args.refinement == 'isotropic':
            mesh.dorfler_refine_isotropic(np.sum(eta, axis=1), args.theta)
        elif args.refinement == 'anisotropic':
            mesh.dorfler_refine_anisotropic(eta, args.theta)

        # If we have a fixed grading, apply post processing for adaptive meshes.
        if args.grading and args.refinement != 'uniform':
            mesh.refine_grading(sigma=args.grading_sigma)
        # Create graded mesh by hand for uniform meshes.
        elif args.grading and args.refinement == 'uniform':
            # This is a workaround.
            gamma_len = int(mesh.gamma_space.gamma_length)

            h_x = 1 / 2**(k + 1)
            h_t = 1 / 2**(args.grading_sigma * (k + 1))
            print('Creating mesh with h_t = {} h_x = {}'.format(h_t, h_x))

            N_x = gamma_len * round(1 / h_x)
            N_t = round(1 / h_t)
            mesh_space = [gamma_len * j / N_x for j in range(N_x + 1)]
            mesh_time = [j / N_t for j in range(N_t + 1)]

            if args.domain == 'UnitSquare':
                mesh = MeshParametrized(UnitSquare(),
                                        initial_space_mesh=mesh_space,
                                        initial_time_mesh=mesh_time)
            elif args.domain == 'LShape':
                mesh = MeshParametrized(LShape(),
                                        initial_space_mesh=mesh_space,
                                        initial_time_mesh=mesh_time)
