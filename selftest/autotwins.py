#!/usr/bin/env python3
"""Automatically generated behaviour-preserving twins: for every function in
TARGETS (a) an inserted `pass`-like statement, (b) each commutative swap of
the operands of an arithmetic + or * (one at a time).  No property check may
answer exit 1 on any of them (exit 0 or 2 are accepted).
usage: selftest/autotwins.py [-j N] [-k substring] [--max-swaps N]"""
import ast
import copy
import os
import shutil
import subprocess
import sys
import tempfile
from concurrent.futures import ThreadPoolExecutor

HERE = os.path.dirname(os.path.abspath(__file__))
VERIF = os.path.dirname(HERE)
sys.path.insert(0, HERE)
from run import make_copy  # noqa

TARGETS = [
    ('src/single_layer.py', 'double_time_integrated_kernel', ['C01', 'C04', 'C12']),
    ('src/single_layer.py', 'g', ['C01', 'C04', 'C07']),
    ('src/single_layer.py', 'SingleLayerOperator.__integrate', ['C01', 'C11', 'C12']),
    ('src/single_layer.py', 'SingleLayerOperator.bilform', ['C01', 'C04', 'C12', 'C03']),
    ('src/single_layer.py', 'SingleLayerOperator.evaluate', ['C07', 'C03', 'C04']),
    ('src/single_layer.py', 'SingleLayerOperator.evaluate_exact', ['C07', 'C04']),
    ('src/single_layer.py', 'SingleLayerOperator.bilform_matrix', ['C04', 'C17']),
    ('src/single_layer_exact.py', 'fint_1', ['C01']),
    ('src/single_layer_exact.py', 'fint_2', ['C01']),
    ('src/single_layer_exact.py', 'spacetime_evaluated_1', ['C07']),
    ('src/single_layer_exact.py', 'spacetime_integrated_kernel', ['C01', 'C11']),
    ('src/mesh.py', 'Mesh.refine_axis', ['C02', 'C10']),
    ('src/mesh.py', 'Mesh.__bisect_edge', ['C02', 'C10']),
    ('src/mesh.py', 'Mesh.dorfler_refine_isotropic', ['C06', 'C02']),
    ('src/mesh.py', 'Mesh.dorfler_refine_anisotropic', ['C06', 'C02']),
    ('src/mesh.py', 'Mesh.refine_grading', ['C19', 'C02']),
    ('src/mesh.py', 'MeshParametrized.__init__', ['C18', 'C02']),
    ('src/mesh.py', 'Element.__init__', ['C02', 'C01']),
    ('src/quadrature.py', 'QuadScheme2D.integrate', ['C15', 'C14']),
    ('src/quadrature.py', 'QuadScheme3D.integrate', ['C15']),
    ('src/quadrature.py', 'DuffyScheme2D.__init__', ['C15', 'C01']),
    ('src/quadrature.py', 'DuffySchemeIdentical3D.__init__', ['C15', 'C08']),
    ('src/quadrature.py', 'DuffySchemeTouch3D.__init__', ['C15', 'C08']),
    ('src/norms.py', 'Slobodeckij.__init__', ['C14', 'C09']),
    ('src/norms.py', 'Slobodeckij.seminorm_h_1_4', ['C14']),
    ('src/norms.py', 'Slobodeckij.seminorm_h_1_2', ['C14', 'C09']),
    ('src/norms.py', 'Slobodeckij.seminorm_h_1_2_pw', ['C14', 'C09']),
    ('src/error_estimator.py', 'ErrorEstimator.weighted_l2', ['C09']),
    ('src/error_estimator.py', 'ErrorEstimator.sobolev_space', ['C09']),
    ('src/error_estimator.py', 'ErrorEstimator.sobolev_time', ['C09']),
    ('src/error_estimator.py', 'ErrorEstimator.__integrate_h_1_2', ['C09']),
    ('src/error_estimator.py', 'ErrorEstimator.estimate_sobolev', ['C09', 'C17']),
    ('src/error_estimator.py', 'ErrorEstimator.residual', ['C03', 'C04', 'C07']),
    ('src/initial_potential.py', 'time_integrated_kernel', ['C08']),
    ('src/initial_potential.py', 'InitialOperator.linform', ['C08', 'C17']),
    ('src/initial_potential.py', 'InitialOperator.linform_vector', ['C17', 'C08']),
    ('src/initial_mesh.py', 'InitialMesh.refine', ['C16']),
    ('src/initial_mesh.py', 'InitialMesh.bisect_edge', ['C16']),
    ('src/initial_mesh.py', 'InitialMesh.refine_msh_bdr', ['C16', 'C08']),
    ('src/h_h2_error_estimator.py', 'HH2ErrorEstimator.estimate', ['C20', 'C03']),
    ('src/hierarchical_error_estimator.py', 'HierarchicalErrorEstimator.estimate', ['C20', 'C03']),
    ('src/hierarchical_error_estimator.py', 'DummyElement.uniform_refinement', ['C20', 'C11']),
    ('src/parametrization.py', 'line', ['C18']),
    ('src/parametrization.py', 'PiecewisePolygon.__init__', ['C18']),
    ('problems.py', 'singular_lshape', ['C03', 'C08']),
    ('problems.py', 'problem_helper', ['C03']),
]


def find(tree, qual):
    parts = qual.split('.')
    body = tree.body
    node = None
    for p in parts:
        node = None
        for n in body:
            if isinstance(n, (ast.FunctionDef, ast.ClassDef)) and n.name == p:
                node = n
                break
        if node is None:
            return None
        body = node.body
    return node


def arithmetic(node):
    """a + b / a * b on (probably) numbers or arrays: no strings, lists,
    tuples, no string formatting."""
    def bad(x):
        return isinstance(x, (ast.List, ast.Tuple, ast.JoinedStr, ast.Dict)) \
            or (isinstance(x, ast.Constant) and isinstance(x.value, str)) \
            or (isinstance(x, ast.Call) and isinstance(x.func, ast.Attribute)
                and x.func.attr in ('format', 'join', 'hexdigest'))\
            or (isinstance(x, ast.Call) and ast.unparse(x.func) in ('str', 'list', 'tuple'))
    return not any(bad(x) for x in ast.walk(node))


def variants(src, qual, max_swaps):
    tree = ast.parse(src)
    fn = find(tree, qual)
    if fn is None:
        return
    # (a) inserted statement after the docstring
    t2 = copy.deepcopy(tree)
    f2 = find(t2, qual)
    k = 1 if (f2.body and isinstance(f2.body[0], ast.Expr) and isinstance(
        f2.body[0].value, ast.Constant)) else 0
    f2.body.insert(k, ast.parse('_unused_marker = None').body[0])
    yield 'insert', ast.unparse(ast.fix_missing_locations(t2))
    # (b) swaps
    sites = [n for n in ast.walk(fn) if isinstance(n, ast.BinOp)
             and isinstance(n.op, (ast.Add, ast.Mult)) and arithmetic(n)
             and ast.dump(n.left) != ast.dump(n.right)]
    step = max(1, len(sites) // max_swaps) if max_swaps else 1
    for idx in range(0, len(sites), step):
        t3 = copy.deepcopy(tree)
        f3 = find(t3, qual)
        s3 = [n for n in ast.walk(f3) if isinstance(n, ast.BinOp)
              and isinstance(n.op, (ast.Add, ast.Mult)) and arithmetic(n)
              and ast.dump(n.left) != ast.dump(n.right)]
        n = s3[idx]
        n.left, n.right = n.right, n.left
        yield 'swap%d@%d' % (idx, n.lineno), ast.unparse(
            ast.fix_missing_locations(t3))


MIRROR = {ast.Lt: ast.Gt, ast.Gt: ast.Lt, ast.LtE: ast.GtE, ast.GtE: ast.LtE,
          ast.Eq: ast.Eq, ast.NotEq: ast.NotEq}


def variants2(src, qual, max_each):
    """(c) mirrored comparisons, (e) inverted if/else."""
    tree = ast.parse(src)
    fn = find(tree, qual)
    if fn is None:
        return
    cmps = [n for n in ast.walk(fn) if isinstance(n, ast.Compare)
            and len(n.ops) == 1 and type(n.ops[0]) in MIRROR]
    step = max(1, len(cmps) // max_each) if max_each else 1
    for idx in range(0, len(cmps), step):
        t3 = copy.deepcopy(tree)
        f3 = find(t3, qual)
        c3 = [n for n in ast.walk(f3) if isinstance(n, ast.Compare)
              and len(n.ops) == 1 and type(n.ops[0]) in MIRROR]
        n = c3[idx]
        n.left, n.comparators[0] = n.comparators[0], n.left
        n.ops[0] = MIRROR[type(n.ops[0])]()
        yield 'mirror%d@%d' % (idx, n.lineno), ast.unparse(
            ast.fix_missing_locations(t3))
    ifs = [n for n in ast.walk(fn) if isinstance(n, ast.If) and n.orelse
           and not (len(n.orelse) == 1 and isinstance(n.orelse[0], ast.If))]
    step = max(1, len(ifs) // max_each) if max_each else 1
    for idx in range(0, len(ifs), step):
        t3 = copy.deepcopy(tree)
        f3 = find(t3, qual)
        i3 = [n for n in ast.walk(f3) if isinstance(n, ast.If) and n.orelse
              and not (len(n.orelse) == 1 and isinstance(n.orelse[0],
                                                         ast.If))]
        n = i3[idx]
        n.test = ast.UnaryOp(op=ast.Not(), operand=n.test)
        n.body, n.orelse = n.orelse, n.body
        yield 'invert%d@%d' % (idx, n.lineno), ast.unparse(
            ast.fix_missing_locations(t3))


def run_variant(job):
    name, file, text_, props, base = job
    root = os.path.join(base, name.replace('/', '_'))
    make_copy(root)
    open(os.path.join(root, file), 'w').write(text_)
    out = []
    for p in props:
        env = dict(os.environ, STBEM_OUT=os.path.join(root, '_out'))
        r = subprocess.run(['python3-vt', '-m', 'stbem_static', p, '--repo',
                            root], cwd=VERIF, capture_output=True, text=True,
                           env=env)
        lines = [l.strip()[:170] for l in r.stdout.splitlines()
                 if (l.startswith('  ') and ' at ' in l and 'rule ' not in l)
                 or 'ANALYSIS-ERROR' in l]
        out.append((p, r.returncode, lines[:1]))
    shutil.rmtree(root, ignore_errors=True)
    return name, out


def main():
    j = 12
    maxs = 6
    k = None
    a = sys.argv[1:]
    if '-j' in a:
        j = int(a[a.index('-j') + 1])
    if '--max-swaps' in a:
        maxs = int(a[a.index('--max-swaps') + 1])
    if '-k' in a:
        k = a[a.index('-k') + 1]
    base = tempfile.mkdtemp(prefix='autotwins_')
    jobs = []
    for file, qual, props in TARGETS:
        if k and k not in qual and k not in file:
            continue
        src = open(os.path.join('/repo', file)).read()
        gens = [variants2(src, qual, maxs)] if '--kind2' in a else [
            variants(src, qual, maxs)]
        for gen in gens:
            for tag, text_ in gen:
                jobs.append(('%s:%s:%s' % (file, qual, tag), file, text_,
                             props, base))
    alarms = errs = runs = 0
    try:
        with ThreadPoolExecutor(j) as ex:
            for name, out in ex.map(run_variant, jobs):
                for p, rc, lines in out:
                    runs += 1
                    if rc == 1:
                        alarms += 1
                        print('FALSE-ALARM %s %s %s' % (name, p, lines))
                    elif rc == 2:
                        errs += 1
                        print('exit2       %s %s %s' % (name, p, lines))
    finally:
        shutil.rmtree(base, ignore_errors=True)
    print('autotwins: %d variants, %d runs, %d false alarms, %d exit 2' %
          (len(jobs), runs, alarms, errs))
    return 1 if alarms else 0


if __name__ == '__main__':
    sys.exit(main())
